# C11 -- firmware and trxcon agree on the multiframe mapping of every
# logical channel.  The property is about compile-time tables, so the tables
# are extracted completely from the clang AST (initialisers folded, enumerators
# resolved) and every row of every table is decided.  The little code that
# reads the tables (fn % period lookups, l1sched_mframe_layout, the channel
# state allocation by lchan_mask, the firmware trigger arithmetic) is checked
# through guards, single-definition substitution, expression normal forms and
# exact evaluation over the finite (entry, config, tn) domain.

import json
import os
import re
from collections import Counter

from report import AnalysisError, VERIF
from cfront import (TU, CCFG, CLower, kids, kind, strip, walk, ctext, cliterals, calls_to,
                    call_args, array_extent, strip_comments)
import exprnf as X

EXPLANATION = (
    "Table extraction + exhaustive decision: the 18 trxcon frame tables "
    "(every (dl_chan, dl_bid, ul_chan, ul_bid) row), layouts[] and the 29 "
    "firmware multiframe tables + sched_set_for_task[] are read from the "
    "clang AST with all constants folded. Per row: channel in the layout's "
    "lchan_mask, burst id is the cyclic successor of the channel's previous "
    "burst; per layout: period == declared dimension == number of rows, and "
    "every frame lookup in sched_trx.c indexes `x % layout->period` (an index "
    "kept incrementally in a local is bounded by a finite-domain forward "
    "analysis of that variable for every layout period; an index that is not a "
    "remainder at all is bounded by interval evaluation or refuted by a witness: "
    "concrete frame numbers with which the exact execution of the function reaches "
    "the lookup with an index outside the table); channel states are "
    "allocated exactly for the mask bits (guard evaluated for all masks x "
    "types with C's implicit conversions, helper functions followed). "
    "l1sched_mframe_layout is "
    "evaluated exactly over all (config, tn) pairs with the checker's own "
    "evaluator (pure decision chain over a finite domain) and its return "
    "guard is compared with the specified predicate on all (entry, config, "
    "tn) triples; when the lookup keeps state between calls (static cache) "
    "it is evaluated in every state reachable by any sequence of calls; for "
    "the enum values without a layout of their own it must return NULL or an "
    "entry with period >= 1 and a frame table valid for tn (never the period-0 "
    "NONE entry, except for NONE itself). "
    "The firmware's channel number -> task mask function is executed for all "
    "256 channel number octets and compared with a reference; the handler of "
    "L1CTL_CCCH_MODE_REQ is executed (across l23_api.c and mframe_sched.c, the task "
    "word as a bit vector over 0 / 1 / unchanged / unknown, so for every previous "
    "content at once) for every CCCH mode and must leave enabled exactly the "
    "CCCH / CBCH tasks that the reference map compares with the layout of the "
    "mode's trxcon combination. A file-scope table the layout lookup reads and a "
    "load-time constructor fills is state: the constructor is executed by the "
    "evaluator and the lookup decided for the table before and after it. The firmware trigger is brought to expression normal form "
    "((fn + A) mod modulo == frame_nr mod modulo, set queued A - 1 frames "
    "ahead; any other comparison of the frame-number remainder with a value "
    "of the row is decided by evaluating it on every table row over one full "
    "period; when the scheduling function is written in any other way -- state "
    "carried between rows, helper functions, other loop forms -- it is executed "
    "by the checker's own interpreter for every task and every frame number of "
    "a full period, each value tagged with how it depends on the frame number so "
    "that one period is a proof for all, and the frames in which the queued "
    "sets start are compared with the rows). Cross-agreement: for every mapped firmware task / direction the "
    "frame set it triggers in, expanded over lcm(modulo, period), equals the "
    "set of first-burst frames (or owned frames for frame-by-frame tasks) of "
    "the corresponding trxcon channel in every layout the lookup can select; "
    "a transcription of TS 45.002 clause 7 is compared with the trxcon "
    "tables as a third witness. Which channel an lchan type is (l1sched_lchan_desc[].chan_nr / "
    "link_id, folded) is compared with the channel number that selects the firmware task the lchan's "
    "frames are compared with, and must be unique inside every layout mask. This covers every task, channel combination, "
    "timeslot and frame number of the multiframe cycle, not samples.")
ASSUMPTIONS = [
    "spec/mframe_map.json: hand-written correspondence firmware task <-> trxcon (combination, logical channel, direction), meaning of the tdma_sched item sets, DSP command latency of one TDMA frame",
    "spec/ts45002_clause7.json: transcription of 3GPP TS 45.002 clause 7 tables 1, 3, 4, 6 (block positions)",
    "GSM_PCHAN_*_CBCH values of cstubs/host/compat.h (copied from upstream libosmocore)",
    "quick tier: the period-0 entry (GSM_PCHAN_NONE) is never handed to l1sched_configure_ts (decided by the thorough tier: value sets of all call sites)",
    "incrementally maintained lookup index: branch conditions the analysis cannot evaluate are free (both branches possible), a plain frame-number lvalue takes every residue modulo the period, and the layout a timeslot points to is not replaced between the definition of the index and the lookup",
    "frame lookup whose index is not a remainder (witness search): every 32-bit unsigned input of the function (by-value parameter, field read through a pointer) is a TDMA frame number and takes every value 0..GSM_TDMA_HYPERFRAME-1 = 0..2715647 in every combination with the others; a by-value parameter of a static function (its callers choose the values) may decide branch conditions of the witness but never enters the index; stores through computed addresses do not alias these inputs or the function's locals; a branch condition that cannot be evaluated and was not computed from the witness is free (both branches possible)",
    "execution of mframe_schedule_set (only used when its trigger is not in one of the recognised normal forms): functions without a visible body neither queue item sets nor modify l1s.current_time, the const tables or the caller's locals; tdma_schedule_set(D, set, ..) starts the set's first burst D frames + the DSP latency after the current frame; l1s.current_time.fn < 2^32 - 2^20",
    "spec/chan_nr_tasks.json: which firmware task(s) implement the channel an RSL channel number octet denotes; bit i of the mask returned by chan_nr2mf_task_mask() runs task i (mframe_schedule() tests `tasks & (1 << i)`); the function is static and only called directly (checked), functions without a visible body do not change its locals",
    "l1sched_mframe_layout with state kept between calls: the state variables (static locals, static file-scope variables no other function of the translation unit mentions) are modified by this function only; any sequence of (config, tn) calls is possible",
    "execution of mframe_schedule_set: l1s.current_time is a consistent struct gsm_time (kept so by l1s_time_inc / gsm_fn2gsmtime): t2 == fn mod 26, t3 == fn mod 51, tc == (fn div 51) mod 8; t1 is not modelled",
    "spec/ccch_mode_tasks.json: the trxcon channel combination that belongs to each CCCH mode of L1CTL_CCCH_MODE_REQ and the logical channels the request is responsible for; the request's mode is the member ccch_mode of struct l1ctl_ccch_mode_req read from the message payload; the word mframe_set() writes is the one mframe_schedule() runs the tasks from, bit i = task i; functions without a body in l23_api.c / mframe_sched.c and stores through pointers that do not point into the modelled global objects do not change that word; functions that (transitively, as far as visible) mention no object with static storage are not entered",
    "l1sched_mframe_layout reading a static file-scope table that only load-time constructors (attribute constructor, referenced by no code) write: the constructors run at most once each, in definition order, before or between lookups; the lookup is decided for the initialiser contents and for the contents after every prefix of the constructors",
    "C11.R7: trxcon identifies the channel of an lchan type only by l1sched_lchan_desc[type].chan_nr == (channel number & RSL_CHAN_NR_MASK = 0xf8) and .link_id (l1sched_set_lchans, l1sched_find_lchan_by_chan_nr, `chan_nr | tn` in indications; that one of the first two still reads the field is checked); bit 6 (0x40) of an RSL / L1CTL link identifier means SACCH; GSM_NBITS_NB_{GMSK,8PSK}_PAYLOAD (burst buffer sizes, not read by the rule) are defined for parsing sched_lchan_desc.c",
    "thorough tier: trxcon source files that clang cannot parse here are covered by an identifier scan of their comment-stripped text only (they must not mention `frames`, l1sched_configure_ts, l1sched_mframe_layout)",
]

F_MF = "src/host/trxcon/src/sched_mframe.c"
F_TRX = "src/host/trxcon/src/sched_trx.c"
F_FW = "src/target/firmware/layer1/mframe_sched.c"
F_FSM = "src/host/trxcon/src/trxcon_fsm.c"
F_L1CTL = "src/host/trxcon/src/l1ctl.c"
F_L23 = "src/target/firmware/layer1/l23_api.c"

SINGLE_BURST = ("L1SCHED_FCCH", "L1SCHED_SCH", "L1SCHED_RACH")
HALF_BLOCK = ("L1SCHED_TCHH_0", "L1SCHED_TCHH_1")
IDLE = "L1SCHED_IDLE"
NONE_CFG = "GSM_PCHAN_NONE"


# ------------------------------------------------------------------ helpers

def gcd(a, b):
    while b:
        a, b = b, a % b
    return a


def lcm(a, b):
    return a // gcd(a, b) * b


def initlist(v, what):
    for c in kids(v):
        if kind(c) == "InitListExpr":
            return c
    raise AnalysisError("%s has no brace initialiser (table of unexpected shape)" % what)


def elems(il):
    """(explicit initialiser nodes, has_filler) of an array InitListExpr.
    clang prints sparse / short arrays as array_filler = [filler, e0, e1, ...]."""
    if "array_filler" in il:
        af = [x for x in il["array_filler"] if x]
        if not af or kind(af[0]) != "ImplicitValueInitExpr":
            raise AnalysisError("array_filler of unexpected shape")
        return af[1:], True
    return kids(il), False


def as_int(v, what):
    if v is None:
        return 0
    if isinstance(v, bool) or not isinstance(v, int):
        raise AnalysisError("%s is not an integer constant: %r" % (what, v))
    return v


def fmt_set(s, n=14):
    s = sorted(s)
    t = ",".join(str(x) for x in s[:n])
    return "{%s%s}" % (t, ",... (%d)" % len(s) if len(s) > n else "")


def cmp_sets(a, b, na, nb):
    if a == b:
        return True, "equal %s" % fmt_set(a)
    return False, "%s only %s; %s only %s" % (na, fmt_set(a - b), nb, fmt_set(b - a))


def short_cfg(name):
    return name.replace("GSM_PCHAN_", "")


def in_main_file(tu, n):
    f = n.get("_file")
    return f is None or os.path.basename(f) == os.path.basename(tu.rel)


def body_funcs(tu):
    for name, f in sorted(tu.functions.items()):
        if any(kind(c) == "CompoundStmt" for c in kids(f)) and in_main_file(tu, f):
            yield name, f


# ------------------------------------------------ single-definition locals

class Locals:
    """Definitions of the local variables of one function, keyed by the
    clang declaration id (immune to shadowing)."""

    def __init__(self, tu, f):
        self.tu = tu
        self.f = f
        self.defs = {}      # id -> list of (how, rhs, node)
        self.decl = {}      # id -> VarDecl / ParmVarDecl
        for p in tu.fparams(f):
            self.decl[p["id"]] = p
            self.defs.setdefault(p["id"], [])
        for n in walk(tu.body(f)):
            k = kind(n)
            if k == "VarDecl":
                self.decl[n["id"]] = n
                init = [c for c in kids(n) if "Comment" not in (kind(c) or "") and not (kind(c) or "").endswith("Attr")]
                self.defs.setdefault(n["id"], [])
                if init:
                    self.defs[n["id"]].append(("init", init[0], n))
            elif k == "BinaryOperator" and n.get("opcode") == "=":
                i = self._ref(kids(n)[0])
                if i is not None:
                    self.defs.setdefault(i, []).append(("assign", kids(n)[1], n))
            elif k == "CompoundAssignOperator":
                i = self._ref(kids(n)[0])
                if i is not None:
                    self.defs.setdefault(i, []).append(("update", None, n))
            elif k == "UnaryOperator" and n.get("opcode") in ("++", "--"):
                i = self._ref(kids(n)[0])
                if i is not None:
                    self.defs.setdefault(i, []).append(("update", None, n))
            elif k == "UnaryOperator" and n.get("opcode") == "&":
                i = self._ref(kids(n)[0])
                if i is not None:
                    self.defs.setdefault(i, []).append(("addr", None, n))

    @staticmethod
    def _ref(e):
        e = strip(e)
        if kind(e) == "DeclRefExpr" and e.get("referencedDecl", {}).get("kind") in ("VarDecl", "ParmVarDecl"):
            return e["referencedDecl"].get("id")
        return None

    def is_local(self, e):
        i = self._ref(e)
        return i is not None and i in self.decl

    def is_param(self, e):
        i = self._ref(e)
        return i is not None and kind(self.decl.get(i, {})) == "ParmVarDecl"

    def single(self, e):
        """(rhs, defining node) if the local referenced by e has exactly one
        definition and is never updated / address-taken, else None."""
        i = self._ref(e)
        if i is None or i not in self.decl:
            return None
        d = self.defs.get(i, [])
        if len(d) == 1 and d[0][0] in ("init", "assign"):
            return d[0][1], d[0][2]
        return None

    def ndefs(self, e):
        i = self._ref(e)
        return len(self.defs.get(i, [])) if i is not None else None


def pure(e, calls_ok=False):
    for n in walk(e):
        k = kind(n)
        if k in ("CompoundAssignOperator", "StmtExpr") or (k == "CallExpr" and not calls_ok):
            return False
        if k == "BinaryOperator" and n.get("opcode") == "=":
            return False
        if k == "UnaryOperator" and n.get("opcode") in ("++", "--"):
            return False
    return True


def rtext(loc, e, depth=0):
    """Canonical text of e with single-definition pure locals replaced by
    their definition (so `mf->period` and `lchan->ts->mf_layout->period`
    compare equal)."""
    e = strip(e)
    if e is None:
        return "?"
    k = kind(e)
    ks = kids(e)
    if k == "DeclRefExpr" and depth < 6:
        s = loc.single(e)
        if s is not None and pure(s[0]):
            return rtext(loc, s[0], depth + 1)
        return ctext(e)
    if k == "MemberExpr":
        return "%s%s%s" % (rtext(loc, ks[0], depth), "->" if e.get("isArrow") else ".", e.get("name"))
    if k == "ArraySubscriptExpr":
        return "%s[%s]" % (rtext(loc, ks[0], depth), rtext(loc, ks[1], depth))
    if k == "UnaryOperator" and not e.get("isPostfix"):
        return "%s%s" % (e.get("opcode"), rtext(loc, ks[0], depth))
    if k == "BinaryOperator":
        return "(%s %s %s)" % (rtext(loc, ks[0], depth), e.get("opcode"), rtext(loc, ks[1], depth))
    if k == "CStyleCastExpr":
        return rtext(loc, ks[0], depth)
    return ctext(e)


# ------------------------------------------------------- exact evaluation

class EvalOOB(Exception):
    pass


_NOTHING = object()


_BITS = {"uint64_t": (64, False), "int64_t": (64, True), "unsigned long long": (64, False), "long long": (64, True),
         "unsigned int": (32, False), "int": (32, True), "uint32_t": (32, False), "int32_t": (32, True),
         "unsigned short": (16, False), "short": (16, True), "uint16_t": (16, False), "int16_t": (16, True),
         "unsigned char": (8, False), "signed char": (8, True), "char": (8, True), "uint8_t": (8, False),
         "int8_t": (8, True)}


def int_type(tu, ty):
    """(bits, signed) of a clang type record ({'qualType', 'desugaredQualType'?}) or None (not a plain
    integer type / unknown typedef).  `long` follows the target of the translation unit."""
    if not isinstance(ty, dict):
        ty = {"qualType": ty or ""}
    for q in (ty.get("qualType", ""), ty.get("desugaredQualType", "")):
        q = re.sub(r"\b(const|volatile)\b", "", q).strip()
        if q in _BITS:
            return _BITS[q]
        if q in ("unsigned long", "long", "size_t", "ssize_t"):
            return (32 if tu.kind == "fw" else 64, q in ("long", "ssize_t"))
        if q in ("_Bool", "bool"):
            return (1, False)
    return None


def cwrap(tu, v, ty):
    """integer v converted to the C type ty (value unchanged for enum / unknown types)"""
    bt = int_type(tu, ty)
    if bt is None or not isinstance(v, int):
        return v
    bits, signed = bt
    if bits == 1:
        return int(v != 0)
    v &= (1 << bits) - 1
    if signed and v >= 1 << (bits - 1):
        v -= 1 << bits
    return v


def pure_callee(tu, call):
    """(name, FunctionDecl, operand of its return statement, temporaries) of a direct call of a function
    that is defined in this translation unit (static inline helpers of headers included) and whose body
    is `return <side-effect free expression>;`, optionally preceded by declarations of non-static locals
    with side-effect free initialisers (temporaries: {declaration id: initialiser}; nothing in such a
    body can modify them, their address must not be taken) -- else AnalysisError.  The operands keep the
    implicit conversions to the declared types."""
    callee = strip(kids(call)[0])
    rd = callee.get("referencedDecl", {}) if kind(callee) == "DeclRefExpr" else {}
    if rd.get("kind") != "FunctionDecl":
        raise AnalysisError("evaluator: expression outside the vocabulary: %s (indirect call)" % ctext(call)[:60])
    name = rd.get("name")
    f = tu.functions.get(name)
    if f is None or not any(kind(c) == "CompoundStmt" for c in kids(f)):
        raise AnalysisError("evaluator: expression outside the vocabulary: %s (CallExpr, body of %s() not visible)" % (
            ctext(call)[:60], name))
    st = kids(tu.body(f))
    bad = AnalysisError("evaluator: %s() is not a single side-effect free return statement (after side-effect free "
                        "temporaries); outside the vocabulary" % name)
    if not st or kind(st[-1]) != "ReturnStmt" or not kids(st[-1]) or not pure(kids(st[-1])[0], calls_ok=True):
        raise bad
    binds = {}
    for d in st[:-1]:
        if kind(d) != "DeclStmt":
            raise bad
        for vd in kids(d):
            init = [c for c in kids(vd) if "Comment" not in (kind(c) or "") and not (kind(c) or "").endswith("Attr")]
            if kind(vd) != "VarDecl" or vd.get("storageClass") or len(init) != 1 or not pure(init[0], calls_ok=True) or \
                    int_type(tu, vd.get("type")) is None:
                raise bad
            binds[vd["id"]] = init[0]
    for x in walk(tu.body(f)):
        if kind(x) == "UnaryOperator" and x.get("opcode") == "&" and Locals._ref(kids(x)[0]) in binds:
            raise bad
    if len(call_args(call)) != len(tu.fparams(f)):
        raise AnalysisError("evaluator: call of %s() with %d arguments" % (name, len(call_args(call))))
    return name, f, kids(st[-1])[0], binds


def ceval(tu, n, leaf, depth=0):
    """Value of a side-effect free C expression; `leaf(node)` supplies the
    values of variables / memory (or _NOTHING).  Implicit integral
    conversions (clang's ImplicitCastExpr) are applied, calls of
    single-return helper functions are evaluated on the callee's body with
    the parameters bound to the (converted) arguments and the result
    converted to the declared return type."""
    while n is not None and kind(n) in ("ParenExpr", "ConstantExpr") and kids(n):
        n = kids(n)[0]
    if n is None:
        raise AnalysisError("evaluator: empty expression")
    if kind(n) == "ImplicitCastExpr" and kids(n):
        a = ceval(tu, kids(n)[0], leaf, depth)
        if isinstance(a, int):
            if n.get("castKind") == "IntegralCast":
                return cwrap(tu, a, n.get("type"))
            if n.get("castKind") == "IntegralToBoolean":
                return int(a != 0)
        return a
    if kind(n) == "CallExpr":
        if depth > 3:
            raise AnalysisError("evaluator: helper calls nested too deeply in %s" % ctext(n)[:60])
        name, f, ret, binds = pure_callee(tu, n)
        pidx = {p["id"]: i for i, p in enumerate(tu.fparams(f))}
        args = call_args(n)

        def inner(x):
            if kind(x) == "DeclRefExpr":
                i = x.get("referencedDecl", {}).get("id")
                if i in pidx:
                    return ceval(tu, args[pidx[i]], leaf, depth + 1)
                if i in binds:
                    # a temporary of the helper: its initialiser, converted to the declared type
                    v = ceval(tu, binds[i], inner, depth + 1)
                    return cwrap(tu, v, tu.by_id[i].get("type")) if isinstance(v, int) else v
            return leaf(x)
        return ceval(tu, ret, inner, depth + 1)
    if kind(n) == "DeclRefExpr":
        # a variable the caller models (e.g. a static pointer-to-const with a constant initialiser, which
        # tu.fold would take for a constant) has the caller's value
        r = leaf(n)
        if r is not _NOTHING:
            return r
    v = tu.fold(n)
    if v is not None:
        return v
    r = leaf(n)
    if r is not _NOTHING:
        return r
    k = kind(n)
    ks = kids(n)
    if k == "UnaryOperator":
        op = n.get("opcode")
        a = ceval(tu, ks[0], leaf, depth)
        if op in ("&", "*") and isinstance(a, tuple):
            return a
        if isinstance(a, tuple):
            if op == "!":
                return 0
            raise AnalysisError("evaluator: unary %s on a pointer" % op)
        if op == "-":
            return -a
        if op == "+":
            return a
        if op == "~":
            return ~a
        if op == "!":
            return int(not a)
        raise AnalysisError("evaluator: unary %s" % op)
    if k == "BinaryOperator":
        op = n.get("opcode")
        if op == "&&":
            return int(bool(truth(ceval(tu, ks[0], leaf, depth))) and bool(truth(ceval(tu, ks[1], leaf, depth))))
        if op == "||":
            return int(bool(truth(ceval(tu, ks[0], leaf, depth))) or bool(truth(ceval(tu, ks[1], leaf, depth))))
        a, b = ceval(tu, ks[0], leaf, depth), ceval(tu, ks[1], leaf, depth)
        if isinstance(a, tuple) or isinstance(b, tuple):
            if op == "+" and isinstance(a, tuple) and isinstance(b, int):
                return (a[0], a[1] + b)
            if op == "+" and isinstance(b, tuple) and isinstance(a, int):
                return (b[0], b[1] + a)
            if op == "-" and isinstance(a, tuple) and isinstance(b, int):
                return (a[0], a[1] - b)
            if op in ("==", "!="):
                eq = (a == b) if (isinstance(a, tuple) and isinstance(b, tuple)) else False
                return int(eq if op == "==" else not eq)
            raise AnalysisError("evaluator: pointer arithmetic %s" % op)
        try:
            if op == "+":
                return a + b
            if op == "-":
                return a - b
            if op == "*":
                return a * b
            if op == "/":
                return int(a / b)
            if op == "%":
                return a - b * int(a / b)
            if op == "<<":
                return a << b
            if op == ">>":
                return a >> b
            if op == "&":
                return a & b
            if op == "|":
                return a | b
            if op == "^":
                return a ^ b
            if op == "<":
                return int(a < b)
            if op == ">":
                return int(a > b)
            if op == "<=":
                return int(a <= b)
            if op == ">=":
                return int(a >= b)
            if op == "==":
                return int(a == b)
            if op == "!=":
                return int(a != b)
        except (ZeroDivisionError, ValueError):
            raise AnalysisError("evaluator: undefined arithmetic in %s" % ctext(n))
        raise AnalysisError("evaluator: binary %s" % op)
    if k == "ConditionalOperator":
        return ceval(tu, ks[1] if truth(ceval(tu, ks[0], leaf, depth)) else ks[2], leaf, depth)
    if k == "CStyleCastExpr":
        a = ceval(tu, ks[0], leaf, depth)
        return cwrap(tu, a, n.get("type")) if isinstance(a, int) else a
    raise AnalysisError("evaluator: expression outside the vocabulary: %s (%s)" % (ctext(n)[:60], k))


def truth(v):
    if is_tern(v):
        if v[2]:
            return True
        if v[1] == M64:
            return False
        raise AnalysisError("a condition depends on bits of the multiframe task word the execution model does not know")
    return bool(v) if not isinstance(v, tuple) else True


def induction(tu, forstmt):
    """(declaration id of the loop variable, start value) of
    `for (v = c; ...; v++)`, else AnalysisError."""
    inner = forstmt.get("inner", [])
    if len(inner) != 5:
        raise AnalysisError("for statement of unexpected shape")
    init, inc = inner[0], inner[3]
    vid = start = None
    if init and kind(init) == "DeclStmt":
        vs = [c for c in kids(init) if kind(c) == "VarDecl"]
        if len(vs) == 1 and kids(vs[0]):
            vid, start = vs[0]["id"], tu.fold(kids(vs[0])[0])
    elif init and kind(strip(init)) == "BinaryOperator" and strip(init).get("opcode") == "=":
        l, r = kids(strip(init))
        vid, start = Locals._ref(l), tu.fold(r)
    inc = strip(inc) if inc else None
    ok = inc is not None and kind(inc) == "UnaryOperator" and inc.get("opcode") == "++" and \
        Locals._ref(kids(inc)[0]) == vid
    if vid is None or start is None or not ok:
        raise AnalysisError("loop is not of the form for (v = const; ...; v++)")
    return vid, start


# ------------------------------------ incrementally maintained lookup index

class _Opaque(object):
    def __repr__(self):
        return "OPAQUE"


OPQ = _Opaque()         # value the analysis does not model
UNINIT = "uninit"
ANYV = "any"


def _arith(op, a, b):
    if op == "+":
        return a + b
    if op == "-":
        return a - b
    if op == "*":
        return a * b
    if op == "/":
        return int(a / b)
    if op == "%":
        return a - b * int(a / b)
    if op == "<<":
        return a << b
    if op == ">>":
        return a >> b
    if op == "&":
        return a & b
    if op == "|":
        return a | b
    if op == "^":
        return a ^ b
    if op == "<":
        return int(a < b)
    if op == ">":
        return int(a > b)
    if op == "<=":
        return int(a <= b)
    if op == ">=":
        return int(a >= b)
    if op == "==":
        return int(a == b)
    if op == "!=":
        return int(a != b)
    raise AnalysisError("index analysis: operator %s" % op)


class IndexRange:
    """Finite-domain forward analysis of ONE local integer variable (the
    index of a frame lookup that is maintained incrementally instead of
    being computed as `x % period` at the lookup) for ONE concrete value P
    of `<layout>->period`.

    Collecting semantics over the statement CFG: the state of a node is the
    set of values the variable can hold on entry.  Every definition of the
    variable is executed exactly (C conversions to the variable's type and
    of the intermediate results applied); `<same layout>->period` is P; an
    unsigned remainder `x % <int>` of an unmodelled x is every value
    0..<int>-1.  Branch conditions are evaluated per value (three-valued:
    && / || short-circuit on the decided operand); a condition the analysis
    cannot evaluate lets the value pass into both branches."""

    LIMIT = 2048

    def __init__(self, tu, f, g, loc, vid, base, P):
        self.tu, self.f, self.g, self.loc, self.vid, self.base, self.P = tu, f, g, loc, vid, base, P
        self.vtype = loc.decl[vid].get("type", {})
        self.name = loc.decl[vid].get("name")
        self.defids = {id(d[2]) for d in loc.defs.get(vid, [])}
        if any(d[0] == "addr" for d in loc.defs.get(vid, [])):
            raise AnalysisError("%s(): the address of index variable `%s` is taken; unclassifiable" % (f.get("name"), self.name))
        self._hd = {}
        self._mn = {}
        self.cur = UNINIT
        self.taint = False
        self.imprecise = None       # reason why an out-of-range value would not be a proof
        self.opaque_conds = {}      # node id -> cond node whose outcome was not decided for some value

    # -- syntactic facts (cached per AST node)
    def has_defs(self, n):
        r = self._hd.get(id(n))
        if r is None:
            r = self._hd[id(n)] = any(id(x) in self.defids for x in walk(n))
        return r

    def mentions(self, n):
        r = self._mn.get(id(n))
        if r is None:
            r = self._mn[id(n)] = any(kind(x) == "DeclRefExpr" and Locals._ref(x) == self.vid for x in walk(n))
        return r

    def conv(self, v):
        return cwrap(self.tu, v, self.vtype)

    def read(self):
        if isinstance(self.cur, int):
            return self.cur
        if isinstance(self.cur, tuple):
            raise AnalysisError("%s(): `%s` is read in the statement that assigns it a remainder; unclassifiable" % (
                self.f.get("name"), self.name))
        return OPQ

    def assign(self, v, rhs):
        if isinstance(v, int):
            self.cur = self.conv(v)
            return
        e = strip(rhs)
        if kind(e) == "BinaryOperator" and e.get("opcode") == "%" and not self.mentions(e):
            bt = int_type(self.tu, e.get("type"))
            d = self.ev(kids(e)[1])
            if bt is not None and not bt[1] and isinstance(d, int) and 0 < d <= self.LIMIT:
                x = strip(kids(e)[0])
                while kind(x) in ("MemberExpr", "ArraySubscriptExpr") and kids(x):
                    if kind(x) == "ArraySubscriptExpr" and self.tu.fold(kids(x)[1]) is None:
                        break
                    x = strip(kids(x)[0])
                if kind(x) != "DeclRefExpr":
                    # every residue is possible for a plain frame-number lvalue; for a computed dividend that is an assumption
                    self.imprecise = self.imprecise or "the dividend of `%s` is a computed value" % ctext(e)[:50]
                self.cur = ("set", frozenset(self.conv(x) for x in range(d)))
                return
        bt = int_type(self.tu, self.vtype)
        if bt is not None and bt[0] <= 8:
            lo = -(1 << (bt[0] - 1)) if bt[1] else 0
            self.cur = ("set", frozenset(range(lo, lo + (1 << bt[0]))))
        else:
            self.cur = ANYV

    def outvals(self):
        return list(self.cur[1]) if isinstance(self.cur, tuple) else [self.cur]

    # -- expression evaluation with the side effects on the variable
    def ev(self, n):
        tu = self.tu
        k = kind(n)
        ks = kids(n)
        if k in ("ParenExpr", "ConstantExpr") and ks:
            return self.ev(ks[0])
        if k in ("ImplicitCastExpr", "CStyleCastExpr") and ks:
            a = self.ev(ks[0])
            if a is OPQ:
                return OPQ
            ck = n.get("castKind")
            if ck == "IntegralCast":
                return cwrap(tu, a, n.get("type"))
            if ck == "IntegralToBoolean":
                return int(a != 0)
            if ck in ("LValueToRValue", "NoOp"):
                return a
            return OPQ
        if not self.has_defs(n) and not self.mentions(n):
            c = tu.fold(n)
            if c is not None:
                return c
        if k == "DeclRefExpr":
            return self.read() if Locals._ref(n) == self.vid else OPQ
        if k == "MemberExpr":
            if self.has_defs(n):
                raise AnalysisError("%s(): `%s` is updated inside a member access; unclassifiable" % (self.f.get("name"), self.name))
            if n.get("name") == "period" and rtext(self.loc, ks[0]) == self.base:
                return self.P
            if self.mentions(n):
                self.taint = True
            return OPQ
        if k == "UnaryOperator":
            op = n.get("opcode")
            if op in ("++", "--"):
                if Locals._ref(ks[0]) == self.vid:
                    old = self.read()
                    if old is OPQ:
                        self.cur = ANYV
                        return OPQ
                    self.cur = self.conv(old + (1 if op == "++" else -1))
                    return old if n.get("isPostfix") else self.cur
                if self.has_defs(ks[0]):
                    self.ev(ks[0])
                return OPQ
            a = self.ev(ks[0])
            if a is OPQ or op in ("&", "*"):
                return OPQ
            if op == "-":
                return cwrap(tu, -a, n.get("type"))
            if op == "+":
                return a
            if op == "~":
                return cwrap(tu, ~a, n.get("type"))
            if op == "!":
                return int(not a)
            return OPQ
        if k == "BinaryOperator":
            op = n.get("opcode")
            l, r = ks
            if op == "=":
                if Locals._ref(l) == self.vid:
                    self.assign(self.ev(r), r)
                    return self.cur if isinstance(self.cur, int) else OPQ
                for x in (l, r):
                    if self.has_defs(x):
                        self.ev(x)
                return OPQ
            if op == ",":
                self.ev(l)
                return self.ev(r)
            if op in ("&&", "||"):
                a = self.ev(l)
                if a is OPQ:
                    if self.has_defs(r):
                        raise AnalysisError("%s(): `%s` is updated under a condition the analysis cannot evaluate (%s); unclassifiable" % (
                            self.f.get("name"), self.name, ctext(l)[:50]))
                    b = self.ev(r)
                    if b is not OPQ and bool(b) == (op == "||"):
                        return int(op == "||")
                    return OPQ
                if bool(a) == (op == "||"):
                    return int(op == "||")
                b = self.ev(r)
                return OPQ if b is OPQ else int(bool(b))
            a, b = self.ev(l), self.ev(r)
            if a is OPQ or b is OPQ:
                if (a is not OPQ and self.mentions(l)) or (b is not OPQ and self.mentions(r)):
                    self.taint = True       # a value derived from the variable is absorbed by an unmodelled one
                return OPQ
            try:
                v = _arith(op, a, b)
            except (ZeroDivisionError, ValueError):
                raise AnalysisError("%s(): undefined arithmetic in %s" % (self.f.get("name"), ctext(n)[:60]))
            return v if op in ("<", ">", "<=", ">=", "==", "!=") else cwrap(tu, v, n.get("type"))
        if k == "CompoundAssignOperator":
            l, r = ks
            if Locals._ref(l) == self.vid:
                old, b = self.read(), self.ev(r)
                if old is OPQ or b is OPQ:
                    self.cur = ANYV
                    return OPQ
                try:
                    v = _arith(n.get("opcode")[:-1], old, b)
                except (ZeroDivisionError, ValueError):
                    raise AnalysisError("%s(): undefined arithmetic in %s" % (self.f.get("name"), ctext(n)[:60]))
                self.cur = self.conv(cwrap(tu, v, n.get("computeResultType") or n.get("type")))
                return self.cur
            for x in (l, r):
                if self.has_defs(x):
                    self.ev(x)
            return OPQ
        if k == "ConditionalOperator" and len(ks) == 3:
            c = self.ev(ks[0])
            if c is OPQ:
                if self.has_defs(ks[1]) or self.has_defs(ks[2]):
                    raise AnalysisError("%s(): `%s` is updated under a condition the analysis cannot evaluate (%s); unclassifiable" % (
                        self.f.get("name"), self.name, ctext(ks[0])[:50]))
                x, y = self.ev(ks[1]), self.ev(ks[2])
                if x is not OPQ and y is not OPQ and x == y:
                    return x
                if self.mentions(ks[1]) or self.mentions(ks[2]):
                    self.taint = True
                return OPQ
            return self.ev(ks[1] if c else ks[2])
        # anything else (calls, subscripts, literals, sizeof, ...): unmodelled value
        if self.has_defs(n):
            if k in ("CallExpr", "ArraySubscriptExpr"):
                for c in ks:
                    if self.has_defs(c):
                        self.ev(c)
                return OPQ
            raise AnalysisError("%s(): `%s` is updated inside a %s; unclassifiable" % (self.f.get("name"), self.name, k))
        if self.mentions(n):
            self.taint = True
        return OPQ

    def exec_stmt(self, a):
        k = kind(a)
        if k == "DeclStmt":
            for vd in kids(a):
                if kind(vd) != "VarDecl":
                    continue
                init = [c for c in kids(vd) if "Comment" not in (kind(c) or "") and not (kind(c) or "").endswith("Attr")]
                if vd.get("id") == self.vid:
                    if init:
                        self.assign(self.ev(init[0]), init[0])
                    else:
                        self.cur = UNINIT
                elif init and self.has_defs(init[0]):
                    self.ev(init[0])
        elif k == "ReturnStmt":
            for c in kids(a):
                self.ev(c)
        else:
            self.ev(a)

    def step(self, node, v):
        """[(successor, value of the variable on entry of the successor)]"""
        self.cur = v
        if node.kind == "stmt":
            a = node.ast
            if kind(a) == "DeclStmt" or (kind(a) != "DoHead" and self.has_defs(a)):
                self.exec_stmt(a)
            outs = self.outvals()
            return [(s, o) for s, _ in node.succ for o in outs]
        if node.kind == "cond":
            c = getattr(node, "cond", None)
            self.taint = False
            if c is None:
                r = 1
            elif self.has_defs(c) or self.mentions(c):
                r = self.ev(c)
            else:
                r = OPQ
            if r is OPQ:
                self.opaque_conds[node.id] = node
                if self.taint:
                    self.imprecise = self.imprecise or "the outcome of `%s` depends on the index in a way the analysis does not model" % ctext(c)[:50]
            outs = self.outvals()
            return [(s, o) for s, lab in node.succ if r is OPQ or bool(r) == bool(lab) for o in outs]
        c = getattr(node, "cond", None)
        if node.kind == "switch" and c is not None:
            if self.has_defs(c):
                raise AnalysisError("%s(): `%s` is updated in a switch condition; unclassifiable" % (self.f.get("name"), self.name))
            if self.mentions(c):
                self.imprecise = self.imprecise or "switch on the index"
        return [(s, v) for s, _ in node.succ]

    # -- fixpoint
    def solve(self, use_node, use_expr):
        """(set of index values at the lookup, witness) where witness is
        None or (offending index value, chain of values of the variable along
        a shortest path from the function entry)."""
        host = use_node.cond if use_node.kind in ("cond", "switch") else use_node.ast
        for x in walk(host):
            if id(x) in self.defids and not any(y is x for y in walk(use_expr)):
                raise AnalysisError("%s(): `%s` is updated in the statement of the frame lookup; unclassifiable" % (
                    self.f.get("name"), self.name))
        g = self.g
        states = {g.entry.id: {UNINIT}}
        parent = {}
        work = [(g.entry, UNINIT)]
        at_use = set()
        qi = 0
        while qi < len(work):
            node, v = work[qi]
            qi += 1
            if node is use_node:
                if v == UNINIT:
                    raise AnalysisError("%s(): index variable `%s` may be uninitialised at the frame lookup" % (self.f.get("name"), self.name))
                if v == ANYV:
                    raise AnalysisError("%s(): cannot bound index variable `%s` at the frame lookup" % (self.f.get("name"), self.name))
                self.cur = v
                iv = self.ev(use_expr)
                if iv is OPQ:
                    raise AnalysisError("%s(): cannot evaluate the lookup index `%s`" % (self.f.get("name"), ctext(use_expr)[:50]))
                at_use.add(iv)
                if not 0 <= iv < self.P:
                    chain = []
                    key = (node.id, v)
                    while key is not None:
                        if key[1] not in (UNINIT, ANYV) and (not chain or chain[-1] != key[1]):
                            chain.append(key[1])
                        key = parent.get(key)
                    return at_use, (iv, list(reversed(chain)))
            for s, o in self.step(node, v):
                st = states.setdefault(s.id, set())
                if o not in st:
                    st.add(o)
                    if len(st) > self.LIMIT:
                        raise AnalysisError("%s(): the value set of index variable `%s` does not converge" % (self.f.get("name"), self.name))
                    parent[(s.id, o)] = (node.id, v)
                    work.append((s, o))
        return at_use, None

    def proof_obstacle(self, use_node):
        """Why an out-of-range value found by solve() is NOT a proof that the
        lookup can leave the table (None: it is).  Unevaluated conditions are
        harmless when they only gate whether the lookup is reached at all, or
        when no update of the index depends on them."""
        if self.imprecise:
            return self.imprecise
        g = self.g
        pdom = postdominators(g)
        for c in self.opaque_conds.values():
            succs = [s for s, _ in c.succ]
            if sum(1 for s in succs if s is use_node or use_node.id in g.reach(s, labels_skip=())) < 2:
                continue
            stop = pdom[c.id] - {c.id}
            seen = set()
            todo = list(succs)
            while todo:
                x = todo.pop()
                if x.id in seen or x.id in stop:
                    continue
                seen.add(x.id)
                host = x.cond if x.kind in ("cond", "switch") else x.ast
                if host is not None and kind(host) != "DoHead" and (
                        self.has_defs(host) or (kind(host) == "DeclStmt" and any(vd.get("id") == self.vid for vd in kids(host)))):
                    return "which update of the index is executed depends on `%s`, which the analysis cannot evaluate" % (
                        ctext(c.cond)[:50] if getattr(c, "cond", None) is not None else "a condition")
                todo.extend(s for s, _ in x.succ)
        return None


def postdominators(g):
    ids = [n.id for n in g.nodes]
    full = set(ids)
    pd = {n.id: ({n.id} if not n.succ else set(full)) for n in g.nodes}
    changed = True
    while changed:
        changed = False
        for n in reversed(g.nodes):
            if not n.succ:
                continue
            new = set(full)
            for s, _ in n.succ:
                new &= pd[s.id]
            new.add(n.id)
            if new != pd[n.id]:
                pd[n.id] = new
                changed = True
    return pd


def incremental_index(tu, f, g, loc, use, idx, base, periods):
    """C11.R1, clause `no frame lookup for any frame number leaves the table`, for a lookup
    frames[v] whose index is a local variable with several definitions (maintained incrementally):
    for every layout period P the values v can hold at the lookup, computed by IndexRange from the
    variable's own definitions and the guards over it, are all in 0..P-1.
    -> (ok, found text)."""
    fname = f.get("name")
    vid = Locals._ref(idx) if kind(idx) == "DeclRefExpr" else None
    if vid is None:
        cand = {Locals._ref(x) for x in walk(idx) if kind(x) == "DeclRefExpr" and loc.is_local(x) and not loc.is_param(x)}
        if len(cand) != 1:
            raise AnalysisError("%s(): frame lookup index `%s` is not a remainder expression; unclassifiable" % (fname, ctext(idx)[:60]))
        vid = cand.pop()
    use_node = g.node_of(use)
    bad = []
    for P in periods:
        ir = IndexRange(tu, f, g, loc, vid, base, P)
        vals, wit = ir.solve(use_node, idx)
        if not vals:
            raise AnalysisError("%s(): the frame lookup is unreachable in the index analysis" % fname)
        if wit is not None:
            why = ir.proof_obstacle(use_node)
            if why is not None:
                raise AnalysisError("%s(): index variable `%s` of the frame lookup may reach %d with period %d, but %s; cannot tell" % (
                    fname, ir.name, wit[0], P, why))
            bad.append("period %d: index %d (values of `%s` along a path to the lookup: %s)" % (
                P, wit[0], ir.name, " -> ".join(str(x) for x in wit[1][-6:])))
    if bad:
        return False, "; ".join(bad[:3])
    return True, "within 0..period-1 for the periods %s" % ",".join(str(p) for p in periods)


# ------------------- lookup index that is not reduced modulo the period at all

# TS 45.002: frame numbers run over one hyperframe, 0 .. 26 * 51 * 2048 - 1 (GSM_TDMA_HYPERFRAME)
HYPERFRAME = 26 * 51 * 2048


def _carith(op, a, b):
    """_arith with exact (not floating point) truncating division / remainder and bounded shifts"""
    if op in ("/", "%"):
        if b == 0:
            raise ZeroDivisionError()
        q = abs(a) // abs(b)
        if (a < 0) != (b < 0):
            q = -q
        return q if op == "/" else a - b * q
    if op in ("<<", ">>") and not 0 <= b <= 64:
        raise ValueError("shift count")
    return _arith(op, a, b)


def _fit(tu, iv, ty):
    """interval iv after conversion to the C integer type ty: unchanged when it fits, else the whole range of
    the type (None for a type the model does not know)"""
    bt = int_type(tu, ty)
    if iv is None or bt is None:
        return None
    bits, signed = bt
    if bits == 1:
        return (0, 1)
    lo, hi = (-(1 << (bits - 1)), (1 << (bits - 1)) - 1) if signed else (0, (1 << bits) - 1)
    return iv if lo <= iv[0] and iv[1] <= hi else (lo, hi)


def index_interval(tu, loc, n, base, P, depth=0):
    """Interval (lo, hi) that contains every value the side-effect free integer expression n can take when
    `<base>->period` is P -- or None (not an expression of the vocabulary).  No assumption enters: an lvalue
    the function does not define once by a pure expression takes the whole range of its C type, every
    intermediate result that may leave the range of its C type becomes the whole range of that type (so
    unsigned wrap-around and narrowing conversions are covered)."""
    k = kind(n)
    ks = kids(n)
    if k in ("ParenExpr", "ConstantExpr") and ks:
        return index_interval(tu, loc, ks[0], base, P, depth)
    if k in ("ImplicitCastExpr", "CStyleCastExpr") and ks:
        a = index_interval(tu, loc, ks[0], base, P, depth)
        ck = n.get("castKind")
        if ck in ("LValueToRValue", "NoOp"):
            return a
        if ck == "IntegralCast":
            return _fit(tu, a, n.get("type"))
        if ck == "IntegralToBoolean":
            return (0, 1) if a is not None else None
        return None
    if k in ("IntegerLiteral", "CharacterLiteral", "UnaryExprOrTypeTraitExpr"):
        c = tu.fold(n)
        return (c, c) if c is not None else None
    if k == "DeclRefExpr":
        rd = n.get("referencedDecl", {})
        if rd.get("kind") == "EnumConstantDecl":
            c = tu.fold(n)
            return (c, c) if c is not None else None
        if loc.is_local(n) and not loc.is_param(n) and depth < 6:
            s = loc.single(n)
            if s is not None and s[0] is not None and pure(s[0]):
                return _fit(tu, index_interval(tu, loc, s[0], base, P, depth + 1), n.get("type"))
        return _fit(tu, (-(1 << 70), 1 << 70), n.get("type"))
    if k == "MemberExpr":
        if n.get("name") == "period" and ks and rtext(loc, ks[0]) == base:
            return (P, P)
        return _fit(tu, (-(1 << 70), 1 << 70), n.get("type"))
    if k == "ArraySubscriptExpr":
        return _fit(tu, (-(1 << 70), 1 << 70), n.get("type"))
    if k == "UnaryOperator" and ks:
        op = n.get("opcode")
        a = index_interval(tu, loc, ks[0], base, P, depth)
        if op == "*":
            return _fit(tu, (-(1 << 70), 1 << 70), n.get("type"))
        if a is None:
            return None
        if op == "+":
            return a
        if op == "-":
            return _fit(tu, (-a[1], -a[0]), n.get("type"))
        if op == "!":
            return (0, 1)
        if op == "~":
            return _fit(tu, (~a[1], ~a[0]), n.get("type"))
        return None
    if k == "BinaryOperator" and len(ks) == 2:
        op = n.get("opcode")
        if op in ("<", ">", "<=", ">=", "==", "!=", "&&", "||"):
            return (0, 1)
        a = index_interval(tu, loc, ks[0], base, P, depth)
        b = index_interval(tu, loc, ks[1], base, P, depth)
        if a is None or b is None:
            return None
        r = None
        if op == "+":
            r = (a[0] + b[0], a[1] + b[1])
        elif op == "-":
            r = (a[0] - b[1], a[1] - b[0])
        elif op == "*":
            c = [x * y for x in a for y in b]
            r = (min(c), max(c))
        elif op == "/" and b[0] > 0:
            c = [_carith("/", x, y) for x in a for y in b]
            r = (min(c), max(c))
        elif op == "%" and b[0] > 0 and a[0] >= 0:
            r = a if a[1] < b[0] else (0, min(a[1], b[1] - 1))
        elif op == "&" and a[0] >= 0 and b[0] >= 0:
            r = (0, min(a[1], b[1]))
        elif op == ">>" and a[0] >= 0 and 0 <= b[0] and b[1] <= 64:
            r = (a[0] >> b[1], a[1] >> b[0])
        if r is None:
            return _fit(tu, (-(1 << 70), 1 << 70), n.get("type"))
        return _fit(tu, r, n.get("type"))
    if k == "ConditionalOperator" and len(ks) == 3:
        a = index_interval(tu, loc, ks[1], base, P, depth)
        b = index_interval(tu, loc, ks[2], base, P, depth)
        if a is None or b is None:
            return None
        return (min(a[0], b[0]), max(a[1], b[1]))
    return None


class _Need(Exception):
    """a 32-bit unsigned input of the function decides something and has no value in the witness yet"""

    def __init__(self, keys):
        Exception.__init__(self, ",".join(sorted(keys)))
        self.keys = sorted(keys)


class _Stuck(Exception):
    """this execution path cannot be continued inside the model"""


def _unk(deps=(), taint=False):
    return ("U", frozenset(deps), bool(taint))


def _is_unk(v):
    return isinstance(v, tuple)


class WitnessRun:
    """Execution of ONE function on its statement CFG for ONE layout period P and ONE assignment of values
    to (some of) the function's inputs -- the search for a frame number with which a frame lookup leaves
    the table.  Values are exact C integers (conversions applied) or `unknown`; an unknown value records
    the inputs it was computed from and whether a value of the witness went into it (taint).  Inputs are
    the by-value parameters and the memory read through pointers / globals (keyed by the canonical text of
    the lvalue, single-definition pointer locals substituted); `<layout>->period` is P.  Locals -- scalars
    and the fields of local structs -- are kept exactly; a local whose address is handed to a call is
    unknown afterwards.  A branch condition with an exact value is followed; one that is unknown and
    untainted is free (both successors, breadth first); one that is unknown but computed from witness
    values ends the path (nothing may be concluded from it) -- unless it depends on 32-bit unsigned inputs
    that have no value yet: then the caller is asked to extend the witness by them (_Need).  The run stops
    at the first arrival at the lookup where the index is an exact value outside 0..P-1."""

    BUDGET = 6000

    def __init__(self, tu, f, g, loc, base, P, valuation, use_node, use_expr, shared):
        self.tu, self.f, self.g, self.loc, self.base, self.P = tu, f, g, loc, base, P
        self.val = valuation
        self.use_node, self.use_expr = use_node, use_expr
        self.S = shared            # caches that do not depend on P / the valuation
        self.stuck = []

    # ---- static facts
    def constlike(self, n):
        """the value of n does not depend on the inputs: literals, enumerators, sizeof, the layout's period"""
        c = self.S["constlike"].get(id(n))
        if c is None:
            k = kind(n)
            if k in ("IntegerLiteral", "CharacterLiteral", "UnaryExprOrTypeTraitExpr"):
                c = True
            elif k == "DeclRefExpr":
                c = n.get("referencedDecl", {}).get("kind") == "EnumConstantDecl"
            elif k == "MemberExpr":
                c = self.is_period(n)
            elif k in ("CallExpr", "StmtExpr", "ArraySubscriptExpr", "StringLiteral") or not kids(n):
                c = False
            else:
                c = all(self.constlike(x) for x in kids(n))
            self.S["constlike"][id(n)] = c
        return c

    def key(self, n):
        r = self.S["key"].get(id(n))
        if r is None:
            r = self.S["key"][id(n)] = rtext(self.loc, n)
        return r

    def is_period(self, n):
        r = self.S["period"].get(id(n))
        if r is None:
            r = self.S["period"][id(n)] = bool(kind(n) == "MemberExpr" and n.get("name") == "period" and kids(n) and
                                               rtext(self.loc, kids(n)[0]) == self.base)
        return r

    def local_path(self, n):
        """(declaration id, 'a.b') for an lvalue that is a (field of a) local variable of the function, else None"""
        path = []
        n = strip(n)
        while kind(n) == "MemberExpr" and not n.get("isArrow") and kids(n):
            path.append(n.get("name"))
            n = strip(kids(n)[0])
        i = Locals._ref(n) if kind(n) == "DeclRefExpr" else None
        if i is None or i not in self.loc.decl:
            return None
        return i, ".".join(reversed(path))

    def record_of(self, ty):
        for q in (ty.get("desugaredQualType", ""), ty.get("qualType", "")):
            m = re.match(r"^(?:const\s+|volatile\s+)*struct\s+(\w+)\s*$", q)
            if m and m.group(1) in self.tu.records:
                return [c for c in kids(self.tu.records[m.group(1)]) if kind(c) == "FieldDecl"]
        return None

    # ---- memory
    def taint_of(self, v, expr):
        """does the value v of expr carry information about the witness"""
        if _is_unk(v):
            return v[2]
        return not self.constlike(expr)

    def join(self, pairs):
        """unknown value computed from the (value, expression) pairs"""
        deps, t = frozenset(), False
        for v, x in pairs:
            if _is_unk(v):
                deps |= v[1]
            t = t or self.taint_of(v, x)
        return _unk(deps, t)

    def havocked(self, key, st):
        """was the memory `key` names handed to a call (through a pointer to non-const / as a global)"""
        for kk in st:
            if kk[0] == "hv" and (kk[1] == "*" or key == kk[1] or key.startswith(kk[1] + "->") or
                                  key.startswith(kk[1] + ".") or key.startswith(kk[1] + "[")):
                return True
        return False

    def input_value(self, key, ty):
        if key in self.val:
            return cwrap(self.tu, self.val[key], ty)
        self.S["itype"].setdefault(key, int_type(self.tu, ty))
        return _unk((key,))

    def read(self, n, st):
        """value of the lvalue n"""
        n = strip(n)
        k = kind(n)
        if k == "MemberExpr" and self.is_period(n):
            return self.P
        lp = self.local_path(n)
        if lp is not None:
            i, path = lp
            d = self.loc.decl[i]
            if i in self.S["escaped"] or d.get("storageClass") == "static":
                return _unk((), True)
            v = st.get((i, path))
            if v is not None:
                return v
            if not path and kind(d) == "ParmVarDecl":
                if int_type(self.tu, d.get("type")) is None:
                    return _unk()           # a pointer / struct parameter: free, carries nothing
                return self.input_value(d.get("name"), d.get("type"))
            return _unk((), True)           # not initialised / a whole struct / havocked
        if k == "DeclRefExpr":
            rd = n.get("referencedDecl", {})
            if rd.get("kind") in ("VarDecl", "ParmVarDecl"):
                c = self.tu.fold(n)
                if c is not None:
                    return c
                if int_type(self.tu, n.get("type")) is None:
                    return _unk()
                v = st.get(("m", rd.get("name")))
                if v is not None:
                    return v
                if ("hv", "*g") in st:
                    return _unk((), True)
                return self.input_value(rd.get("name"), n.get("type"))
            return _unk()
        if k == "MemberExpr" and kids(n):
            b = self.ev(kids(n)[0], st)
            if _is_unk(b) and b[2]:
                return _unk(b[1], True)
            key = self.key(n)
            v = st.get(("m", key))
            if v is not None:
                return v
            if int_type(self.tu, n.get("type")) is None:
                return _unk(b[1] if _is_unk(b) else ())
            if self.havocked(key, st):
                return _unk((), True)
            return self.input_value(key, n.get("type"))
        if k == "ArraySubscriptExpr" and len(kids(n)) == 2:
            a, b = self.ev(kids(n)[0], st), self.ev(kids(n)[1], st)
            r = self.join([(b, kids(n)[1])])
            return _unk(r[1] | (a[1] if _is_unk(a) else frozenset()), r[2] or (_is_unk(a) and a[2]))
        if k == "UnaryOperator" and n.get("opcode") == "*" and kids(n):
            a = self.ev(kids(n)[0], st)
            return a if _is_unk(a) else _unk()
        self.ev(n, st)
        return _unk((), True)

    def write(self, n, v, st):
        n = strip(n)
        lp = self.local_path(n)
        if lp is not None:
            i, path = lp
            if not path:
                for kk in [kk for kk in st if kk[0] == i]:
                    del st[kk]
            st[(i, path)] = v
            return
        k = kind(n)
        if k == "MemberExpr" and kids(n):
            b = self.ev(kids(n)[0], st)
            if not (_is_unk(b) and b[2]):
                st[("m", self.key(n))] = v
            return
        if k == "DeclRefExpr":
            st[("m", n.get("referencedDecl", {}).get("name"))] = v
            return
        # a store through a computed address: evaluated for its side effects; assumed not to alias the inputs
        self.ev(n, st)

    def havoc(self, i, st):
        for kk in [kk for kk in st if kk[0] == i]:
            del st[kk]
        st[(i, "")] = _unk((), True)

    # ---- expressions
    def ev(self, n, st):
        tu = self.tu
        k = kind(n)
        ks = kids(n)
        if k in ("ParenExpr", "ConstantExpr") and ks:
            return self.ev(ks[0], st)
        if k in ("ImplicitCastExpr", "CStyleCastExpr") and ks:
            ck = n.get("castKind")
            if ck == "LValueToRValue":
                return self.read(ks[0], st)
            a = self.ev(ks[0], st)
            if _is_unk(a):
                return a
            if ck == "IntegralCast":
                return cwrap(tu, a, n.get("type"))
            if ck in ("IntegralToBoolean", "PointerToBoolean"):
                return int(a != 0)
            if ck in ("NoOp", "NullToPointer", "BitCast", "IntegralToPointer", "PointerToIntegral"):
                return a
            if ck == "ToVoid":
                return _unk()
            return _unk((), not self.constlike(ks[0]))
        if k in ("IntegerLiteral", "CharacterLiteral", "UnaryExprOrTypeTraitExpr"):
            c = tu.fold(n)
            return c if c is not None else _unk()
        if k == "DeclRefExpr":
            rd = n.get("referencedDecl", {})
            if rd.get("kind") == "EnumConstantDecl":
                c = tu.fold(n)
                return c if c is not None else _unk()
            if rd.get("kind") == "FunctionDecl":
                return _unk()
            # an lvalue that is not converted to an rvalue here (operand of &, array that decays, ...)
            return _unk()
        if k in ("MemberExpr", "ArraySubscriptExpr"):
            # lvalue context (address computation): side effects of the operands only
            return self.join([(self.ev(c, st), c) for c in ks])
        if k == "UnaryOperator" and ks:
            op = n.get("opcode")
            if op in ("++", "--"):
                old = self.read(ks[0], st)
                if _is_unk(old):
                    new = _unk(old[1], True)
                else:
                    new = cwrap(tu, old + (1 if op == "++" else -1), strip(ks[0]).get("type"))
                self.write(ks[0], new, st)
                return old if n.get("isPostfix") else new
            if op == "&":
                return self.ev(ks[0], st)
            if op == "*":
                return self.read(n, st)
            a = self.ev(ks[0], st)
            if _is_unk(a):
                return a
            if op == "-":
                return cwrap(tu, -a, n.get("type"))
            if op == "+":
                return a
            if op == "~":
                return cwrap(tu, ~a, n.get("type"))
            if op == "!":
                return int(not a)
            return _unk((), True)
        if k == "BinaryOperator" and len(ks) == 2:
            op = n.get("opcode")
            l, r = ks
            if op == "=":
                v = self.ev(r, st)
                self.write(l, v, st)
                return v
            if op == ",":
                self.ev(l, st)
                return self.ev(r, st)
            if op in ("&&", "||"):
                a = self.ev(l, st)
                if not _is_unk(a):
                    if bool(a) == (op == "||"):
                        return int(op == "||")
                    b = self.ev(r, st)
                    return b if _is_unk(b) else int(bool(b))
                if not pure(r, calls_ok=False):
                    if a[2] or self.valuable(a[1]):
                        return self.undecided(a, l)
                    raise _Stuck("`%s` has side effects under the unknown condition `%s`" % (ctext(r)[:40], ctext(l)[:40]))
                b = self.ev(r, st)
                if not _is_unk(b):
                    if bool(b) == (op == "||"):
                        return int(op == "||")
                    return a
                return _unk(a[1] | b[1], a[2] or b[2])
            a, b = self.ev(l, st), self.ev(r, st)
            if _is_unk(a) or _is_unk(b):
                return self.join([(a, l), (b, r)])
            try:
                v = _carith(op, a, b)
            except (ZeroDivisionError, ValueError, OverflowError):
                raise _Stuck("undefined arithmetic in `%s`" % ctext(n)[:50])
            return v if op in ("<", ">", "<=", ">=", "==", "!=") else cwrap(tu, v, n.get("type"))
        if k == "CompoundAssignOperator" and len(ks) == 2:
            l, r = ks
            old, b = self.read(l, st), self.ev(r, st)
            if _is_unk(old) or _is_unk(b):
                deps = (old[1] if _is_unk(old) else frozenset()) | (b[1] if _is_unk(b) else frozenset())
                new = _unk(deps, True)
            else:
                try:
                    v = _carith(n.get("opcode")[:-1], old, b)
                except (ZeroDivisionError, ValueError, OverflowError):
                    raise _Stuck("undefined arithmetic in `%s`" % ctext(n)[:50])
                new = cwrap(tu, cwrap(tu, v, n.get("computeResultType") or n.get("type")), n.get("type"))
            self.write(l, new, st)
            return new
        if k == "ConditionalOperator" and len(ks) == 3:
            c = self.ev(ks[0], st)
            if not _is_unk(c):
                return self.ev(ks[1] if c else ks[2], st)
            if c[2] or self.valuable(c[1]):
                return self.undecided(c, ks[0])
            if not (pure(ks[1]) and pure(ks[2])):
                raise _Stuck("`%s` has side effects under an unknown condition" % ctext(n)[:50])
            x, y = self.ev(ks[1], st), self.ev(ks[2], st)
            if not _is_unk(x) and not _is_unk(y) and x == y:
                return x
            deps = c[1] | (x[1] if _is_unk(x) else frozenset()) | (y[1] if _is_unk(y) else frozenset())
            return _unk(deps, self.taint_of(x, ks[1]) or self.taint_of(y, ks[2]))
        if k == "CallExpr" and ks:
            vals = []
            for a in ks[1:]:
                vals.append((self.ev(a, st), a))
                s = strip(a, casts=True)
                tgt = None
                if kind(s) == "UnaryOperator" and s.get("opcode") == "&":
                    tgt = self.local_path(kids(s)[0])
                elif kind(s) == "DeclRefExpr" and "[" in s.get("type", {}).get("qualType", ""):
                    tgt = self.local_path(s)
                if tgt is not None:
                    self.havoc(tgt[0], st)
                    continue
                # memory the callee may write through a pointer to non-const: no longer an input of the witness
                qt = s.get("type", {}).get("qualType", "")
                if "*" in qt and not re.match(r"^\s*const\b[^*]*\*\s*(const)?\s*$", qt):
                    if kind(s) == "UnaryOperator" and s.get("opcode") == "&":
                        s = strip(kids(s)[0])
                    if pure(s):
                        st[("hv", self.key(s))] = 1
            # globals may be written by any callee
            st[("hv", "*g")] = 1
            return self.join(vals)
        if k in ("StmtExpr", "GCCAsmStmt", "AsmStmt"):
            raise _Stuck("%s is outside the model" % k)
        if k == "InitListExpr":
            for c in ks:
                self.ev(c, st)
            return _unk((), True)
        if k in ("StringLiteral", "ImplicitValueInitExpr", "OffsetOfExpr", "PredefinedExpr"):
            return _unk()
        r = self.join([(self.ev(c, st), c) for c in ks if isinstance(c, dict) and c.get("kind")])
        return _unk(r[1], True)

    def valuable(self, deps):
        return [d for d in deps if d not in self.val and self.S["itype"].get(d) == (32, False)]

    def undecided(self, v, expr, what="the outcome of"):
        """an unknown value decides: extend the witness, or give the path up"""
        want = self.valuable(v[1])
        if want:
            raise _Need(want)
        raise _Stuck("%s `%s` %s" % (what, ctext(expr)[:50], (
            "depends on the witness in a way the model cannot evaluate" if v[2] or not v[1] else
            "depends on %s, which the model gives no value" % ", ".join("`%s`" % d for d in sorted(v[1])[:3]))))

    # ---- statements
    def exec_stmt(self, a, st):
        k = kind(a)
        if k == "DeclStmt":
            for vd in kids(a):
                if kind(vd) != "VarDecl" or vd.get("storageClass") == "static":
                    continue
                i = vd["id"]
                for kk in [kk for kk in st if kk[0] == i]:
                    del st[kk]
                init = [c for c in kids(vd) if "Comment" not in (kind(c) or "") and not (kind(c) or "").endswith("Attr")]
                if not init:
                    continue
                fields = self.record_of(vd.get("type", {}))
                il = init[0]
                if fields is not None and kind(il) == "InitListExpr" and "array_filler" not in il:
                    members = [c for c in il.get("inner", []) if c]
                    if len(members) != len(fields):
                        self.ev(il, st)
                        continue
                    for fd, m in zip(fields, members):
                        if kind(m) == "ImplicitValueInitExpr":
                            if int_type(self.tu, fd.get("type")) is not None:
                                st[(i, fd.get("name"))] = 0
                        elif kind(m) == "InitListExpr":
                            self.ev(m, st)
                        else:
                            st[(i, fd.get("name"))] = self.ev(m, st)
                elif fields is not None or "[" in vd.get("type", {}).get("qualType", ""):
                    self.ev(il, st)
                else:
                    st[(i, "")] = self.ev(il, st)
        elif k == "ReturnStmt":
            for c in kids(a):
                self.ev(c, st)
        elif k in ("BreakStmt", "ContinueStmt", "GotoStmt", "DoHead", "NullStmt"):
            pass
        else:
            self.ev(a, st)

    def successors(self, node, st):
        """[(successor, state)]; st is consumed"""
        if node.kind == "stmt":
            self.exec_stmt(node.ast, st)
            return [(s, st if j == 0 else dict(st)) for j, (s, _) in enumerate(node.succ)]
        if node.kind in ("cond", "switch"):
            c = getattr(node, "cond", None)
            if c is not None and not c.get("kind"):
                c = None
            v = 1 if c is None else self.ev(c, st)
            if _is_unk(v):
                if v[2] or self.valuable(v[1]):
                    self.undecided(v, c)
                outs = [s for s, _ in node.succ]
            elif node.kind == "cond":
                outs = [s for s, lab in node.succ if bool(lab) == bool(v)]
            else:
                outs = [s for s, lab in node.succ if isinstance(lab, tuple) and lab[1] == v] or \
                       [s for s, lab in node.succ if lab in ("default", "nodefault")]
            return [(s, st if j == 0 else dict(st)) for j, s in enumerate(outs)]
        return [(s, st) for s, _ in node.succ]

    def run(self):
        """(index value, state at the lookup) of the first arrival at the lookup with an index outside
        0..P-1, or None"""
        work = [(self.g.entry, {})]
        seen = set()
        qi = 0
        while qi < len(work):
            node, st = work[qi]
            qi += 1
            if qi > self.BUDGET:
                self.stuck.append("the execution does not end within %d steps" % self.BUDGET)
                return None
            sig = (node.id, frozenset(st.items()))
            if sig in seen:
                continue
            seen.add(sig)
            try:
                if node is self.use_node:
                    iv = self.ev(self.use_expr, dict(st))
                    if _is_unk(iv):
                        self.undecided(iv, self.use_expr, "the lookup index")
                    if not 0 <= iv < self.P:
                        return iv, st
                work.extend(self.successors(node, st))
            except _Stuck as e:
                ahead = self.S["ahead"].get(node.id)
                if ahead is None:
                    ahead = self.S["ahead"][node.id] = node is self.use_node or self.use_node.id in self.g.reach(node, labels_skip=())
                if ahead and str(e) not in self.stuck:
                    self.stuck.append(str(e))
        return None


def witness_candidates(keys, P):
    """assignments of frame numbers to the inputs `keys` (in the order they were asked for): values around
    the period, around the end of the hyperframe, and -- for every further input -- values a few frames
    after / before the previous one (frame numbers of one function are usually compared with each other)"""
    basev = [2 * P + 1, P, P - 1, 1000 * P, HYPERFRAME - 1, 0, 1, HYPERFRAME - 2]
    out = [()]
    for _k in keys:
        nxt = []
        for pre in out:
            vals = list(basev)
            if pre:
                vals = [(pre[-1] + d) % HYPERFRAME for d in (2, -2, 1, -1, P, -P, 3, -3, 0)] + vals
            seen = set()
            for v in vals:
                if v not in seen:
                    seen.add(v)
                    nxt.append(pre + (v,))
        out = nxt
    return [dict(zip(keys, c)) for c in out]


def index_slice(tu, f, loc, idx):
    """declaration ids of the locals / parameters of f whose value can flow into the expression idx
    (backward closure over every definition of a local, stores to its fields included)"""
    defs = {}
    for n in walk(tu.body(f)):
        k = kind(n)
        tgt = rhs = None
        if k == "VarDecl":
            init = [c for c in kids(n) if "Comment" not in (kind(c) or "") and not (kind(c) or "").endswith("Attr")]
            if init:
                defs.setdefault(n["id"], []).append(init[0])
            continue
        if (k == "BinaryOperator" and n.get("opcode") == "=") or k == "CompoundAssignOperator":
            tgt, rhs = kids(n)
        elif k == "UnaryOperator" and n.get("opcode") in ("++", "--"):
            tgt = kids(n)[0]
        if tgt is None:
            continue
        x = strip(tgt)
        subs = []
        while kind(x) in ("MemberExpr", "ArraySubscriptExpr") and kids(x) and not x.get("isArrow"):
            if kind(x) == "ArraySubscriptExpr":
                subs.append(kids(x)[1])
            x = strip(kids(x)[0])
        i = Locals._ref(x) if kind(x) == "DeclRefExpr" else None
        if i is not None and i in loc.decl:
            defs.setdefault(i, []).extend(([rhs] if rhs is not None else []) + subs)
    out, todo = set(), [idx]
    while todo:
        e = todo.pop()
        for x in walk(e):
            i = Locals._ref(x) if kind(x) == "DeclRefExpr" else None
            if i is not None and i in loc.decl and i not in out:
                out.add(i)
                todo.extend(defs.get(i, []))
    return out


def lookup_witness(tu, f, g, loc, use, idx, base, periods):
    """Search for a proof that the lookup <base>->frames[idx] can leave the table: a layout period P and
    frame numbers for the function's 32-bit unsigned inputs with which the function, executed exactly
    (WitnessRun), arrives at the lookup with an index outside 0..P-1.
    -> ([(P, index, {input: value}, {local read by the index: value at the lookup})], reasons why paths were given up)."""
    use_node = g.node_of(use)
    host = use_node.cond if use_node.kind in ("cond", "switch") else use_node.ast
    if host is None or not any(x is use for x in walk(host)):
        raise AnalysisError("%s(): the frame lookup is not part of the CFG node it was mapped to; unclassifiable" % f.get("name"))
    child, par = use, tu.parent.get(id(use))
    while child is not host and par is not None:
        if (kind(par) == "ConditionalOperator" and kids(par)[0] is not child) or \
                (kind(par) == "BinaryOperator" and par.get("opcode") in ("&&", "||") and kids(par)[0] is not child):
            raise AnalysisError("%s(): the frame lookup with index `%s` is evaluated conditionally inside its statement and the "
                                "index is not a remainder expression; unclassifiable" % (f.get("name"), ctext(idx)[:50]))
        child, par = par, tu.parent.get(id(par))
    inside = {id(x) for x in walk(idx)}
    reads = {ctext(x) for x in walk(idx) if kind(x) in ("DeclRefExpr", "MemberExpr")}
    for x in walk(host):
        tgt = None
        if (kind(x) == "BinaryOperator" and x.get("opcode") == "=") or kind(x) == "CompoundAssignOperator" or \
                (kind(x) == "UnaryOperator" and x.get("opcode") in ("++", "--")):
            tgt = kids(x)[0]
        if tgt is not None and id(x) not in inside and ctext(strip(tgt)) in reads:
            raise AnalysisError("%s(): `%s` is modified in the statement of the frame lookup outside the index; unclassifiable" % (
                f.get("name"), ctext(strip(tgt))[:40]))
    escaped = set()
    for n in walk(tu.body(f)):
        if kind(n) == "UnaryOperator" and n.get("opcode") == "&":
            par = tu.parent.get(id(n))
            while par is not None and kind(par) in ("ImplicitCastExpr", "ParenExpr", "CStyleCastExpr"):
                par = tu.parent.get(id(par))
            if kind(par) == "CallExpr":
                continue        # handed to a call: unknown from the call on (WitnessRun.havoc)
            x = strip(kids(n)[0])
            while kind(x) in ("MemberExpr", "ArraySubscriptExpr") and kids(x) and not x.get("isArrow"):
                x = strip(kids(x)[0])
            i = Locals._ref(x) if kind(x) == "DeclRefExpr" else None
            if i is not None and i in loc.decl:
                escaped.add(i)
    shared = {"constlike": {}, "key": {}, "period": {}, "itype": {}, "escaped": escaped, "ahead": {}}
    keys = []
    reasons = []
    nruns = 0
    for _round in range(5):
        need = None
        found = []
        reasons = []
        for P in periods:
            for val in witness_candidates(keys, P):
                nruns += 1
                if nruns > 1500:
                    return found, reasons + ["no witness among the first 1500 assignments of frame numbers to %s" % ", ".join(keys)]
                wr = WitnessRun(tu, f, g, loc, base, P, val, use_node, idx, shared)
                try:
                    r = wr.run()
                except _Need as e:
                    need = e.keys
                    break
                for s in wr.stuck:
                    if s not in reasons:
                        reasons.append(s)
                if r is not None:
                    # values of the locals the index reads, at the lookup
                    at = {}
                    for x in walk(idx):
                        lp = wr.local_path(x) if kind(x) in ("DeclRefExpr", "MemberExpr") else None
                        v = r[1].get(lp) if lp is not None else None
                        if isinstance(v, int) and not isinstance(v, bool):
                            at[ctext(x)] = v
                    found.append((P, r[0], val, at))
                    break
            if need is not None:
                break
        if need is None:
            return found, reasons
        keys = keys + [k for k in need if k not in keys]
        if len(keys) > 3:
            return [], ["more than three frame-number inputs (%s) decide whether / where the lookup happens" % ", ".join(keys)]
    return [], reasons


def unreduced_index(L, rule, relfile, tu, fname, f, g, loc, use, idx, e, base, periods, through):
    """C11.R1, clause `no frame lookup for any frame number leaves the table`, for a lookup
    <base>->frames[idx] whose index is an expression that is not reduced modulo the period at the top
    level (`fn + 1 % period` from an unparenthesised macro argument, `fn % period + 1`, `fn`, ...).
    Decided by value, not by shape:
      holds     interval evaluation (index_interval): for every layout period P the index expression --
                lvalues taking the whole range of their C type -- stays inside 0..P-1;
      violated  a witness (lookup_witness): a period P and concrete frame numbers 0..HYPERFRAME-1 for the
                function's inputs with which the exact execution of the function reaches the lookup with
                an index >= P (or < 0).  A guarded or otherwise equivalent rewrite of the remainder has no
                such witness;
      neither   no verdict (AnalysisError)."""
    key = "frame lookup in the layout `%s`%s: the index stays within 0..<that layout>->period - 1 for every frame number " \
          "of the hyperframe" % (base, through)
    want = "0 <= index < period for the periods %s" % ",".join(str(p) for p in periods)
    shown = ctext(e)[:60]
    if pure(idx):
        ivs = {P: index_interval(tu, loc, idx, base, P) for P in periods}
        if all(iv is not None and 0 <= iv[0] and iv[1] < P for P, iv in ivs.items()):
            L.ob(rule, relfile, fname, key, want, want, True, tu.line(use),
                 note="index `%s`: interval %s" % (shown, ", ".join("period %d: %d..%d" % (P, ivs[P][0], ivs[P][1]) for P in periods[:3])))
            return True, want, "bounded"
    if f.get("storageClass") == "static":
        # the values a static function's by-value parameters take are decided by its callers: a witness that
        # feeds such a parameter into the index would not prove anything about the program
        for i in sorted(index_slice(tu, f, loc, idx)):
            d = loc.decl[i]
            if kind(d) == "ParmVarDecl" and int_type(tu, d.get("type")) is not None:
                raise AnalysisError("%s(): frame lookup index `%s` is not a remainder expression and depends on the parameter `%s` "
                                    "of this static function, whose values are chosen by its callers; unclassifiable" % (
                                        fname, shown, d.get("name")))
    found, reasons = lookup_witness(tu, f, g, loc, use, idx, base, periods)
    if found:
        txt = "; ".join("period %d: index %d%s when the function is entered with %s" % (
            P, iv, "".join(" (%s = %d)" % kv for kv in sorted(at.items())[:2]),
            ", ".join("%s = %d" % (k, v) for k, v in sorted(val.items())) or "any input") for P, iv, val, at in found[:3])
        L.ob(rule, relfile, fname, key, want, "index `%s` is not reduced modulo the period -- %s" % (shown, txt), False, tu.line(use))
        return False, txt, "unreduced"
    raise AnalysisError("%s(): frame lookup index `%s` is not a remainder expression and can neither be bounded by interval "
                        "evaluation nor shown to leave the table by a witness%s; unclassifiable" % (
                            fname, shown, " (%s)" % "; ".join(reasons[:2]) if reasons else ""))


# =========================================================== trxcon tables

class Trxcon:
    def __init__(self, L):
        self.tu = tu = TU(L.repo, "trxcon", "src/sched_mframe.c", L=L)
        self.lchan = {k: v for k, v in tu.enums.items() if tu.enum_of.get(k) == "l1sched_lchan_type"}
        if IDLE not in self.lchan or "_L1SCHED_CHAN_MAX" not in self.lchan:
            raise AnalysisError("enum l1sched_lchan_type vanished")
        self.chan_max = self.lchan["_L1SCHED_CHAN_MAX"]
        self.lname = {v: k for k, v in self.lchan.items() if k != "_L1SCHED_CHAN_MAX"}
        self.cfg = {k: v for k, v in tu.enums.items() if tu.enum_of.get(k) == "gsm_phys_chan_config"}
        if NONE_CFG not in self.cfg:
            raise AnalysisError("enum gsm_phys_chan_config vanished")
        ff = [n for n, _ in tu.record_fields("l1sched_tdma_frame")]
        if sorted(ff) != ["dl_bid", "dl_chan", "ul_bid", "ul_chan"]:
            raise AnalysisError("struct l1sched_tdma_frame changed: %s" % ff)
        self.fidx = {n: i for i, n in enumerate(ff)}
        lf = [n for n, _ in tu.record_fields("l1sched_tdma_multiframe")]
        for need in ("chan_config", "period", "slotmask", "lchan_mask", "frames"):
            if need not in lf:
                raise AnalysisError("struct l1sched_tdma_multiframe lost field %s" % need)
        self.lfields = lf
        self.period_type = dict(tu.record_fields("l1sched_tdma_multiframe"))["period"]
        self.tables = {}
        self._layouts()

    def cfg_name(self, v):
        for k, x in self.extra_cfg.items():
            if x == v:
                return k
        for k, x in self.cfg.items():
            if x == v and not k.startswith("_"):
                return k
        return "config#%d" % v

    def _table(self, name):
        if name in self.tables:
            return self.tables[name]
        tu = self.tu
        v = tu.var(name)
        qt = v.get("type", {}).get("qualType", "")
        if "struct l1sched_tdma_frame" not in qt or array_extent(qt) is None:
            raise AnalysisError("%s is not an array of struct l1sched_tdma_frame (%s)" % (name, qt))
        es, filler = elems(initlist(v, name))
        rows = []
        for e in es:
            e = strip(e)
            if kind(e) != "InitListExpr" or len(kids(e)) != 4:
                raise AnalysisError("row of %s has an unexpected shape" % name)
            vals = [as_int(tu.init_value(c), "%s row field" % name) for c in kids(e)]
            rows.append({"dl": (vals[self.fidx["dl_chan"]], vals[self.fidx["dl_bid"]]),
                         "ul": (vals[self.fidx["ul_chan"]], vals[self.fidx["ul_bid"]]),
                         "line": tu.line(e)})
        t = {"name": name, "dim": array_extent(qt), "rows": rows, "filler": filler, "line": tu.line(v)}
        self.tables[name] = t
        return t

    def _layouts(self):
        tu = self.tu
        v = tu.var("layouts")
        qt = v.get("type", {}).get("qualType", "")
        if "struct l1sched_tdma_multiframe" not in qt:
            raise AnalysisError("layouts[] has unexpected type %s" % qt)
        es, filler = elems(initlist(v, "layouts"))
        self.layouts_dim = array_extent(qt)
        self.layouts_filler = filler
        self.layouts = []
        for i, e in enumerate(es):
            e = strip(e)
            if kind(e) != "InitListExpr" or len(kids(e)) != len(self.lfields):
                raise AnalysisError("layouts[%d] has an unexpected shape" % i)
            d = dict(zip(self.lfields, [tu.init_value(c) for c in kids(e)]))
            fr = d["frames"]
            if isinstance(fr, tuple) and fr[0] == "ref":
                frames = re.sub(r"\[0\]$", "", fr[1])
            elif fr in (0, None):
                frames = None
            else:
                raise AnalysisError("layouts[%d].frames is neither a table nor NULL: %r" % (i, fr))
            lay = {"idx": i, "cfg": as_int(d["chan_config"], "chan_config"), "period": as_int(d["period"], "period"),
                   "slotmask": as_int(d["slotmask"], "slotmask"), "lchan_mask": as_int(d["lchan_mask"], "lchan_mask"),
                   "frames": frames, "line": tu.line(e), "desc": d.get("name")}
            if frames is not None:
                lay["table"] = self._table(frames)
            self.layouts.append(lay)
        if filler:
            # entries the initialiser leaves to implicit zero-initialisation are part of the table
            for i in range(len(self.layouts), self.layouts_dim or 0):
                self.layouts.append({"idx": i, "cfg": 0, "period": 0, "slotmask": 0, "lchan_mask": 0, "frames": None,
                                     "line": tu.line(v), "desc": None})
        self.extra_cfg = {}

    def label(self, lay):
        return "%s/0x%02x" % (short_cfg(self.cfg_name(lay["cfg"])), lay["slotmask"])


def blocklen(name):
    if name in SINGLE_BURST:
        return 1
    if name in HALF_BLOCK:
        return 2
    return 4


def r1_tables(L, T):
    fn = "layouts[]"
    nrows = 0
    seen_tables = set()
    if T.layouts_dim != len(T.layouts):
        raise AnalysisError("layouts[]: declared dimension %s but %d entries extracted" % (T.layouts_dim, len(T.layouts)))
    for lay in T.layouts:
        lab = T.label(lay)
        if lay["period"] == 0:
            L.ob("C11.R1", F_MF, fn, "layout %s: period 0 only for the unconfigured combination (no table, no channels)" % lab,
                 {"chan_config": NONE_CFG, "frames": None, "lchan_mask": 0},
                 {"chan_config": T.cfg_name(lay["cfg"]), "frames": lay["frames"], "lchan_mask": lay["lchan_mask"]},
                 lay["cfg"] == T.cfg[NONE_CFG] and lay["frames"] is None and lay["lchan_mask"] == 0, lay["line"])
            continue
        if lay["frames"] is None:
            L.ob("C11.R1", F_MF, fn, "layout %s: a layout with period >= 1 has a frame table" % lab,
                 "frames != NULL", "NULL", False, lay["line"])
            continue
        t = lay["table"]
        seen_tables.add(t["name"])
        L.ob("C11.R1", F_MF, fn,
             "layout %s: period == declared dimension == number of rows of its frame table (fn %% period never leaves it)" % lab,
             {"period": lay["period"], "dimension": lay["period"], "rows": lay["period"], "zero_filler": False},
             {"period": lay["period"], "dimension": t["dim"], "rows": len(t["rows"]), "zero_filler": t["filler"]},
             lay["period"] == t["dim"] == len(t["rows"]) and not t["filler"], lay["line"])
        L.ob("C11.R1", F_MF, fn, "layout %s: period fits the %s field" % (lab, T.period_type),
             "1..255", lay["period"], 1 <= lay["period"] <= 255, lay["line"])
        rows = t["rows"]
        n = len(rows)
        for d in ("dl", "ul"):
            D = d.upper()
            for i, r in enumerate(rows):
                ch, bid = r[d]
                nrows += 1
                name = T.lname.get(ch)
                if name is None:
                    L.ob("C11.R1", F_MF, t["name"], "layout %s frame %d %s: channel is an l1sched_lchan_type enumerator" % (lab, i, D),
                         "0..%d" % (T.chan_max - 1), ch, False, r["line"])
                    continue
                if name == IDLE:
                    continue
                inmask = bool(lay["lchan_mask"] >> ch & 1)
                bl = blocklen(name)
                if bl == 1:
                    want = 0
                    how = "single-burst channel: burst id 0"
                else:
                    j = (i - 1) % n
                    while rows[j][d][0] != ch:
                        j = (j - 1) % n
                    want = (rows[j][d][1] + 1) % bl
                    how = "burst id is the cyclic successor (mod %d) of the channel's previous burst (frame %d, bid %d)" % (
                        bl, j, rows[j][d][1])
                L.ob("C11.R1", F_MF, t["name"],
                     "layout %s frame %d %s %s: channel in lchan_mask; %s" % (lab, i, D, name.replace("L1SCHED_", ""), how),
                     {"in_lchan_mask": True, "bid": want}, {"in_lchan_mask": inmask, "bid": bid},
                     inmask and bid == want, r["line"])
    L.floor("C11.R1", "layouts", len(T.layouts), 19)
    L.floor("C11.R1", "frame tables referenced by layouts", len(seen_tables), 18)
    # 2 x 1811 on the unchanged tree; the floor guards against a vacuous pass, the exact
    # row count per table is an obligation of its own (period == dimension == rows)
    L.floor("C11.R1", "table rows x directions", nrows, 3400)


# --------------------------------------------------- frame lookup sites

def divisor_values(tu, fname, loc, rhs, base, periods):
    """{P: value of the divisor expression `rhs` of a lookup index `x % rhs` when <base>->period is P}.
    Single-definition pure locals are followed, constants folded, C conversions applied; a divisor that
    reads anything else cannot be related to the layout's period: AnalysisError."""
    out = {}
    for P in periods:
        def leaf(n, P=P):
            k = kind(n)
            if k == "MemberExpr":
                if n.get("name") == "period" and rtext(loc, kids(n)[0]) == base:
                    return P
                raise AnalysisError("%s(): the divisor of the frame lookup index reads `%s`, which is not the period of the layout "
                                    "`%s` the lookup goes through; cannot relate them" % (fname, rtext(loc, n)[:60], base))
            if k == "DeclRefExpr" and loc.is_local(n):
                sd = loc.single(n)
                if sd is not None and not loc.is_param(n) and pure(sd[0]):
                    return ceval(tu, sd[0], leaf)
                raise AnalysisError("%s(): the divisor of the frame lookup index depends on `%s`; cannot relate it to the "
                                    "layout's period" % (fname, ctext(n)))
            return _NOTHING
        v = ceval(tu, rhs, leaf)
        if not isinstance(v, int):
            raise AnalysisError("%s(): the divisor of the frame lookup index is not an integer" % fname)
        out[P] = v
    return out


def classify_index(L, rule, relfile, tu, fname, f, g, loc, use, idx, base, periods, via=None):
    """C11.R1, clause `no frame lookup for any frame number leaves the table` (and `the frame of fn is
    frames[fn % period]`) for ONE lookup <base>->frames[idx]; `use` is the AST node the lookup happens
    at (the frames member expression, or the call of a lookup helper when the index is the helper's
    parameter).  Files the obligation when the index is recognised:
      x % D       D is evaluated for every layout period P (D == P demanded; `period` in a temporary,
                  `period + 1`, a constant ... are all decided by value, not by text)
      constant    inside every table
      a local maintained incrementally: finite-domain analysis of that variable (IndexRange)
    and raises AnalysisError for every other shape.  -> (ok, found, form); form is ('param', i) when the
    index is the function's own unmodified parameter i (nothing filed: decided at the call sites)."""
    through = " (through %s())" % via if via else ""
    e = strip(idx)
    stepwise = (kind(e) == "DeclRefExpr" and loc.is_local(e) and not loc.is_param(e) and loc.single(e) is None) or \
        (kind(e) == "UnaryOperator" and e.get("opcode") in ("++", "--") and loc.is_local(kids(e)[0]) and
         not loc.is_param(kids(e)[0]))
    if stepwise:
        # index maintained incrementally (several definitions): finite-domain analysis of the variable
        ok, found = incremental_index(tu, f, g, loc, use, e, base, periods)
        L.ob(rule, relfile, fname,
             "frame lookup in the layout `%s`%s: the incrementally maintained index stays within 0..<that layout>->period - 1" % (
                 base, through),
             "within 0..period-1 for the periods %s" % ",".join(str(p) for p in periods), found, ok, tu.line(use))
        return ok, found, "stepwise"
    hops = 0
    while kind(e) == "DeclRefExpr" and loc.is_local(e) and not loc.is_param(e) and hops < 6:
        s = loc.single(e)
        if s is None:
            raise AnalysisError("%s(): frame lookup index is a copy of `%s`, which has several definitions; unclassifiable" % (
                fname, ctext(e)))
        vd = loc.decl[Locals._ref(e)]
        vt = vd.get("type", {}).get("qualType", "")
        if not g.dominates(g.node_of(s[1]), g.node_of(use)):
            raise AnalysisError("%s(): definition of `%s` does not dominate the frame lookup" % (fname, ctext(e)))
        if vt in ("int8_t", "char", "signed char", "bool", "_Bool"):
            L.ob(rule, relfile, fname, "frame lookup: index variable can hold every value below the period",
                 "type with range >= 0..254", vt, False, tu.line(use))
        if not pure(s[0]):
            raise AnalysisError("%s(): frame lookup index `%s` is defined by an expression with side effects; unclassifiable" % (
                fname, ctext(e)))
        e = strip(s[0])
        hops += 1
    key = "frame lookup in the layout `%s`%s: index is `x %% <that layout>->period`" % (base, through)
    want = "x %% %s->period" % base
    if kind(e) == "DeclRefExpr" and loc.is_param(e):
        pid = Locals._ref(e)
        if loc.defs.get(pid):
            raise AnalysisError("%s(): frame lookup index is the parameter `%s`, which the function modifies; unclassifiable" % (
                fname, ctext(e)))
        return None, None, ("param", [q["id"] for q in tu.fparams(f)].index(pid))
    if kind(e) == "BinaryOperator" and e.get("opcode") == "%":
        rhs = strip(kids(e)[1])
        ut = e.get("type", {})
        bt = int_type(tu, ut)
        if rtext(loc, rhs) == "%s->period" % base:
            ok, found = True, "x %% %s" % rtext(loc, rhs)
        else:
            dv = divisor_values(tu, fname, loc, rhs, base, periods)
            wrong = sorted((P, d) for P, d in dv.items() if d != P)
            ok = not wrong
            found = "x %% %s" % rtext(loc, rhs)
            if wrong:
                found += " (period %d: divisor %d)" % wrong[0]
        if ok and (bt is None or bt[1]):
            raise AnalysisError("%s(): frame lookup index `%s` is a signed remainder (%s); cannot bound it" % (
                fname, ctext(e), ut.get("qualType")))
        L.ob(rule, relfile, fname, key, want, found, ok, tu.line(use))
        return ok, found, "mod"
    c = tu.fold(e) if pure(e) else None
    if c is not None:
        ok = 0 <= c < min(periods)
        found = "constant index %d" % c
        L.ob(rule, relfile, fname,
             "frame lookup in the layout `%s`%s: a constant index lies inside the table of every layout" % (base, through),
             "0 <= index < %d" % min(periods), found, ok, tu.line(use))
        return ok, found, "const"
    # neither a remainder nor a constant nor an incrementally kept local: bound the expression itself
    return unreduced_index(L, rule, relfile, tu, fname, f, g, loc, use, idx, e, base, periods, through)


def frames_uses(tu, fname, f, loc):
    """[(node standing for the frames pointer, layout expression)] for every use of <layout>->frames in f,
    including the uses of a local pointer that is defined once as <layout>->frames."""
    out = []
    for n in walk(tu.body(f)):
        if kind(n) == "MemberExpr" and n.get("name") == "frames" and \
                "l1sched_tdma_multiframe" in strip(kids(n)[0]).get("type", {}).get("qualType", ""):
            out.append((n, kids(n)[0]))
    k = 0
    while k < len(out):
        m, lay = out[k]
        k += 1
        p = tu.parent.get(id(m))
        while p is not None and kind(p) in ("ImplicitCastExpr", "ParenExpr", "CStyleCastExpr"):
            p = tu.parent.get(id(p))
        vid = None
        if kind(p) == "VarDecl":
            vid = p.get("id")
        elif kind(p) == "BinaryOperator" and p.get("opcode") == "=" and any(x is m for x in walk(kids(p)[1])):
            vid = Locals._ref(kids(p)[0])
            if vid is None or vid not in loc.decl:
                raise AnalysisError("%s(): the frames pointer of a layout is stored in `%s`; unclassifiable" % (
                    fname, ctext(kids(p)[0])[:40]))
        if vid is None:
            continue
        d = loc.defs.get(vid, [])
        if len(d) != 1 or d[0][0] not in ("init", "assign") or kind(loc.decl.get(vid)) == "ParmVarDecl":
            raise AnalysisError("%s(): the local `%s` holding a layout's frames pointer has several definitions; unclassifiable" % (
                fname, loc.decl[vid].get("name")))
        out[k - 1] = (None, None)       # the definition itself is not a lookup
        for x in walk(tu.body(f)):
            if kind(x) == "DeclRefExpr" and Locals._ref(x) == vid:
                par = tu.parent.get(id(x))
                if kind(par) == "BinaryOperator" and par.get("opcode") == "=" and strip(kids(par)[0]) is x:
                    continue        # the defining assignment
                out.append((x, lay))
    return [(m, lay) for m, lay in out if m is not None]


def lookup_sites(L, tu, relfile, periods, rule="C11.R1"):
    """Every use of <layout>->frames in a parsed TU must be the lookup
    frames[x % <same layout>->period] (decided by classify_index).  A function whose lookup goes through
    one of its own parameters of type `struct l1sched_tdma_multiframe *`
    (never reassigned) is a lookup helper: the obligation is decided on its
    body once and instantiated at every call site with the caller's layout
    argument (one level of inlining); when the index is a parameter of the helper as well, the
    caller's index argument is classified at every call site.  Call sites count as lookup sites."""
    count = 0
    helpers = {}       # function name -> (layout parameter index, parameter name, ok, found-text, line, index parameter | None)
    for fname, f in body_funcs(tu):
        loc = None
        if not any(kind(n) == "MemberExpr" and n.get("name") == "frames" for n in walk(tu.body(f))):
            continue
        loc = Locals(tu, f)
        uses = frames_uses(tu, fname, f, loc)
        if not uses:
            continue
        L.fn(relfile, fname)
        g = CCFG(tu, f)
        params = tu.fparams(f)
        for m, lay in uses:
            child = m
            p = tu.parent.get(id(m))
            while p is not None and kind(p) in ("ImplicitCastExpr", "ParenExpr"):
                child, p = p, tu.parent.get(id(p))
            idx = None
            kp = kind(p)
            if kp == "ArraySubscriptExpr":
                a, b = kids(p)
                idx = b if any(x is m for x in walk(a)) else a
            elif kp == "BinaryOperator" and p.get("opcode") == "+":
                a, b = kids(p)
                idx = b if any(x is m for x in walk(a)) else a
            elif (kp == "BinaryOperator" and p.get("opcode") in ("==", "!=", "&&", "||")) or \
                    (kp == "UnaryOperator" and p.get("opcode") == "!"):
                continue        # NULL test, not a lookup
            elif kp in ("IfStmt", "WhileStmt", "DoStmt", "ForStmt") or \
                    (kp == "ConditionalOperator" and kids(p)[0] is child):
                continue        # used as a condition: NULL test
            else:
                raise AnalysisError("%s(): the frames pointer of a layout is used outside a table lookup (%s); unclassifiable" % (
                    fname, kp))
            # the address the lookup yields must not be moved on in the same expression (`frames + off + 1`,
            # `&frames[off] + 1`): the index classified below would not be the one that is used
            q, qp = p, tu.parent.get(id(p))
            while qp is not None and (kind(qp) in ("ImplicitCastExpr", "ParenExpr", "CStyleCastExpr") or
                                      (kind(qp) == "UnaryOperator" and qp.get("opcode") == "&")):
                q, qp = qp, tu.parent.get(id(qp))
            if qp is not None and ((kind(qp) == "BinaryOperator" and qp.get("opcode") in ("+", "-")) or
                                   (kind(qp) == "CompoundAssignOperator" and kids(qp)[0] is not q) or
                                   (kind(qp) == "ArraySubscriptExpr" and kp != "ArraySubscriptExpr") or
                                   (kind(qp) == "ArraySubscriptExpr" and kind(q) == "UnaryOperator")):
                raise AnalysisError("%s(): further pointer arithmetic on the result of a frame lookup (%s); unclassifiable" % (
                    fname, ctext(qp)[:60]))
            base = rtext(loc, lay)
            # is the layout one of the function's own (never reassigned) parameters?
            hp = None
            for pi, pd in enumerate(params):
                if pd.get("name") == base and "l1sched_tdma_multiframe" in pd.get("type", {}).get("qualType", "") and \
                        not loc.defs.get(pd["id"]):
                    hp = pi
            ok, found, form = classify_index(L, rule, relfile, tu, fname, f, g, loc, m, idx, base, periods)
            ip = None
            if isinstance(form, tuple):
                if hp is None:
                    raise AnalysisError("%s(): the frame lookup index is the function's parameter `%s` but the layout `%s` is not; "
                                        "unclassifiable" % (fname, params[form[1]].get("name"), base))
                ip, ok, found = form[1], True, "index parameter"
            if hp is None:
                count += 1
            else:
                if fname in helpers:
                    # several lookups in one helper: all must hold, and they must agree on the index parameter
                    if helpers[fname][5] != ip or helpers[fname][0] != hp:
                        raise AnalysisError("%s(): several frame lookups of different form in one lookup helper; unclassifiable" % fname)
                    ok = ok and helpers[fname][2]
                helpers[fname] = (hp, base, ok, found, tu.line(m), ip)
    # call sites of the helpers, with the caller's layout argument substituted
    if helpers:
        for fname, f in body_funcs(tu):
            loc = g = None
            for hname, (hp, pname, ok, found, hline, ip) in sorted(helpers.items()):
                for c in calls_to(tu.body(f), hname):
                    args = call_args(c)
                    if len(args) <= hp or (ip is not None and len(args) <= ip):
                        raise AnalysisError("%s(): call of %s with too few arguments" % (fname, hname))
                    if loc is None:
                        loc = Locals(tu, f)
                        L.fn(relfile, fname)
                    arg = rtext(loc, args[hp])
                    count += 1
                    if ip is not None:
                        if fname in helpers:
                            raise AnalysisError("%s(): lookup helper %s() is called from another lookup helper; unclassifiable" % (
                                fname, hname))
                        if g is None:
                            g = CCFG(tu, f)
                        _, _, form = classify_index(L, rule, relfile, tu, fname, f, g, loc, c, args[ip], arg, periods, via=hname)
                        if isinstance(form, tuple):
                            raise AnalysisError("%s(): the index handed to %s() is itself a parameter; unclassifiable" % (fname, hname))
                        continue
                    sub = re.sub(r"\b%s\b" % re.escape(pname), lambda _m: arg, found)
                    L.ob(rule, relfile, fname,
                         "frame lookup in the layout `%s` (through %s()): index is `x %% <that layout>->period`" % (arg, hname),
                         "x %% %s->period" % arg, sub, ok, tu.line(c))
        # a helper's address must not escape (it would be callable with an unknown layout elsewhere)
        for fname, f in body_funcs(tu):
            for n in walk(tu.body(f)):
                if kind(n) == "DeclRefExpr" and n.get("referencedDecl", {}).get("name") in helpers:
                    par = tu.parent.get(id(n))
                    while par is not None and kind(par) in ("ImplicitCastExpr", "ParenExpr"):
                        par = tu.parent.get(id(par))
                    if kind(par) != "CallExpr" or strip(kids(par)[0]) is not n:
                        raise AnalysisError("%s(): lookup helper %s is used other than by a direct call; unclassifiable" % (
                            fname, n["referencedDecl"]["name"]))
    return count


def r1_alloc_by_mask(L, T, tu):
    """l1sched_configure_ts allocates a channel state for type t iff bit t of
    the chosen layout's lchan_mask is set, t = 0.._L1SCHED_CHAN_MAX-1."""
    fname = "l1sched_configure_ts"
    f = tu.func(fname)
    L.fn(F_TRX, fname)
    g = CCFG(tu, f)
    loc = Locals(tu, f)
    stores = [n for n in walk(tu.body(f)) if kind(n) == "BinaryOperator" and n.get("opcode") == "=" and
              kind(strip(kids(n)[0])) == "MemberExpr" and strip(kids(n)[0]).get("name") == "type" and
              "l1sched_lchan_state" in strip(kids(strip(kids(n)[0]))[0]).get("type", {}).get("qualType", "")]
    if len(stores) != 1:
        raise AnalysisError("%s(): expected one store to <lchan state>->type, found %d" % (fname, len(stores)))
    st = stores[0]
    tnode = strip(kids(st)[1], casts=True)
    tv = Locals._ref(tnode)
    if tv is None:
        raise AnalysisError("%s(): channel state type is not set from the loop variable" % fname)
    loop = g.loop_of(g.node_of(st))
    if loop is None or kind(loop) != "ForStmt":
        raise AnalysisError("%s(): channel states are not allocated in a for loop" % fname)
    vid, start = induction(tu, loop)
    # the stored type may be a copy of the loop variable made inside the loop body
    tvs = {tv}
    while tv != vid and len(tvs) < 5:
        sd = loc.single(tnode)
        if sd is None or g.loop_of(g.node_of(sd[1])) is not loop:
            break
        tnode = strip(sd[0], casts=True)
        tv = Locals._ref(tnode)
        if tv is None:
            break
        tvs.add(tv)
    if tv != vid:
        raise AnalysisError("%s(): the channel state type is not recognisably the variable of the allocation loop; cannot tell" % fname)
    L.ob("C11.R1", F_TRX, fname, "channel state allocation loop: the type stored in the channel state is the loop variable",
         {"loop_var_is_type": True}, {"loop_var_is_type": True}, True, tu.line(loop))
    guards = g.guards(g.node_of(st))
    rel = []
    maskbases = set()
    via = []            # helper functions the membership test goes through
    def closure(cnode, cond):
        """cond + the definitions of the single-definition pure locals it reads (transitively); each
        such definition must dominate the condition"""
        out, seen, k = [cond], set(), 0
        while k < len(out):
            for x in walk(out[k]):
                if kind(x) == "DeclRefExpr" and loc.is_local(x) and not loc.is_param(x) and Locals._ref(x) not in tvs:
                    sd = loc.single(x)
                    if sd is not None and pure(sd[0], calls_ok=True) and id(sd[0]) not in seen and \
                            g.dominates(g.node_of(sd[1]), cnode):
                        seen.add(id(sd[0]))
                        out.append(sd[0])
            k += 1
        return out
    for (c, lab) in guards:
        cond = getattr(c, "cond", None)
        if cond is None:
            continue
        cl = closure(c, cond)
        if any(Locals._ref(x) in tvs for e in cl for x in walk(e) if kind(x) == "DeclRefExpr"):
            rel.append((cond, lab))
            for x in (x for e in cl for x in walk(e)):
                if kind(x) == "MemberExpr" and x.get("name") == "lchan_mask":
                    maskbases.add(rtext(loc, kids(x)[0]))
                elif kind(x) == "CallExpr":
                    # a single-return helper (evaluated on its body by ceval): the masks it reads belong
                    # to the layouts the caller passes for the corresponding parameters
                    hname, hf, ret, hbinds = pure_callee(tu, x)
                    hp = {p["id"]: i for i, p in enumerate(tu.fparams(hf))}
                    via.append("%s() returning `%s`" % (hname, hf.get("type", {}).get("qualType", "?").split("(")[0].strip()))
                    for y in (y for e in [ret] + list(hbinds.values()) for y in walk(e)):
                        if kind(y) == "CallExpr":
                            raise AnalysisError("%s(): helper %s() calls further functions; unclassifiable" % (fname, hname))
                        if kind(y) == "MemberExpr" and y.get("name") == "lchan_mask":
                            pi = hp.get(Locals._ref(kids(y)[0]))
                            if pi is None:
                                raise AnalysisError("%s(): helper %s() reads the lchan_mask of something that is not "
                                                    "one of its parameters; unclassifiable" % (fname, hname))
                            maskbases.add(rtext(loc, call_args(x)[pi]))
    masks = sorted({lay["lchan_mask"] for lay in T.layouts})
    bad = None
    for m in masks:
        for t in range(T.chan_max + 1):
            def leaf(n, m=m, t=t):
                if kind(n) == "DeclRefExpr" and Locals._ref(n) in tvs:
                    return t
                if kind(n) == "MemberExpr" and n.get("name") == "lchan_mask":
                    return m
                if kind(n) == "DeclRefExpr" and loc.is_local(n) and not loc.is_param(n):
                    sd = loc.single(n)
                    if sd is not None and pure(sd[0], calls_ok=True):
                        # the initialiser / right-hand side carries the conversion to the local's type
                        return ceval(tu, sd[0], leaf)
                return _NOTHING
            # the loop starts at `start`: smaller types are never visited
            got = t >= start and all(truth(ceval(tu, c, leaf)) == bool(lab) for c, lab in rel)
            want = t < T.chan_max and bool(m >> t & 1)
            if got != want and bad is None:
                bad = "mask 0x%x, type %d (%s): allocated=%s" % (m, t, T.lname.get(t, "?").replace("L1SCHED_", ""), got)
                if via:
                    bad += " (membership test evaluated through %s, result conversion included)" % ", ".join(sorted(set(via)))
    L.ob("C11.R1", F_TRX, fname,
         "a channel state is allocated for type t iff t < _L1SCHED_CHAN_MAX and bit t of the layout's lchan_mask is set",
         "equivalent for all %d masks x %d types" % (len(masks), T.chan_max + 1),
         bad or "equivalent for all %d masks x %d types" % (len(masks), T.chan_max + 1), bad is None, tu.line(st))
    # the mask is the one of the layout chosen by l1sched_mframe_layout(config, tn)
    key = "the layout whose lchan_mask is used is l1sched_mframe_layout(<config argument>, <tn argument>)"
    params = tu.fparams(f)
    cps = [p for p in params if "gsm_phys_chan_config" in p.get("type", {}).get("qualType", "")]
    tps = [p for p in params if p not in cps and int_type(tu, p.get("type")) is not None]
    if len(cps) != 1 or len(tps) != 1 or loc.defs.get(cps[0]["id"]) or loc.defs.get(tps[0]["id"]):
        raise AnalysisError("%s(): cannot identify the (unmodified) channel combination and timeslot parameters; cannot tell" % fname)
    calls = calls_to(tu.body(f), "l1sched_mframe_layout")
    if not calls:
        raise AnalysisError("%s() does not call l1sched_mframe_layout any more; cannot tell which layout it uses" % fname)
    cls = set()         # expressions (resolved text) that hold the result of the lookup
    for c in calls:
        p = tu.parent.get(id(c))
        while p is not None and kind(p) in ("ImplicitCastExpr", "ParenExpr", "CStyleCastExpr"):
            p = tu.parent.get(id(p))
        if kind(p) == "BinaryOperator" and p.get("opcode") == "=":
            cls.add(rtext(loc, kids(p)[0]))
        elif kind(p) == "VarDecl":
            cls.add(p.get("name"))
        else:
            raise AnalysisError("%s(): the result of l1sched_mframe_layout is not stored (%s); cannot tell which layout is used" % (
                fname, kind(p)))
    grew = True
    while grew:
        grew = False
        for n in walk(tu.body(f)):
            tgt = src = None
            if kind(n) == "BinaryOperator" and n.get("opcode") == "=":
                tgt, src = rtext(loc, kids(n)[0]), kids(n)[1]
            elif kind(n) == "VarDecl":
                init = [c for c in kids(n) if "Comment" not in (kind(c) or "") and not (kind(c) or "").endswith("Attr")]
                if init:
                    tgt, src = n.get("name"), init[0]
            if tgt is not None and tgt not in cls and kind(strip(src, casts=True)) in ("DeclRefExpr", "MemberExpr") and \
                    rtext(loc, strip(src, casts=True)) in cls:
                cls.add(tgt)
                grew = True
    stray = sorted(b for b in maskbases if b not in cls)
    if stray or not maskbases:
        raise AnalysisError("%s(): the lchan_mask is read from `%s`, which is not recognisably the result of "
                            "l1sched_mframe_layout; cannot tell" % (fname, ", ".join(stray) or "?"))
    # the arguments, decided by value for every combination and timeslot 0..7
    cid, tid = cps[0]["id"], tps[0]["id"]
    cvals = sorted(set(T.cfg.values()))
    wit = None
    for c in calls:
        args = call_args(c)
        if len(args) != 2:
            raise AnalysisError("%s(): l1sched_mframe_layout is called with %d arguments" % (fname, len(args)))
        if rtext(loc, args[0]) == cps[0].get("name") and rtext(loc, args[1]) == tps[0].get("name"):
            continue
        for cv in cvals:
            for tn in range(8):
                def leaf(n, cv=cv, tn=tn):
                    if kind(n) == "DeclRefExpr":
                        i = Locals._ref(n)
                        if i == cid:
                            return cv
                        if i == tid:
                            return tn
                        if i is not None and i in loc.decl:
                            sd = loc.single(n)
                            if sd is not None and not loc.is_param(n) and pure(sd[0]) and \
                                    g.dominates(g.node_of(sd[1]), g.node_of(c)):
                                return ceval(tu, sd[0], leaf)
                            raise AnalysisError("%s(): the arguments of l1sched_mframe_layout depend on `%s`; cannot tell" % (
                                fname, ctext(n)))
                        return _NOTHING
                    if kind(n) in ("MemberExpr", "ArraySubscriptExpr"):
                        raise AnalysisError("%s(): the arguments of l1sched_mframe_layout read `%s`; cannot tell" % (
                            fname, ctext(n)[:40]))
                    return _NOTHING
                got = (ceval(tu, args[0], leaf), ceval(tu, args[1], leaf))
                if got != (cv, tn) and wit is None:
                    wit = "configured as (%s, tn %d) but the layout of (%s, tn %s) is looked up: l1sched_mframe_layout(%s, %s)" % (
                        short_cfg(T.cfg_name(cv)), tn, short_cfg(T.cfg_name(got[0])) if isinstance(got[0], int) else got[0], got[1],
                        ctext(args[0])[:30], ctext(args[1])[:30])
    want = "looked up with the function's own (combination, timeslot) for all %d combinations x 8 timeslots" % len(cvals)
    L.ob("C11.R1", F_TRX, fname, key, want, wit or want, wit is None, tu.line(st))


# ================================================= R2: layout lookup model

class LayoutLookup:
    """Exact evaluation of l1sched_mframe_layout over (config, tn)."""

    def __init__(self, T):
        self.T = T
        self.tu = tu = T.tu
        self.f = tu.func("l1sched_mframe_layout")
        self.g = CCFG(tu, self.f)
        self.loc = Locals(tu, self.f)
        ps = tu.fparams(self.f)
        if len(ps) != 2:
            raise AnalysisError("l1sched_mframe_layout signature changed")
        self.pid = [p["id"] for p in ps]
        self.arr_id = tu.var("layouts")["id"]
        self._find_state()

    def _find_state(self):
        """Variables that keep their value from one call of the function to the next (the hidden part of
        its input): static locals, and file-scope variables the function stores to.  -> self.state =
        [(declaration id, name)], self.state_init = their values before the first call."""
        tu, f = self.tu, self.f
        body = tu.body(f)
        state = []
        for n in walk(body):
            if kind(n) == "VarDecl" and n.get("storageClass") == "static":
                state.append(n)
        stored = set()
        for n in walk(body):
            k = kind(n)
            tgt = None
            if (k == "BinaryOperator" and n.get("opcode") == "=") or k == "CompoundAssignOperator":
                tgt = kids(n)[0]
            elif k == "UnaryOperator" and n.get("opcode") in ("++", "--", "&"):
                tgt = kids(n)[0]
            if tgt is None:
                continue
            t = strip(tgt)
            i = Locals._ref(t)
            if i is not None and i not in self.loc.decl:
                if k == "UnaryOperator" and n.get("opcode") == "&":
                    raise AnalysisError("l1sched_mframe_layout takes the address of `%s`; outside the evaluator's model" % ctext(t)[:50])
                stored.add(i)
            elif i is None and k != "UnaryOperator":
                raise AnalysisError("l1sched_mframe_layout stores to `%s`; outside the evaluator's model" % ctext(t)[:50])
        for i in sorted(stored):
            v = tu.by_id.get(i)
            if v is None or kind(v) != "VarDecl" or v.get("name") == "layouts":
                raise AnalysisError("l1sched_mframe_layout modifies `%s`; outside the evaluator's model" % (
                    v.get("name") if v else "?"))
            # a file-scope variable is part of the function's own state only if nothing else can write it
            if v.get("storageClass") != "static":
                raise AnalysisError("l1sched_mframe_layout keeps state in `%s`, which other translation units can modify; "
                                    "cannot enumerate its values" % v.get("name"))
            for oname, of in body_funcs(tu):
                if of is f:
                    continue
                for x in walk(tu.body(of)):
                    if kind(x) == "DeclRefExpr" and x.get("referencedDecl", {}).get("id") == i:
                        raise AnalysisError("l1sched_mframe_layout keeps state in `%s`, which %s() also uses; cannot "
                                            "enumerate its values" % (v.get("name"), oname))
            state.append(v)
        self.state = []
        self.state_init = []
        for v in state:
            qt = v.get("type", {}).get("qualType", "")
            if any(d[0] == "addr" for d in self.loc.defs.get(v["id"], [])):
                raise AnalysisError("l1sched_mframe_layout: the address of its state variable `%s` is taken; outside the "
                                    "evaluator's model" % v.get("name"))
            if "[" in qt or (int_type(tu, v.get("type")) is None and "*" not in qt and not qt.startswith("enum ")):
                raise AnalysisError("l1sched_mframe_layout keeps state in `%s` of type `%s`; outside the evaluator's model" % (
                    v.get("name"), qt))
            init = [c for c in kids(v) if "Comment" not in (kind(c) or "") and not (kind(c) or "").endswith("Attr")]
            self.state.append((v["id"], v.get("name")))
            self.state_init.append(ceval(tu, init[0], self.leaf({})) if init else 0)
        self.n_own = len(self.state)
        self.mem = {}
        self.ext_arr = {}       # id -> (name, extent, element type) of the arrays among the external state
        inits = self._find_external(stored)
        self.state_ids = {i for i, _ in self.state}
        self.state_inits = [tuple(self.state_init) + e for e in inits]
        self.state_init = self.state_inits[0]

    def _find_external(self, stored):
        """File-scope variables the function only READS and that are not const: state somebody else sets
        up.  Modelled when the variable is static (nothing outside this file can write it), an integer or
        a one-dimensional integer array, and every other function that mentions it is a load-time
        constructor nobody references (it runs once, before or between the lookups, and is a function of
        the file's constants only).  The variable then joins the state variables; its possible contents
        are the initialiser (constructor not run yet) and what each prefix of the constructors, executed
        in definition order by the checker's evaluator, leaves behind.  -> list of content tuples."""
        tu, f = self.tu, self.f
        ext = []
        for n in walk(tu.body(f)):
            rd = n.get("referencedDecl", {}) if kind(n) == "DeclRefExpr" else {}
            i = rd.get("id")
            v = tu.by_id.get(i)
            if rd.get("kind") != "VarDecl" or v is None or i in self.loc.decl or i in stored or v in ext or \
                    v.get("name") == "layouts":
                continue
            qt = v.get("type", {}).get("qualType", "")
            if re.search(r"\bconst\b", qt) and "*" not in qt:
                continue
            ext.append(v)
        if not ext:
            return [()]
        ctors = []
        content = {}
        for v in ext:
            name, qt = v.get("name"), v.get("type", {}).get("qualType", "")
            if v.get("storageClass") != "static":
                raise AnalysisError("l1sched_mframe_layout reads `%s`, which other translation units can modify; cannot "
                                    "enumerate its values" % name)
            m = re.match(r"^([^\[\]*]+?)\s*(?:\[(\d+)\])?$", qt)
            ety = m.group(1).strip() if m else None
            if m is None or int_type(tu, ety) is None:
                raise AnalysisError("l1sched_mframe_layout reads `%s` of type `%s`; outside the evaluator's model" % (name, qt))
            init = [c for c in kids(v) if "Comment" not in (kind(c) or "") and not (kind(c) or "").endswith("Attr")]
            iv = tu.init_value(init[0]) if init else None
            if m.group(2) is not None:
                ext_n = int(m.group(2))
                iv = [] if iv is None else iv
                if not isinstance(iv, list) or len(iv) > ext_n or not all(isinstance(x, int) for x in iv):
                    raise AnalysisError("l1sched_mframe_layout: initialiser of `%s` outside the evaluator's model" % name)
                self.ext_arr[v["id"]] = (name, ext_n, ety)
                content[v["id"]] = [cwrap(tu, x, ety) for x in iv] + [0] * (ext_n - len(iv))
            else:
                if iv is not None and not isinstance(iv, int):
                    raise AnalysisError("l1sched_mframe_layout: initialiser of `%s` outside the evaluator's model" % name)
                content[v["id"]] = cwrap(tu, iv or 0, ety)
            for oname, of in body_funcs(tu):
                if of is f or not any(kind(x) == "DeclRefExpr" and x.get("referencedDecl", {}).get("id") == v["id"]
                                      for x in walk(tu.body(of))):
                    continue
                if not any(kind(c) == "ConstructorAttr" for c in kids(of)) or tu.fparams(of):
                    raise AnalysisError("l1sched_mframe_layout reads `%s`, which %s() also uses (not a load-time constructor); "
                                        "cannot enumerate its values" % (name, oname))
                if (oname, of) not in ctors:
                    ctors.append((oname, of))
        for oname, of in ctors:
            roots = [tu.body(x) for _, x in body_funcs(tu)] + [x for _, x in sorted(tu.vars.items())]
            if any(kind(x) == "DeclRefExpr" and x.get("referencedDecl", {}).get("id") == of.get("id")
                   for r in roots for x in walk(r)):
                raise AnalysisError("the constructor %s() is also referenced by code; cannot enumerate the contents of the "
                                    "tables it fills" % oname)
        for v in ext:
            self.state.append((v["id"], v.get("name")))
        self.ctors = [n for n, _ in ctors]
        self.state_ids = {i for i, _ in self.state}

        def snap():
            return tuple(tuple(content[v["id"]]) if v["id"] in self.ext_arr else content[v["id"]] for v in ext)
        out = [snap()]
        for oname, of in sorted(ctors, key=lambda c: tu.line(c[1]) or 0):
            env = {}
            for v in ext:
                if v["id"] in self.ext_arr:
                    self.mem[v["id"]] = content[v["id"]]
                    env[v["id"]] = (("arr", v["id"]), 0)
                else:
                    env[v["id"]] = content[v["id"]]
            try:
                self._run(env, CCFG(tu, of), oname, void=True)
            except EvalOOB as e:
                raise AnalysisError("the constructor %s() accesses %s, outside the table" % (oname, e))
            for v in ext:
                if v["id"] not in self.ext_arr:
                    content[v["id"]] = env[v["id"]]
            if snap() not in out:
                out.append(snap())
        return out

    def show_state(self, st):
        out = []
        for (i, name), v in zip(self.state, st):
            if i in self.ext_arr:
                out.append("%s = {%s}" % (name, ",".join(str(x) for x in v)))
            elif isinstance(v, tuple) and v[0] == "elem":
                out.append("%s = &layouts[%d]" % (name, v[1]))
            else:
                out.append("%s = %s" % (name, "NULL" if v == 0 else v))
        return ", ".join(out)

    def leaf(self, env):
        T = self.T

        def lf(n):
            k = kind(n)
            if k == "DeclRefExpr":
                rd = n.get("referencedDecl", {})
                i = rd.get("id")
                if i in env:
                    if env[i] is None:
                        raise AnalysisError("l1sched_mframe_layout reads an uninitialised local")
                    return env[i]
                if rd.get("name") == "layouts" and rd.get("kind") == "VarDecl":
                    return ("elem", 0)
                if i in self.loc.decl:
                    s = self.loc.single(n)
                    if s is not None and pure(s[0]):
                        return ceval(self.tu, s[0], lf)
                    raise AnalysisError("l1sched_mframe_layout: local `%s` has no value in the model" % rd.get("name"))
                return _NOTHING
            if k == "UnaryOperator" and n.get("opcode") in ("++", "--"):
                # side effect inside an expression (`i-- > 0`): ceval asks for every node once, in
                # evaluation order
                i = Locals._ref(kids(n)[0])
                if i is None or not isinstance(env.get(i), int) or i in self.state_ids:
                    raise AnalysisError("l1sched_mframe_layout: `%s` outside the evaluator's model" % ctext(n)[:40])
                old = env[i]
                env[i] = cwrap(self.tu, old + (1 if n.get("opcode") == "++" else -1), n.get("type"))
                return old if n.get("isPostfix") else env[i]
            if k == "ArraySubscriptExpr":
                b = ceval(self.tu, kids(n)[0], lf)
                i = ceval(self.tu, kids(n)[1], lf)
                if isinstance(b, tuple) and isinstance(b[0], tuple) and b[0][0] == "arr" and isinstance(i, int):
                    name, ext_n, _ = self.ext_arr[b[0][1]]
                    if not 0 <= b[1] + i < ext_n:
                        raise EvalOOB("%s[%d]" % (name, b[1] + i))
                    return self.mem[b[0][1]][b[1] + i]
                if isinstance(b, tuple) and isinstance(i, int):
                    return (b[0], b[1] + i)
                raise AnalysisError("l1sched_mframe_layout: subscript outside the model")
            if k == "MemberExpr":
                b = ceval(self.tu, kids(n)[0], lf)
                if isinstance(b, tuple) and b[0] == "elem":
                    if not 0 <= b[1] < len(T.layouts):
                        raise EvalOOB("layouts[%d]" % b[1])
                    lay = T.layouts[b[1]]
                    fld = {"chan_config": "cfg", "period": "period", "slotmask": "slotmask",
                           "lchan_mask": "lchan_mask"}.get(n.get("name"))
                    if fld is None:
                        raise AnalysisError("l1sched_mframe_layout reads field %s" % n.get("name"))
                    return lay[fld]
                raise AnalysisError("l1sched_mframe_layout: member access outside the model")
            return _NOTHING
        return lf

    def run(self, cfg, tn, state=None):
        """value returned by the call (config, tn) made with the state variables holding `state`
        (default: their initial values); self.after = their values after the call"""
        state = self.state_init if state is None else state
        env = {self.pid[0]: cfg, self.pid[1]: tn}
        for (i, _), v in zip(self.state, state):
            if i in self.ext_arr:
                self.mem[i] = list(v)
                env[i] = (("arr", i), 0)
            else:
                env[i] = v
        self.after = state
        r = self._run(env)
        self.after = tuple(tuple(self.mem[i]) if i in self.ext_arr else env[i] for i, _ in self.state)
        return r

    def _run(self, env, g=None, fname="l1sched_mframe_layout", void=False):
        g, tu = g or self.g, self.tu
        lf = self.leaf(env)
        node = g.entry
        for _ in range(20000):
            if node is g.exit:
                if void:
                    return None
                raise AnalysisError("l1sched_mframe_layout can fall off its end")
            k = node.kind
            if k == "cond":
                c = getattr(node, "cond", None)
                v = True if c is None else truth(ceval(tu, c, lf))
                nxt = [s for s, l in node.succ if l == v]
                if len(nxt) != 1:
                    raise AnalysisError("l1sched_mframe_layout: CFG branch without a %s edge" % v)
                node = nxt[0]
                continue
            if k == "switch":
                raise AnalysisError("l1sched_mframe_layout: switch outside the model")
            if k == "stmt":
                a = node.ast
                ak = kind(a)
                if ak == "ReturnStmt":
                    return ceval(tu, kids(a)[0], lf) if kids(a) else 0
                if ak == "DeclStmt":
                    for vd in kids(a):
                        if kind(vd) != "VarDecl":
                            continue
                        if vd["id"] in self.state_ids:
                            continue        # static: initialised once, before the first call
                        init = [c for c in kids(vd) if "Comment" not in (kind(c) or "") and not (kind(c) or "").endswith("Attr")]
                        env[vd["id"]] = ceval(tu, init[0], lf) if init else None
                elif ak in ("BreakStmt", "ContinueStmt", "DoHead", "NullStmt") or not ak:
                    pass        # (no kind: the absent increment of `for (...; ...; )`)
                else:
                    e = strip(a)
                    ek = kind(e)
                    tgt = Locals._ref(kids(e)[0]) if kids(e) else None
                    if ek == "BinaryOperator" and e.get("opcode") == "=" and tgt is not None and \
                            (tgt in self.loc.decl or tgt in self.state_ids or (void and isinstance(env.get(tgt, _NOTHING), int))):
                        env[tgt] = ceval(tu, kids(e)[1], lf)
                    elif ek == "BinaryOperator" and e.get("opcode") == "=" and void and \
                            kind(strip(kids(e)[0])) == "ArraySubscriptExpr":
                        # a constructor fills a table of the external state
                        a = strip(kids(e)[0])
                        b, i = ceval(tu, kids(a)[0], lf), ceval(tu, kids(a)[1], lf)
                        if not (isinstance(b, tuple) and isinstance(b[0], tuple) and b[0][0] == "arr" and isinstance(i, int)):
                            raise AnalysisError("%s(): store to `%s`; outside the evaluator's model" % (fname, ctext(a)[:50]))
                        name, ext_n, ety = self.ext_arr[b[0][1]]
                        if not 0 <= b[1] + i < ext_n:
                            raise EvalOOB("%s[%d]" % (name, b[1] + i))
                        val = ceval(tu, kids(e)[1], lf)
                        if not isinstance(val, int):
                            raise AnalysisError("%s(): stores a non-integer to %s[]" % (fname, name))
                        self.mem[b[0][1]][b[1] + i] = cwrap(tu, val, ety)
                    elif ek == "UnaryOperator" and e.get("opcode") in ("++", "--") and tgt in env and env[tgt] is not None:
                        d = 1 if e.get("opcode") == "++" else -1
                        v = env[tgt]
                        env[tgt] = (v[0], v[1] + d) if isinstance(v, tuple) else v + d
                    elif ek == "CompoundAssignOperator" and e.get("opcode") in ("+=", "-=") and tgt in env:
                        d = ceval(tu, kids(e)[1], lf)
                        d = d if e.get("opcode") == "+=" else -d
                        v = env[tgt]
                        env[tgt] = (v[0], v[1] + d) if isinstance(v, tuple) else v + d
                    elif ek == "CallExpr" and "LOG" in ctext(kids(e)[0]).upper():
                        pass
                    else:
                        raise AnalysisError("%s: statement outside the evaluator's vocabulary: %s" % (fname, ctext(e)[:60]))
            if len(node.succ) != 1:
                raise AnalysisError("l1sched_mframe_layout: CFG node with %d successors" % len(node.succ))
            node = node.succ[0][0]
        raise AnalysisError("l1sched_mframe_layout: evaluation does not terminate")


def r2_lookup(L, T):
    """C11.R2, clause `every (channel combination, timeslot) lookup returns a layout valid for that
    timeslot`: l1sched_mframe_layout is evaluated exactly (checker's own evaluator) for every
    combination present in layouts[] and every tn 0..7 -- and, when the function keeps state between
    calls (static locals, file-scope variables only it writes), in every state that any sequence of
    calls over the whole (enum gsm_phys_chan_config x tn) domain can leave behind (the state space is
    finite: closure from the initial values).  The entry returned must have the requested chan_config,
    the tn bit in its slotmask and period > 0; a failing lookup is reported with the shortest sequence
    of preceding calls that produces the state."""
    fname = "l1sched_mframe_layout"
    L.fn(F_MF, fname)
    LL = LayoutLookup(T)
    tu = T.tu
    none = T.cfg[NONE_CFG]
    cfgs = []
    for lay in T.layouts:
        if lay["cfg"] != none and lay["cfg"] not in cfgs:
            cfgs.append(lay["cfg"])

    def cname(c):
        return short_cfg(T.cfg_name(c))

    # reachable values of the hidden state: closure of the initial state under every call of the domain
    reach = {s: None for s in LL.state_inits}   # state -> (previous state, (cfg, tn)) on a shortest call sequence
    order = list(LL.state_inits)
    results = {}                           # (state, cfg, tn) -> value | EvalOOB
    if LL.state:
        dom = sorted(set(T.cfg.values()) | set(T.extra_cfg.values()) | set(cfgs))
        qi = 0
        while qi < len(order):
            st = order[qi]
            qi += 1
            for cfg in dom:
                for tn in range(8):
                    try:
                        results[(st, cfg, tn)] = LL.run(cfg, tn, st)
                    except EvalOOB as e:
                        results[(st, cfg, tn)] = e
                        continue
                    if LL.after not in reach:
                        reach[LL.after] = (st, (cfg, tn))
                        order.append(LL.after)
                        if len(order) > 4 * (len(T.layouts) + 2) ** len(LL.state) or len(order) > 4000:
                            raise AnalysisError("%s(): the values of its state variables (%s) do not close over the call domain" % (
                                fname, ", ".join(n for _, n in LL.state)))

    def history(st):
        calls = []
        while reach.get(st) is not None:
            st, c = reach[st]
            calls.append(c)
        return list(reversed(calls))

    result = {}
    npairs = 0
    for cfg in cfgs:
        cn = cname(cfg)
        ents = [l for l in T.layouts if l["cfg"] == cfg]
        union = 0
        overlap = []
        for l in ents:
            if union & l["slotmask"]:
                overlap.append("0x%02x" % l["slotmask"])
            union |= l["slotmask"]
        L.ob("C11.R2", F_MF, "layouts[]", "combination %s: slot masks of its layouts cover all 8 timeslots" % cn,
             "0xff", "0x%02x" % union, union == 0xff, ents[0]["line"])
        L.ob("C11.R2", F_MF, "layouts[]", "combination %s: slot masks of its layouts are pairwise disjoint" % cn,
             [], overlap, not overlap, ents[0]["line"])
        for tn in range(8):
            npairs += 1
            want = {"chan_config": cn, "tn_in_slotmask": True, "period>0": True}
            found, ok, got = want, True, set()
            for st in order:
                k = (st, cfg, tn)
                if k not in results:
                    try:
                        results[k] = LL.run(cfg, tn, st)
                    except EvalOOB as e:
                        results[k] = e
                r = results[k]
                if isinstance(r, EvalOOB):
                    f1, ok1 = "reads %s, outside the table" % r, False
                elif isinstance(r, tuple) and r[0] == "elem" and 0 <= r[1] < len(T.layouts):
                    lay = T.layouts[r[1]]
                    f1 = {"chan_config": cname(lay["cfg"]), "tn_in_slotmask": bool(lay["slotmask"] >> tn & 1),
                          "period>0": lay["period"] > 0}
                    ok1 = lay["cfg"] == cfg and bool(lay["slotmask"] >> tn & 1) and lay["period"] > 0
                    if ok1:
                        got.add(r[1])
                    else:
                        f1["returned"] = "layouts[%d] (%s)" % (r[1], T.label(lay))
                else:
                    f1, ok1 = {"returned": "NULL" if r == 0 else repr(r)}, False
                if not ok1 and ok:
                    ok, found = False, f1
                    h = history(st)
                    if h and isinstance(found, dict):
                        found["after_the_lookups"] = " then ".join("(%s, tn %d)" % (cname(c), t) for c, t in h[-3:])
                        found["state"] = LL.show_state(st)
                    elif LL.state and isinstance(found, dict):
                        found["state"] = LL.show_state(st)
                    elif h:
                        found = "%s after the lookups %s" % (found, " then ".join("(%s, tn %d)" % (cname(c), t) for c, t in h[-3:]))
            if ok and len(got) == 1:
                result[(cfg, tn)] = T.layouts[got.pop()]
            L.ob("C11.R2", F_MF, fname, "lookup (%s, tn %d) returns a layout of that combination valid for the timeslot%s" % (
                cn, tn, ", whatever lookups preceded it" if LL.n_own else ""), want, found, ok, tu.line(LL.f),
                note="evaluated in the %d reachable states of %s" % (len(order), ", ".join(n for _, n in LL.state)) if LL.state else None)
    L.floor("C11.R2", "(combination, timeslot) pairs", npairs, 64)
    r2_whole_domain(L, T, LL, cfgs, order, results, history)
    if LL.state:
        L.extra["layout_lookup_states"] = len(order)
    rets = [n for n in LL.g.nodes if n.kind == "stmt" and kind(n.ast) == "ReturnStmt" and kids(n.ast)
            and tu.fold(kids(n.ast)[0]) is None]
    if not rets:
        raise AnalysisError("%s(): no return of a table entry" % fname)
    if len(rets) == 1 and not LL.state:
        r2_return_guard(L, T, LL, cfgs, rets[0])
    # otherwise (several returns of an entry, state kept between calls) the exhaustive evaluation above,
    # which does not depend on how the function is written, is the whole decision
    return result, LL


def r2_whole_domain(L, T, LL, cfgs, order, results, history):
    """C11.R2, clauses `every (channel combination, timeslot) lookup returns a layout valid for that
    timeslot` and `no frame lookup for any frame number leaves the table`, for the part of the lookup's
    domain that has no layout of its own: l1sched_mframe_layout is evaluated exactly for every value of
    enum gsm_phys_chan_config (plus the macro-defined combinations) that is NOT a combination of layouts[]
    (today NONE, TCH_F_PDCH, UNKNOWN, _MAX) x tn 0..7 (x every reachable state of its static variables).
    Whatever it returns is stored in ts->mf_layout by l1sched_configure_ts and read by the burst handlers
    as frames[fn % period] under a NULL test only, so the value must be NULL ("no such layout") or an
    entry a frame lookup can use on that timeslot: period >= 1, a frame table, tn in its slotmask.  The
    only tolerated exception is the request for GSM_PCHAN_NONE itself, which may get the explicit
    NONE entry (period 0, no table: C11.R1; never configured: thorough tier)."""
    fname = "l1sched_mframe_layout"
    none = T.cfg[NONE_CFG]
    dom = sorted(set(T.cfg.values()) | set(T.extra_cfg.values()))
    rest = [c for c in dom if c not in cfgs]
    want = "NULL or a layout with period >= 1, a frame table and the tn bit in its slotmask"
    for cfg in rest:
        cn = short_cfg(T.cfg_name(cfg))
        bad = None
        kinds = set()
        for tn in range(8):
            for st in order:
                k = (st, cfg, tn)
                if k not in results:
                    try:
                        results[k] = LL.run(cfg, tn, st)
                    except EvalOOB as e:
                        results[k] = e
                r = results[k]
                f1 = None
                if isinstance(r, EvalOOB):
                    f1 = {"tn": tn, "reads": "%s, outside the table" % r}
                elif r == 0:
                    kinds.add("NULL")
                elif isinstance(r, tuple) and r[0] == "elem" and 0 <= r[1] < len(T.layouts):
                    lay = T.layouts[r[1]]
                    usable = lay["period"] > 0 and lay["frames"] is not None and bool(lay["slotmask"] >> tn & 1)
                    own_none = cfg == none and lay["cfg"] == none and bool(lay["slotmask"] >> tn & 1)
                    if usable or own_none:
                        kinds.add("layouts[%d] (%s)" % (r[1], T.label(lay)))
                    else:
                        f1 = {"tn": tn, "returned": "layouts[%d] (%s)" % (r[1], T.label(lay)), "period": lay["period"],
                              "frames": lay["frames"] or "NULL", "tn_in_slotmask": bool(lay["slotmask"] >> tn & 1)}
                else:
                    f1 = {"tn": tn, "returned": repr(r)}
                if f1 is not None and bad is None:
                    bad = f1
                    h = history(st)
                    if h:
                        bad["after_the_lookups"] = " then ".join("(%s, tn %d)" % (short_cfg(T.cfg_name(c)), t) for c, t in h[-3:])
        L.ob("C11.R2", F_MF, fname,
             "lookup (%s, tn 0..7), a combination without a layout of its own, returns NULL or a layout a frame lookup can use%s" % (
                 cn, " (the NONE entry itself for NONE)" if cfg == none else ""),
             want, bad if bad is not None else sorted(kinds), bad is None, T.tu.line(LL.f))
    L.floor("C11.R2", "combinations of the enum without a layout of their own evaluated", len(rest), 2)


def r2_return_guard(L, T, LL, cfgs, rn):
    """guard of the single non-NULL return of a stateless scan loop, compared with the specified predicate
    on all (entry, config, tn) triples"""
    fname = "l1sched_mframe_layout"
    tu = T.tu
    none = T.cfg[NONE_CFG]
    loop = LL.g.loop_of(rn)
    if loop is None or kind(loop) != "ForStmt":
        raise AnalysisError("%s(): the entry is not returned from a for loop; unclassifiable" % fname)
    vid, start = induction(tu, loop)
    guards = [(getattr(c, "cond", None), lab) for c, lab in LL.g.guards(rn)]
    guards = [(c, lab) for c, lab in guards if c is not None]
    bad = None
    ntr = 0
    for i in range(len(T.layouts)):
        for cfg in cfgs + [none]:
            for tn in range(8):
                ntr += 1
                env = {LL.pid[0]: cfg, LL.pid[1]: tn, vid: i}
                lf = LL.leaf(env)
                got = all(truth(ceval(tu, c, lf)) == bool(lab) for c, lab in guards)
                retv = ceval(tu, kids(rn.ast)[0], lf)
                lay = T.layouts[i]
                want = lay["cfg"] == cfg and bool(lay["slotmask"] >> tn & 1)
                if (got != want or (got and retv != ("elem", i))) and bad is None:
                    bad = "entry %d, %s, tn %d: returned=%s value=%r" % (i, short_cfg(T.cfg_name(cfg)), tn, got, retv)
    lits = sorted("%s%s" % ("" if p else "!", t) for t, p in LL.g.guard_lits(rn))
    L.ob("C11.R2", F_MF, fname,
         "guard of `return &layouts[i]`: entry i is returned only if chan_config == config and the tn bit of slotmask is set (first such entry, scan from 0)",
         {"equivalent_on_triples": ntr, "scan_start": 0}, {"equivalent_on_triples": ntr, "scan_start": start} if bad is None else
         {"counterexample": bad, "guard": lits}, bad is None and start == 0, tu.line(rn.ast))


# ======================================================== firmware tables

class Firmware:
    def __init__(self, L):
        self.tu = tu = TU(L.repo, "fw", "layer1/mframe_sched.c", L=L)
        L.unit("src/target/firmware/include/layer1/mframe_sched.h")
        self.tasks = {k: v for k, v in tu.enums.items() if tu.enum_of.get(k) == "mframe_task"}
        if not self.tasks:
            raise AnalysisError("enum mframe_task vanished")
        if "MF_F_SACCH" not in tu.enums:
            raise AnalysisError("MF_F_SACCH vanished")
        self.F_SACCH = tu.enums["MF_F_SACCH"]
        flds = [n for n, _ in tu.record_fields("mframe_sched_item")]
        for need in ("sched_set", "modulo", "frame_nr", "flags"):
            if need not in flds:
                raise AnalysisError("struct mframe_sched_item lost field %s" % need)
        self.flds = flds
        self.tables = {}
        v = tu.var("sched_set_for_task")
        qt = v.get("type", {}).get("qualType", "")
        self.map_dim = array_extent(qt)
        if "struct mframe_sched_item *" not in qt or self.map_dim is None:
            raise AnalysisError("sched_set_for_task has unexpected type %s" % qt)
        es, _ = elems(initlist(v, "sched_set_for_task"))
        self.map_line = tu.line(v)
        self.task_table = []
        for e in es:
            x = tu.init_value(e)
            if isinstance(x, tuple) and x[0] == "ref":
                self.task_table.append(re.sub(r"\[0\]$", "", x[1]))
            elif x in (0, None):
                self.task_table.append(None)
            else:
                raise AnalysisError("sched_set_for_task entry is neither a table nor NULL: %r" % (x,))

    def table(self, name):
        if name in self.tables:
            return self.tables[name]
        tu = self.tu
        v = tu.var(name)
        qt = v.get("type", {}).get("qualType", "")
        if "struct mframe_sched_item" not in qt or array_extent(qt) is None:
            raise AnalysisError("%s is not an array of struct mframe_sched_item (%s)" % (name, qt))
        es, filler = elems(initlist(v, name))
        rows = []
        for e in es:
            e = strip(e)
            if kind(e) != "InitListExpr" or len(kids(e)) != len(self.flds):
                raise AnalysisError("row of %s has an unexpected shape" % name)
            d = dict(zip(self.flds, [tu.init_value(c) for c in kids(e)]))
            ss = d["sched_set"]
            if isinstance(ss, tuple) and ss[0] == "ref":
                ss = re.sub(r"\[0\]$", "", ss[1])
            elif ss in (0, None):
                ss = None
            else:
                raise AnalysisError("%s: sched_set is neither a tdma_sched set nor NULL: %r" % (name, ss))
            rows.append({"set": ss, "modulo": as_int(d["modulo"], "modulo"), "frame_nr": as_int(d["frame_nr"], "frame_nr"),
                         "flags": as_int(d["flags"], "flags"), "line": tu.line(e)})
        if filler:
            # implicit zero rows: sched_set NULL
            for _ in range(array_extent(qt) - len(rows)):
                rows.append({"set": None, "modulo": 0, "frame_nr": 0, "flags": 0, "line": tu.line(v)})
        t = {"name": name, "rows": rows, "line": tu.line(v)}
        self.tables[name] = t
        return t

    def task_rows(self, task):
        """rows of the task's table up to the terminator (what the scheduling
        loop visits)"""
        v = self.tasks[task]
        name = self.task_table[v] if v < len(self.task_table) else None
        if name is None:
            return None, None
        t = self.table(name)
        out = []
        for r in t["rows"]:
            if r["set"] is None:
                break
            out.append(r)
        return t, out


def r3_fw_tables(L, FW):
    fn = "sched_set_for_task[]"
    ntab = 0
    nrow = 0
    for task, v in sorted(FW.tasks.items(), key=lambda kv: kv[1]):
        name = FW.task_table[v] if v < len(FW.task_table) else None
        L.ob("C11.R3", F_FW, fn, "%s has a multiframe table (index below the array dimension %s)" % (task, FW.map_dim),
             "table", name or "NULL", name is not None and v < (FW.map_dim or 0), FW.map_line)
        if name is None:
            continue
        t = FW.table(name)
        ntab += 1
        rows = t["rows"]
        nulls = [i for i, r in enumerate(rows) if r["set"] is None]
        L.ob("C11.R3", F_FW, name, "%s: table ends with its only NULL sched_set terminator (the scheduling loop stops there)" % task,
             [len(rows) - 1], nulls, nulls == [len(rows) - 1], t["line"])
        for i, r in enumerate(rows):
            if r["set"] is None:
                break
            nrow += 1
            L.ob("C11.R3", F_FW, name, "%s row %d: modulo >= 1, modulo and frame_nr fit uint16_t" % (task, i),
                 "1 <= modulo <= 65535, 0 <= frame_nr <= 65535", {"modulo": r["modulo"], "frame_nr": r["frame_nr"]},
                 1 <= r["modulo"] <= 65535 and 0 <= r["frame_nr"] <= 65535, r["line"])
    L.floor("C11.R3", "firmware multiframe tasks with a table", ntab, 29)
    L.floor("C11.R3", "firmware table rows", nrow, 128)


def r3_trigger_shape(L, FW, latency):
    """mframe_schedule_set: for every row up to the terminator, the set is
    queued D frames ahead exactly when (fn + A) % modulo == frame_nr % modulo,
    with A - D == DSP latency: the first burst is in a frame == frame_nr.
    Decision by loop shape + expression normal form of the trigger (fast path; r3_trigger falls
    back to the exact execution of the function when this path does not end in `holds`)."""
    tu = FW.tu
    fname = "mframe_schedule_set"
    f = tu.func(fname)
    L.fn(F_FW, fname)
    g = CCFG(tu, f)
    loc = Locals(tu, f)
    ps = tu.fparams(f)
    calls = calls_to(tu.body(f), "tdma_schedule_set")
    L.floor("C11.R3", "tdma_schedule_set call sites in mframe_schedule_set", len(calls), 1)
    if len(calls) != 1:
        raise AnalysisError("%s(): expected one tdma_schedule_set call, found %d" % (fname, len(calls)))
    call = calls[0]
    cn = g.node_of(call)
    loop = g.loop_of(cn)
    if loop is None or kind(loop) != "ForStmt":
        raise AnalysisError("%s(): the rows are not visited by a for loop; unclassifiable" % fname)
    inner = loop["inner"]
    init, cond, inc = inner[0], inner[2], inner[3]
    # loop variable: pointer walking the table
    ie = strip(init) if init else None
    if ie is not None and kind(ie) == "BinaryOperator" and ie.get("opcode") == "=":
        sid = Locals._ref(kids(ie)[0])
        start = kids(ie)[1]
    elif init and kind(init) == "DeclStmt" and len(kids(init)) == 1 and kids(kids(init)[0]):
        sid = kids(init)[0]["id"]
        start = kids(kids(init)[0])[0]
    else:
        raise AnalysisError("%s(): loop initialisation of unexpected shape" % fname)
    sname = loc.decl[sid].get("name") if sid in loc.decl else None
    if sname is None:
        raise AnalysisError("%s(): loop variable is not a local" % fname)
    start_txt = rtext(loc, start)
    want_start = "sched_set_for_task[%s]" % (ps[0].get("name") if ps else "?")
    L.ob("C11.R3", F_FW, fname, "the loop starts at the first row of the task's own table",
         want_start, start_txt, start_txt == want_start, tu.line(loop))
    ince = strip(inc) if inc else None
    inc_ok = ince is not None and kind(ince) == "UnaryOperator" and ince.get("opcode") == "++" and Locals._ref(kids(ince)[0]) == sid
    condl = cliterals(tu, cond, True) if cond else set()
    condt = sorted("%s%s" % ("" if p else "!", t) for t, p in condl)
    cond_ok = condl in ({("0 == %s->sched_set" % sname, False)}, {("%s->sched_set" % sname, True)})
    L.ob("C11.R3", F_FW, fname, "the loop visits the rows one by one until the NULL sched_set terminator",
         {"step": "%s++" % sname, "while": "%s->sched_set != NULL" % sname},
         {"step": ctext(ince) if ince is not None else None, "while": condt},
         inc_ok and cond_ok, tu.line(loop))
    others = [d for d in loc.defs.get(sid, []) if d[2] is not ie and d[2] is not ince and d[0] != "init"]
    esc = [n for n in walk(inner[4]) if kind(n) in ("BreakStmt", "ReturnStmt", "GotoStmt")]
    L.ob("C11.R3", F_FW, fname, "no row is skipped: no other update of the row pointer, no break/return/goto in the loop",
         {"other_updates": 0, "escapes": 0}, {"other_updates": len(others), "escapes": len(esc)},
         not others and not esc, tu.line(loop))
    # single-definition locals are substituted forward before lowering

    def term(e, depth=0):
        env = {}
        for x in walk(e):
            if kind(x) == "DeclRefExpr" and loc.is_local(x) and not loc.is_param(x):
                s = loc.single(x)
                if s is not None and depth < 5 and pure(s[0]):
                    env[ctext(x)] = term(s[0], depth + 1)
        return CLower(tu, env).lower(e)

    guards = [(getattr(c, "cond", None), lab) for c, lab in g.guards(cn)]
    trig = [(c, lab) for c, lab in guards if c is not None and c is not cond]
    key = "trigger: the set is queued iff (fn + A) % modulo == frame_nr % modulo of the row, under no other condition"
    if len(trig) != 1:
        L.ob("C11.R3", F_FW, fname, key, "one trigger condition",
             sorted("%s%s" % ("" if p else "!", t) for t, p in g.guard_lits(cn)), False, tu.line(call))
        return
    t = term(trig[0][0])
    if not trig[0][1]:
        t = ("not", t)
    while t[0] == "not" and t[1][0] == "not":
        t = t[1][1]

    def conj(x):
        return conj(x[1]) + conj(x[2]) if x[0] == "and" else [x]
    parts = conj(t)
    def is_diff(x):
        return x[0] == "cmp" and x[1] == "==" and X.C(0) in (x[2], x[3]) and "mod" in (x[2][0], x[3][0])
    main = [x for x in parts if (x[0] == "cmp" and x[1] == "==" and x[2][0] == "mod" and x[3][0] == "mod") or is_diff(x)]
    if len(parts) > 1 and len(main) == 1:
        L.ob("C11.R3", F_FW, fname, "trigger: no condition besides the frame-number comparison decides whether a row's set is queued",
             [], [X.show(x) for x in parts if x is not main[0]], False, tu.line(call))
        t = main[0]
    A = None
    fnv = None
    if t[0] == "cmp" and t[1] == "==" and t[2][0] == "mod" and t[3][0] == "mod":
        for a, b in ((t[2], t[3]), (t[3], t[2])):
            co, c = X.linear(a[1])
            if len(co) == 1 and list(co.values()) == [1] and list(co)[0].endswith("current_time.fn"):
                A, fnv = c, list(co)[0]
                want = X.cmp_("==", X.mod(X.add(X.V(fnv), X.C(A)), X.V("%s->modulo" % sname)),
                              X.mod(X.V("%s->frame_nr" % sname), X.V("%s->modulo" % sname)))
                if t == want:
                    L.ob("C11.R3", F_FW, fname, key, X.show(want), X.show(t), True, tu.line(call))
                else:
                    # two remainders, but not literally the canonical pair: decided on the table rows
                    A = trigger_by_rows(L, FW, tu, fname, loc, sid, sname, trig[0], t, key, call)
                break
        else:
            L.ob("C11.R3", F_FW, fname, key,
                 "((l1s.current_time.fn + A) mod %s->modulo) == (%s->frame_nr mod %s->modulo)" % (sname, sname, sname),
                 X.show(t), False, tu.line(call))
            return
    elif is_diff(t):
        # folded form ((fn + A - frame_nr) mod modulo) == 0: equal to the two-remainder form over the
        # integers; in C it is only if the subtraction cannot wrap (or the word size is a multiple of modulo)
        m = t[2] if t[2][0] == "mod" else t[3]
        co, c = X.linear(m[1])
        fnk = [k for k in co if k.endswith("current_time.fn")]
        canon = "((l1s.current_time.fn + A) mod %s->modulo) == (%s->frame_nr mod %s->modulo)" % (sname, sname, sname)
        if m[2] != X.V("%s->modulo" % sname) or len(fnk) != 1 or co != {fnk[0]: 1, "%s->frame_nr" % sname: -1}:
            if m[2] == X.V("%s->modulo" % sname) and len(fnk) == 1 and set(co) == {fnk[0], "%s->frame_nr" % sname}:
                L.ob("C11.R3", F_FW, fname, key, canon, X.show(t), False, tu.line(call))
                return
            raise AnalysisError("%s(): trigger condition `%s` is outside the recognised normal forms; unclassifiable" % (
                fname, X.show(t)[:100]))
        A = c
        # the C type the difference is computed in
        exprs = [trig[0][0]]
        seen = set()
        k = 0
        while k < len(exprs):
            for x in walk(exprs[k]):
                if kind(x) == "DeclRefExpr" and loc.is_local(x) and not loc.is_param(x):
                    sd = loc.single(x)
                    if sd is not None and pure(sd[0]) and id(sd[0]) not in seen:
                        seen.add(id(sd[0]))
                        exprs.append(sd[0])
            k += 1
        mods = [x for e in exprs for x in walk(e) if kind(x) == "BinaryOperator" and x.get("opcode") == "%" and
                rtext(loc, kids(x)[1]) == "%s->modulo" % sname]
        if len(mods) != 1:
            raise AnalysisError("%s(): cannot locate the remainder operation of the trigger; unclassifiable" % fname)
        lt = strip(kids(mods[0])[0]).get("type", {}).get("qualType", "")
        bits = {"unsigned int": 32, "uint32_t": 32, "unsigned long": 32, "uint16_t": 16, "unsigned short": 16,
                "unsigned long long": 64, "uint64_t": 64}.get(lt)
        if bits is None and lt not in ("int", "long", "int32_t", "long long", "int64_t"):
            raise AnalysisError("%s(): trigger difference is computed in type `%s`; cannot model it" % (fname, lt))
        witness = None
        if bits is not None:
            W = 1 << bits
            for task in sorted(FW.tasks, key=lambda q: FW.tasks[q]):
                _, rows = FW.task_rows(task)
                for i, r in enumerate(rows or []):
                    mo = r["modulo"]
                    if mo < 1 or W % mo == 0:
                        continue
                    for fn0 in range(0, max(0, r["frame_nr"] - A)):
                        got = ((fn0 + A - r["frame_nr"]) % W) % mo == 0
                        true = (fn0 + A) % mo == r["frame_nr"] % mo
                        if got != true:
                            witness = ("%s row %d (frame_nr %d, modulo %d) at fn %d: fn+%d-frame_nr < 0 wraps to %d (%s, 2^%d mod %d = %d): "
                                       "set %s although (fn+%d) mod %d %s frame_nr mod %d" % (
                                           task, i, r["frame_nr"], mo, fn0, A, (fn0 + A - r["frame_nr"]) % W, lt, bits, mo, W % mo,
                                           "queued" if got else "not queued", A, mo, "!=" if got else "==", mo))
                            break
                    if witness:
                        break
                if witness:
                    break
        L.ob("C11.R3", F_FW, fname, key, canon.replace("+ A", "+ %d" % A),
             X.show(t) if witness is None else "unsigned wrap in the folded difference: %s" % witness, witness is None, tu.line(call))
    else:
        A = trigger_by_rows(L, FW, tu, fname, loc, sid, sname, trig[0], t, key, call)
    args = call_args(call)
    if len(args) != 3:
        raise AnalysisError("tdma_schedule_set call has %d arguments" % len(args))
    D = tu.fold(args[0])
    if D is None:
        raise AnalysisError("%s(): frame offset of tdma_schedule_set is not a constant" % fname)
    L.ob("C11.R3", F_FW, fname,
         "scheduling distance: look-ahead A of the trigger minus frame offset D of tdma_schedule_set equals the DSP command latency, so the first burst of the set falls into a frame == frame_nr (mod modulo)",
         {"A - D": latency}, {"A": A, "D": D, "A - D": A - D}, A - D == latency and D >= 0, tu.line(call))
    L.ob("C11.R3", F_FW, fname, "the scheduled item set is the row's sched_set",
         "%s->sched_set" % sname, rtext(loc, args[1]), rtext(loc, args[1]) == "%s->sched_set" % sname, tu.line(call))


def term_mentions(t, pred):
    if not isinstance(t, tuple):
        return False
    if t and t[0] == "v":
        return pred(t[1])
    return any(term_mentions(x, pred) for x in t[1:])


def trigger_by_rows(L, FW, tu, fname, loc, sid, sname, trig, t, key, call):
    """C11.R3, clause `the frames in which the firmware starts a block are the frames == frame_nr (mod
    modulo)`, for a trigger that is NOT written as a comparison of two remainders: the condition must
    have the normal form  ((fn + A) mod <row>->modulo) == R  with R free of the frame number.  Its truth
    is then a function of ((fn + A) mod modulo, row), so it is decided exactly by evaluating the
    condition (checker's own evaluator, C conversions applied) for every row of every task table up to
    its terminator and every fn of one full period 0..modulo-1, and comparing the set of frames in which
    the row's set is queued with the reference set {fn : (fn + A) mod modulo == frame_nr mod modulo}.
    Returns the look-ahead A."""
    def is_fn(name):
        return name.endswith("current_time.fn")
    A = None
    if t[0] == "cmp" and t[1] == "==":
        for a, b in ((t[2], t[3]), (t[3], t[2])):
            if a[0] == "mod" and (a[2] == X.V("%s->modulo" % sname) or (X.is_c(a[2]) and a[2][1] >= 1)) and \
                    not term_mentions(b, is_fn):
                co, c = X.linear(a[1])
                if len(co) == 1 and list(co.values()) == [1] and is_fn(list(co)[0]):
                    A = c
                    break
    if A is None:
        raise AnalysisError("%s(): trigger condition `%s` is not a comparison of a frame-number remainder with "
                            "a value of the row; unclassifiable" % (fname, X.show(t)[:100]))
    if not 0 <= A < (1 << 16):
        raise AnalysisError("%s(): look-ahead %d of the trigger: fn + A may wrap; cannot model it" % (fname, A))
    # the remainder operation: fn enters the condition only through its left operand, which must be
    # computed without a narrowing conversion (then (fn + A) is exact for every fn of the hyperframe)
    cond, lab = trig
    exprs = [cond]
    seen = set()
    k = 0
    while k < len(exprs):
        for x in walk(exprs[k]):
            if kind(x) == "DeclRefExpr" and loc.is_local(x) and not loc.is_param(x) and Locals._ref(x) != sid:
                sd = loc.single(x)
                if sd is None or not pure(sd[0]):
                    raise AnalysisError("%s(): local `%s` of the trigger condition is not a single pure definition" % (
                        fname, ctext(x)))
                if id(sd[0]) not in seen:
                    seen.add(id(sd[0]))
                    exprs.append(sd[0])
        k += 1

    def fn_dep(e):
        for x in walk(e):
            if kind(x) == "MemberExpr" and is_fn(ctext(x)):
                return True
            if kind(x) == "DeclRefExpr" and loc.is_local(x) and not loc.is_param(x):
                sd = loc.single(x)
                if sd is not None and fn_dep(sd[0]):
                    return True
        return False
    mods = [x for e in exprs for x in walk(e) if kind(x) == "BinaryOperator" and x.get("opcode") == "%" and
            fn_dep(kids(x)[0])]
    if len(mods) != 1 or fn_dep(kids(mods[0])[1]):
        raise AnalysisError("%s(): cannot locate the remainder operation of the trigger; unclassifiable" % fname)
    div_is_modulo = rtext(loc, kids(mods[0])[1]) == "%s->modulo" % sname
    div_const = tu.fold(kids(mods[0])[1])
    if not div_is_modulo and (div_const is None or div_const < 1):
        raise AnalysisError("%s(): the frame number is reduced modulo `%s`; unclassifiable" % (fname, ctext(kids(mods[0])[1])[:40]))
    for x in walk(kids(mods[0])[0]):
        if kind(x) in ("ImplicitCastExpr", "CStyleCastExpr") and x.get("castKind") == "IntegralCast" and fn_dep(x):
            bt = int_type(tu, x.get("type"))
            if bt is None or bt[0] < 32:
                raise AnalysisError("%s(): the frame number is converted to `%s` before the remainder; cannot model it" % (
                    fname, x.get("type", {}).get("qualType")))
    bad = []
    nrows = 0
    for task in sorted(FW.tasks, key=lambda q: FW.tasks[q]):
        tab, rows = FW.task_rows(task)
        for i, r in enumerate(rows or []):
            mo = r["modulo"]
            if mo < 1:
                continue      # reported by r3_fw_tables
            nrows += 1
            cur = [0]

            def leaf(n, r=r, cur=cur):
                kk = kind(n)
                if kk == "MemberExpr":
                    tx = rtext(loc, n)
                    if tx == "%s->frame_nr" % sname:
                        return r["frame_nr"]
                    if tx == "%s->modulo" % sname:
                        return r["modulo"]
                    if tx == "%s->flags" % sname:
                        return r["flags"]
                    if is_fn(ctext(n)):
                        return cur[0]
                    raise AnalysisError("%s(): trigger condition reads `%s`; outside the evaluator's model" % (fname, tx[:60]))
                if kk == "DeclRefExpr" and loc.is_local(n) and not loc.is_param(n) and Locals._ref(n) != sid:
                    return ceval(tu, loc.single(n)[0], leaf)
                return _NOTHING
            # the condition is a function of (fn + A) mod <divisor> and the row: one period of the divisor
            # (joined with the row's modulo for the comparison) is exhaustive
            span = mo if div_is_modulo else lcm(mo, div_const)
            if span > 200000:
                raise AnalysisError("%s(): period %d of the trigger condition is too long to enumerate" % (fname, span))
            fired = set()
            for fn0 in range(span):
                cur[0] = fn0
                if truth(ceval(tu, cond, leaf)) == bool(lab):
                    fired.add(fn0)
            ref = {fn0 for fn0 in range(span) if (fn0 + A) % mo == r["frame_nr"] % mo}
            if fired != ref and len(bad) < 4:
                bad.append("%s row %d of %s (frame_nr %d, modulo %d): set queued in fn mod %d = %s, required %s" % (
                    task, i, tab["name"], r["frame_nr"], mo, span, fmt_set(fired), fmt_set(ref)))
    L.floor("C11.R3", "table rows the trigger is evaluated on", nrows, 128)
    L.ob("C11.R3", F_FW, fname, key,
         "for every row: queued exactly in the frames with (fn + %d) mod modulo == frame_nr mod modulo" % A,
         "; ".join(bad) if bad else "for every row: queued exactly in the frames with (fn + %d) mod modulo == frame_nr mod modulo" % A,
         not bad, tu.line(call))
    return A


# ------------------------------- R3: exact execution of mframe_schedule_set

class _Probe:
    """Records the obligations / floors of a rule group instead of filing them (the group's verdict is
    inspected before it is committed to the ledger)."""

    def __init__(self, L):
        self.repo = L.repo
        self.rec = []

    def ob(self, *a, **kw):
        self.rec.append(("ob", a, kw))

    def require(self, *a, **kw):
        self.rec.append(("require", a, kw))

    def floor(self, *a, **kw):
        self.rec.append(("floor", a, kw))

    def fn(self, *a, **kw):
        self.rec.append(("fn", a, kw))

    def unit(self, *a, **kw):
        self.rec.append(("unit", a, kw))

    def failed(self):
        out = []
        for m, a, kw in self.rec:
            if m == "ob" and not a[6]:
                out.append(a)
            elif m == "require" and a[4] != a[5]:
                out.append(a)
            elif m == "floor" and a[2] < a[3]:
                out.append(a)
        return out

    def replay(self, L):
        for m, a, kw in self.rec:
            getattr(L, m)(*a, **kw)


# abstract-concrete values of the executor: (v, dep)
#   v    int | pointer / memory tuple | None (value the model does not know)
#   dep  how v depends on the frame number fn the function is executed for:
#        0 not at all | p > 0 a function of fn mod p | ("L", c) exactly fn + c | "R" in an unmodelled way
XUNK = (None, 0)
FN_SUFFIX = "current_time.fn"
SET_CALL = "tdma_schedule_set"
# struct gsm_time of libosmocore (gsm_fn2gsmtime / l1s_time_inc keep it consistent): T2 = FN mod 26,
# T3 = FN mod 51, TC = (FN div 51) mod 8 -- (member path suffix, period in FN, value as a function of FN).
# T1 = FN div 1326 has the period of the whole hyperframe and stays outside the model.
GSM_TIME_FIELDS = (
    ("current_time.t2", 26, lambda fn: fn % 26),
    ("current_time.t3", 51, lambda fn: fn % 51),
    ("current_time.tc", 8 * 51, lambda fn: (fn // 51) % 8),
)


def _dep_join(a, b):
    if isinstance(a, int) and isinstance(b, int):
        if a == 0:
            return b
        if b == 0:
            return a
        return lcm(a, b)
    return "R"


class FwExec:
    """Exact execution of the firmware function that queues the tdma_sched sets of one multiframe task,
    for ONE task and ONE frame number: the statement CFG is walked with concrete values (C integer
    conversions applied), the const tables are read from the extracted initialisers, functions with a
    visible body are entered, `tdma_schedule_set` records (frame offset, item set).  Every value carries
    how it depends on the frame number (not / periodically / linearly / otherwise), so that one period
    of executions is a proof for every frame number: only periodic values may decide a branch.  A branch
    the model cannot decide (it reads memory outside the model, e.g. l1s.mframe_sched.safe_fn) is
    passed over: the locals assigned before the branches join again become unknown, and no set may be
    queued in between -- statements that cannot influence which set is queued are irrelevant whatever
    they look like."""

    MAX_STEPS = 40000
    LIN_BOUND = 1 << 20

    def __init__(self, FW, entry):
        self.FW = FW
        self.tu = FW.tu
        self.entry = entry
        self.fn = 0
        self.low = 0            # below this frame number a linear value wraps in its C type
        self.pused = 1          # lcm of the periods of the values that decided something
        self.calls = []
        self.steps = 0
        self._cfg = {}
        self._fold = {}
        self._ity = {}
        self._simple = {}
        self._havoc = {}
        self.tables = {}        # name -> rows (incl. terminator / filler rows)
        self.time_fields = set()  # fields of l1s.current_time besides fn that were read

    # ---- static facts
    def cfg(self, name):
        r = self._cfg.get(name)
        if r is None:
            tu = self.tu
            f = tu.func(name)
            g = CCFG(tu, f)
            volatile = set()
            for n in walk(tu.body(f)):
                k = kind(n)
                tgt = None
                if k == "BinaryOperator" and n.get("opcode") == "=":
                    tgt = kids(n)[0]
                elif k == "CompoundAssignOperator":
                    tgt = kids(n)[0]
                elif k == "UnaryOperator" and n.get("opcode") in ("++", "--"):
                    tgt = kids(n)[0]
                elif k == "UnaryOperator" and n.get("opcode") == "&":
                    i = Locals._ref(kids(n)[0])
                    if i is not None:
                        volatile.add(i)
                elif k == "VarDecl" and n.get("storageClass") == "static":
                    volatile.add(n.get("id"))
                elif k in ("StmtExpr", "GCCAsmStmt", "AsmStmt"):
                    raise AnalysisError("%s(): %s; outside the execution model" % (name, k))
                if tgt is not None and Locals._ref(tgt) is None:
                    t = strip(tgt)
                    txt = ctext(t)
                    bad = "current_time" in txt or "sched_set_for_task" in txt
                    for x in walk(t):
                        if "mframe_sched_item" in x.get("type", {}).get("qualType", ""):
                            bad = True
                    if kind(t) == "UnaryOperator" and t.get("opcode") == "*":
                        bad = True      # store through a pointer: the model cannot tell where to
                    if bad:
                        raise AnalysisError("%s(): store to `%s`; outside the execution model" % (name, txt[:50]))
            params = tu.fparams(f)
            r = self._cfg[name] = (f, g, volatile, params, {})
        return r

    def visible(self, name):
        f = self.tu.functions.get(name)
        return f is not None and any(kind(c) == "CompoundStmt" for c in kids(f))

    def ity(self, n):
        r = self._ity.get(id(n), _NOTHING)
        if r is _NOTHING:
            r = self._ity[id(n)] = int_type(self.tu, n.get("type"))
        return r

    def wrap(self, n, v):
        bt = self.ity(n)
        if bt is None:
            return v
        bits, signed = bt
        if bits == 1:
            return int(v != 0)
        v &= (1 << bits) - 1
        if signed and v >= 1 << (bits - 1):
            v -= 1 << bits
        return v

    def rows(self, name):
        r = self.tables.get(name)
        if r is None:
            r = self.tables[name] = self.FW.table(name)["rows"]
        return r

    def is_table(self, name):
        v = self.tu.vars.get(name)
        qt = v.get("type", {}).get("qualType", "") if v else ""
        return "struct mframe_sched_item" in qt and "*" not in qt and array_extent(qt) is not None

    # ---- expressions
    def field(self, tname, idx, fld, n):
        rows = self.rows(tname)
        if not 0 <= idx < len(rows):
            raise AnalysisError("%s(): row %d of %s is read, outside the table (%d rows incl. terminator)" % (
                self.entry, idx, tname, len(rows)))
        r = rows[idx]
        if fld == "sched_set":
            return ((("set", r["set"]), 0) if r["set"] is not None else (0, 0))
        if fld in ("modulo", "frame_nr", "flags"):
            return (r[fld], 0)
        raise AnalysisError("%s(): field %s of a table row is read; outside the execution model" % (self.entry, fld))

    def rvalue(self, val, n):
        """value of an lvalue of the global memory"""
        v = val[0]
        if isinstance(v, tuple) and v[0] == "mem":
            if v[1].endswith(FN_SUFFIX):
                return (self.fn, ("L", 0))
            for suf, per, fun in GSM_TIME_FIELDS:
                # the other fields of the same struct gsm_time: periodic functions of its fn (ASSUMPTIONS)
                if v[1].endswith(suf):
                    self.time_fields.add(suf.rsplit(".", 1)[1])
                    return (self.wrap(n, fun(self.fn)), per)
            ty = n.get("type", {})
            if any(re.sub(r"\b(const|volatile)\b", "", ty.get(q, "")).strip().startswith(("struct ", "union "))
                   for q in ("qualType", "desugaredQualType")):
                return val      # a struct copied as a whole: still the same memory (stores to it are rejected)
            if self.is_table(v[1]):
                return (("row", v[1], 0), 0)
            return XUNK
        return val

    def assign(self, tgt, val, fr):
        i = Locals._ref(tgt)
        if i is not None and i in fr["ids"]:
            fr["v"][i] = val if i not in fr["volatile"] else XUNK

    def read_local(self, n, fr):
        i = Locals._ref(n)
        if i is None or i not in fr["ids"]:
            return None
        if i in fr["volatile"]:
            return XUNK
        v = fr["v"].get(i)
        if v is None:
            return XUNK         # declared without an initialiser
        return v

    def simple(self, n):
        """no assignment / call inside"""
        r = self._simple.get(id(n))
        if r is None:
            r = self._simple[id(n)] = pure(n)
        return r

    def ev(self, n, fr):
        k = n.get("kind")
        ks = [c for c in n.get("inner", ()) if c]
        if k in ("ParenExpr", "ConstantExpr") and ks:
            return self.ev(ks[0], fr)
        if k in ("IntegerLiteral", "CharacterLiteral", "UnaryExprOrTypeTraitExpr"):
            c = self._fold.get(id(n), _NOTHING)
            if c is _NOTHING:
                c = self._fold[id(n)] = self.tu.fold(n)
            return (c, 0) if c is not None else XUNK
        if k in ("ImplicitCastExpr", "CStyleCastExpr") and ks:
            a = self.ev(ks[0], fr)
            ck = n.get("castKind")
            if ck == "LValueToRValue":
                return self.rvalue(a, n)
            if ck == "ArrayToPointerDecay":
                v = a[0]
                if isinstance(v, tuple) and v[0] == "mem" and self.is_table(v[1]):
                    return (("row", v[1], 0), 0)
                return a if isinstance(v, tuple) else XUNK
            if a[0] is None:
                return XUNK
            if ck in ("NoOp", "BitCast", "NullToPointer", "FunctionToPointerDecay"):
                return a
            if isinstance(a[0], tuple):
                if ck == "PointerToBoolean":
                    return (1, a[1])
                if ck in ("ToVoid",):
                    return XUNK
                return a
            if ck == "IntegralCast":
                v = self.wrap(n, a[0])
                d = a[1]
                if isinstance(d, tuple):
                    bt = self.ity(n)
                    if bt is None or bt[0] < 32:
                        d = "R"
                return (v, d)
            if ck in ("IntegralToBoolean", "PointerToBoolean"):
                return (int(a[0] != 0), a[1] if isinstance(a[1], int) else "R")
            if ck == "ToVoid":
                return XUNK
            if ck in ("IntegralToPointer", "PointerToIntegral"):
                return a if a[0] == 0 else XUNK
            return XUNK
        if k == "DeclRefExpr":
            rd = n.get("referencedDecl", {})
            rk = rd.get("kind")
            if rk == "EnumConstantDecl":
                v = self.tu.enums.get(rd.get("name"))
                return (v, 0) if v is not None else XUNK
            if rk in ("VarDecl", "ParmVarDecl"):
                r = self.read_local(n, fr)
                if r is not None:
                    return r
                v = self.tu.by_id.get(rd.get("id"))
                if v is not None and "const" in v.get("type", {}).get("qualType", "") and \
                        int_type(self.tu, v.get("type")) is not None:
                    c = self.tu.fold(n)
                    if c is not None:
                        return (c, 0)
                return (("mem", rd.get("name")), 0)
            return XUNK
        if k == "MemberExpr" and ks:
            b = self.ev(ks[0], fr)
            v = b[0]
            if isinstance(v, tuple):
                if v[0] == "row" and n.get("isArrow"):
                    f = self.field(v[1], v[2], n.get("name"), n)
                    return (f[0], _dep_join(f[1], b[1]))
                if v[0] == "rowv" and not n.get("isArrow"):
                    f = self.field(v[1], v[2], n.get("name"), n)
                    return (f[0], _dep_join(f[1], b[1]))
                if v[0] == "mem" and not n.get("isArrow"):
                    return (("mem", "%s.%s" % (v[1], n.get("name"))), b[1])
                if v[0] == "ptr" and n.get("isArrow"):
                    return (("mem", "%s.%s" % (v[1], n.get("name"))), b[1])
            return XUNK
        if k == "ArraySubscriptExpr" and len(ks) == 2:
            b, i = self.ev(ks[0], fr), self.ev(ks[1], fr)
            if isinstance(b[0], int) and isinstance(i[0], tuple):
                b, i = i, b
            v = b[0]
            if isinstance(v, tuple) and isinstance(i[0], int):
                d = _dep_join(b[1], i[1])
                if v[0] == "mem" and v[1] == "sched_set_for_task":
                    FW = self.FW
                    if not 0 <= i[0] < (FW.map_dim or 0):
                        raise AnalysisError("%s(): sched_set_for_task[%d] is read, outside the array" % (self.entry, i[0]))
                    nm = FW.task_table[i[0]] if i[0] < len(FW.task_table) else None
                    return ((("row", nm, 0), d) if nm is not None else (0, d))
                if v[0] == "row":
                    return (("rowv", v[1], v[2] + i[0]), d)
            return XUNK
        if k == "UnaryOperator" and ks:
            op = n.get("opcode")
            if op in ("++", "--"):
                old = self.ev(ks[0], fr)
                i = Locals._ref(ks[0])
                if i is None or i not in fr["ids"]:
                    return XUNK
                dlt = 1 if op == "++" else -1
                if old[0] is None:
                    new = XUNK
                elif isinstance(old[0], tuple):
                    new = ((("row", old[0][1], old[0][2] + dlt), old[1]) if old[0][0] == "row" else XUNK)
                else:
                    new = self.arith("+", old, (dlt, 0), ks[0])
                self.assign(ks[0], new, fr)
                return old if n.get("isPostfix") else new
            a = self.ev(ks[0], fr)
            v = a[0]
            if op == "&":
                if isinstance(v, tuple) and v[0] == "mem":
                    return (("ptr", v[1]), a[1])
                if isinstance(v, tuple) and v[0] == "rowv":
                    return (("row", v[1], v[2]), a[1])
                return XUNK
            if op == "*":
                if isinstance(v, tuple) and v[0] == "row":
                    return (("rowv", v[1], v[2]), a[1])
                if isinstance(v, tuple) and v[0] == "ptr":
                    return (("mem", v[1]), a[1])
                return XUNK
            if v is None:
                return XUNK
            d = a[1] if isinstance(a[1], int) else "R"
            if isinstance(v, tuple):
                return (0, d) if op == "!" else XUNK
            if op == "-":
                return (self.wrap(n, -v), d)
            if op == "+":
                return (v, a[1])
            if op == "~":
                return (self.wrap(n, ~v), d)
            if op == "!":
                return (int(not v), d)
            return XUNK
        if k == "BinaryOperator" and len(ks) == 2:
            op = n.get("opcode")
            l, r = ks
            if op == "=":
                val = self.ev(r, fr)
                if Locals._ref(l) is None:
                    self.ev(l, fr)      # side effects of the target expression only
                self.assign(l, val, fr)
                return val
            if op == ",":
                self.ev(l, fr)
                return self.ev(r, fr)
            if op in ("&&", "||"):
                a = self.ev(l, fr)
                if a[0] is None or not isinstance(a[1], int):
                    if not self.simple(r):
                        raise AnalysisError("%s(): `%s` is evaluated under a condition the model cannot decide (%s)" % (
                            self.entry, ctext(r)[:50], ctext(l)[:50]))
                    b = self.ev(r, fr)
                    if b[0] is not None and isinstance(b[1], int) and truth(b[0]) == (op == "||"):
                        return (int(op == "||"), b[1])
                    return XUNK
                if truth(a[0]) == (op == "||"):
                    return (int(op == "||"), a[1])
                b = self.ev(r, fr)
                if b[0] is None:
                    return XUNK
                return (int(truth(b[0])), _dep_join(a[1], b[1]))
            if op == "/" and kind(strip(l)) == kind(strip(r)) == "UnaryExprOrTypeTraitExpr":
                # ARRAY_SIZE(): folded as a whole (the element size alone need not be known)
                c = self._fold.get(id(n), _NOTHING)
                if c is _NOTHING:
                    c = self._fold[id(n)] = self.tu.fold(n)
                if c is not None:
                    return (c, 0)
            a, b = self.ev(l, fr), self.ev(r, fr)
            return self.arith(op, a, b, n)
        if k == "CompoundAssignOperator" and len(ks) == 2:
            l, r = ks
            old, b = self.ev(l, fr), self.ev(r, fr)
            i = Locals._ref(l)
            if i is None or i not in fr["ids"]:
                return XUNK
            op = n.get("opcode")[:-1]
            if isinstance(old[0], tuple):
                if old[0][0] == "row" and isinstance(b[0], int) and op in ("+", "-"):
                    new = (("row", old[0][1], old[0][2] + (b[0] if op == "+" else -b[0])), _dep_join(old[1], b[1]))
                else:
                    new = XUNK
            else:
                # computed in computeResultType, stored in the variable's type
                crt = n.get("computeResultType") or n.get("type")
                new = self.arith(op, old, b, {"type": crt})
                if new[0] is not None and not isinstance(new[0], tuple):
                    v2 = cwrap(self.tu, new[0], n.get("type"))
                    d2 = new[1]
                    bt = int_type(self.tu, n.get("type"))
                    if isinstance(d2, tuple) and (bt is None or bt[0] < 32):
                        d2 = "R"
                    new = (v2, d2)
            self.assign(l, new, fr)
            return new
        if k == "ConditionalOperator" and len(ks) == 3:
            c = self.ev(ks[0], fr)
            if c[0] is None or not isinstance(c[1], int):
                if not (self.simple(ks[1]) and self.simple(ks[2])):
                    raise AnalysisError("%s(): `%s` has side effects under a condition the model cannot decide" % (
                        self.entry, ctext(n)[:50]))
                x, y = self.ev(ks[1], fr), self.ev(ks[2], fr)
                if x == y and x[0] is not None and isinstance(x[1], int):
                    return x
                return XUNK
            x = self.ev(ks[1] if truth(c[0]) else ks[2], fr)
            if x[0] is None:
                return XUNK
            if isinstance(x[1], int):
                return (x[0], _dep_join(c[1], x[1]))
            return (x[0], x[1] if c[1] == 0 else "R")
        if k == "CallExpr" and ks:
            return self.call(n, ks, fr)
        if k in ("StmtExpr",):
            raise AnalysisError("%s(): statement expression; outside the execution model" % self.entry)
        # anything else: side effects of the operands, value unknown
        for c in ks:
            if isinstance(c, dict) and not self.simple(c):
                self.ev(c, fr)
        return XUNK

    def arith(self, op, a, b, n):
        va, vb = a[0], b[0]
        if va is None or vb is None:
            return XUNK
        da, db = a[1], b[1]
        if isinstance(va, tuple) or isinstance(vb, tuple):
            d = _dep_join(da, db)
            if op in ("==", "!="):
                eq = va == vb
                return (int(eq if op == "==" else not eq), d)
            if isinstance(va, tuple) and va[0] == "row":
                if isinstance(vb, int) and op in ("+", "-"):
                    return (("row", va[1], va[2] + (vb if op == "+" else -vb)), d)
                if isinstance(vb, tuple) and vb[0] == "row" and vb[1] == va[1]:
                    if op == "-":
                        return (va[2] - vb[2], d)
                    if op in ("<", ">", "<=", ">="):
                        return (_arith(op, va[2], vb[2]), d)
            if isinstance(vb, tuple) and vb[0] == "row" and isinstance(va, int) and op == "+":
                return (("row", vb[1], vb[2] + va), d)
            return XUNK
        try:
            v = _arith(op, va, vb)
        except (ZeroDivisionError, ValueError, OverflowError):
            raise AnalysisError("%s(): undefined arithmetic in `%s` (%s %s %s)" % (
                self.entry, ctext(n)[:50] if "kind" in n else op, va, op, vb))
        if op in ("<<",) and vb > 64:
            raise AnalysisError("%s(): shift by %d" % (self.entry, vb))
        cmpop = op in ("<", ">", "<=", ">=", "==", "!=")
        if not cmpop:
            v = self.wrap(n, v) if "kind" in n else cwrap(self.tu, v, n.get("type"))
        # dependence on the frame number
        if isinstance(da, int) and isinstance(db, int):
            return (v, _dep_join(da, db))
        if not cmpop:
            if isinstance(da, tuple) and db == 0:
                if op == "+" and abs(da[1] + vb) <= self.LIN_BOUND:
                    return (v, ("L", da[1] + vb))
                if op == "-" and abs(da[1] - vb) <= self.LIN_BOUND:
                    return (v, ("L", da[1] - vb))
            if isinstance(db, tuple) and da == 0 and op == "+" and abs(db[1] + va) <= self.LIN_BOUND:
                return (v, ("L", db[1] + va))
            if op == "%" and isinstance(da, tuple) and isinstance(db, int) and vb > 0:
                bt = self.ity(n) if "kind" in n else int_type(self.tu, n.get("type"))
                if bt is not None and bt[0] >= 32:
                    # (fn + c) % d: a function of fn mod d once fn + c no longer wraps
                    if -da[1] > self.low:
                        self.low = -da[1]
                    return (v, lcm(vb, db or 1))
        return (v, "R")

    def call(self, n, ks, fr):
        callee = strip(ks[0])
        rd = callee.get("referencedDecl", {}) if kind(callee) == "DeclRefExpr" else {}
        name = rd.get("name") if rd.get("kind") == "FunctionDecl" else None
        args = [self.ev(a, fr) for a in ks[1:]]
        if name is None:
            raise AnalysisError("%s(): indirect call `%s`; outside the execution model" % (self.entry, ctext(n)[:50]))
        if name == SET_CALL:
            if len(args) != 3:
                raise AnalysisError("%s call has %d arguments" % (SET_CALL, len(args)))
            D, S = args[0], args[1]
            if not isinstance(D[0], int) or D[1] != 0:
                raise AnalysisError("%s(): frame offset `%s` of %s is not a frame-number independent integer" % (
                    self.entry, ctext(ks[1])[:40], SET_CALL))
            if not (isinstance(S[0], tuple) and S[0][0] == "set") or not isinstance(S[1], int):
                raise AnalysisError("%s(): cannot identify the item set `%s` handed to %s" % (
                    self.entry, ctext(ks[2])[:40], SET_CALL))
            self.pused = lcm(self.pused, S[1] or 1)
            self.calls.append((D[0], S[0][1]))
            return XUNK
        if self.visible(name):
            if fr["depth"] >= 4:
                raise AnalysisError("%s(): calls nested too deeply at %s()" % (self.entry, name))
            return self.run(name, args, fr["depth"] + 1)
        return XUNK

    # ---- statements
    def havoc_info(self, fname, g, node, cache):
        r = cache.get(node.id)
        if r is not None:
            return r
        pd = cache.get("pdom")
        if pd is None:
            pd = cache["pdom"] = postdominators(g)
        stop = pd[node.id] - {node.id}
        seen, todo = {}, [s for s, _ in node.succ]
        conts = {}
        while todo:
            x = todo.pop()
            if x.id in seen:
                continue
            if x.id in stop:
                # the first strict postdominator met on any path is the immediate postdominator
                conts[x.id] = x
                continue
            seen[x.id] = x
            todo.extend(s for s, _ in x.succ)
        if len(conts) != 1:
            raise AnalysisError("%s(): a condition the model cannot decide has no unique join point" % fname)
        cont = list(conts.values())[0]
        assigned, danger = set(), None
        for x in seen.values():
            host = x.cond if x.kind in ("cond", "switch") else x.ast
            if host is None or kind(host) == "DoHead":
                continue
            for y in walk(host):
                ky = kind(y)
                if ky == "VarDecl":
                    assigned.add(y.get("id"))
                elif (ky == "BinaryOperator" and y.get("opcode") == "=") or ky == "CompoundAssignOperator" or \
                        (ky == "UnaryOperator" and y.get("opcode") in ("++", "--")):
                    i = Locals._ref(kids(y)[0])
                    if i is not None:
                        assigned.add(i)
                elif ky == "CallExpr":
                    c = strip(kids(y)[0])
                    nm = c.get("referencedDecl", {}).get("name") if kind(c) == "DeclRefExpr" else None
                    if nm is None or nm == SET_CALL or self.visible(nm):
                        danger = danger or ("%s()" % nm if nm else "an indirect call")
        r = cache[node.id] = (assigned, danger, cont)
        return r

    def run(self, fname, args, depth=0):
        f, g, volatile, params, cache = self.cfg(fname)
        if len(args) != len(params):
            raise AnalysisError("%s() is called with %d arguments" % (fname, len(args)))
        fr = {"v": {}, "ids": None, "volatile": volatile, "depth": depth}
        ids = cache.get("ids")
        if ids is None:
            ids = cache["ids"] = {p["id"] for p in params} | {x["id"] for x in walk(self.tu.body(f)) if kind(x) == "VarDecl"}
        fr["ids"] = ids
        for p, a in zip(params, args):
            fr["v"][p["id"]] = a
        node = g.entry
        while True:
            self.steps += 1
            if self.steps > self.MAX_STEPS:
                raise AnalysisError("%s(): the execution does not terminate within %d steps (frame number %d)" % (
                    self.entry, self.MAX_STEPS, self.fn))
            if node is g.exit:
                return XUNK
            k = node.kind
            if k == "stmt":
                a = node.ast
                ak = a.get("kind")
                if ak == "ReturnStmt":
                    ks = kids(a)
                    return self.ev(ks[0], fr) if ks else XUNK
                if ak == "DeclStmt":
                    for vd in kids(a):
                        if kind(vd) != "VarDecl":
                            continue
                        init = [c for c in kids(vd) if "Comment" not in (kind(c) or "") and not (kind(c) or "").endswith("Attr")]
                        if vd.get("storageClass") == "static":
                            continue
                        fr["v"][vd["id"]] = self.ev(init[0], fr) if init else None
                elif ak in ("BreakStmt", "ContinueStmt", "GotoStmt", "DoHead", "NullStmt"):
                    pass
                else:
                    self.ev(a, fr)
            elif k in ("cond", "switch"):
                c = getattr(node, "cond", None)
                if c is not None and not c.get("kind"):
                    c = None        # `for (;;)`: clang prints an empty node for the absent condition
                v = (1, 0) if c is None else self.ev(c, fr)
                if v[0] is None or not isinstance(v[1], int) or (k == "switch" and not isinstance(v[0], int)):
                    assigned, danger, cont = self.havoc_info(fname, g, node, cache)
                    if danger is not None:
                        raise AnalysisError(
                            "%s(): %s is called under the condition `%s`, which the execution model cannot decide "
                            "as a periodic function of the frame number; cannot tell in which frames the sets are queued" % (
                                fname, danger, ctext(c)[:60] if c is not None else "?"))
                    for i in assigned:
                        if i in fr["ids"]:
                            fr["v"][i] = XUNK
                    node = cont
                    continue
                self.pused = lcm(self.pused, v[1] or 1)
                if k == "cond":
                    t = truth(v[0])
                    nxt = [s for s, l in node.succ if bool(l) == t]
                else:
                    nxt = [s for s, l in node.succ if isinstance(l, tuple) and l[1] == v[0]] or \
                          [s for s, l in node.succ if l in ("default", "nodefault")]
                if len(nxt) != 1:
                    raise AnalysisError("%s(): CFG branch without a unique successor" % fname)
                node = nxt[0]
                continue
            if len(node.succ) != 1:
                if not node.succ:
                    return XUNK
                raise AnalysisError("%s(): CFG node with %d successors" % (fname, len(node.succ)))
            node = node.succ[0][0]

    def execute(self, task_val, fn):
        self.fn = fn
        self.calls = []
        self.steps = 0
        self.run(self.entry, [(task_val, 0)])
        return self.calls


def r3_trigger_exec(L, FW, latency, why):
    """C11.R3, clause `the frames in which the firmware starts a block are exactly the frames ==
    frame_nr (mod modulo) of the task's rows`, decided by executing mframe_schedule_set itself (FwExec)
    for every task that has a table and every frame number of one full period of the task (the lcm of
    its rows' moduli and of every period a deciding value had; preceded by the frame numbers below
    which a linear value wraps): the set queued in frame fn with frame offset D starts its first burst
    in frame fn + D + <DSP latency>.  Per task and item set, the multiset of start frames (mod the
    period) must equal the multiset {f : f == frame_nr (mod modulo)} over the rows with that set up
    to the terminator."""
    tu = FW.tu
    fname = "mframe_schedule_set"
    tu.func(fname)
    L.fn(F_FW, fname)
    ps = tu.fparams(tu.func(fname))
    if len(ps) != 1:
        raise AnalysisError("%s() signature changed" % fname)
    X_ = FwExec(FW, fname)
    bad = []
    negD = set()
    ntasks = nrows = nexec = 0
    for task in sorted(FW.tasks, key=lambda q: FW.tasks[q]):
        tab, rows = FW.task_rows(task)
        if tab is None or any(r["modulo"] < 1 for r in rows):
            continue          # reported by r3_fw_tables
        ntasks += 1
        nrows += len(rows)
        S = 1
        for r in rows:
            S = lcm(S, r["modulo"])
        for _round in range(5):
            X_.low, X_.pused = 0, 1
            obs = []
            lo, span = 0, S
            fn0 = 0
            while fn0 < lo + span:
                obs.append(X_.execute(FW.tasks[task], fn0))
                nexec += 1
                fn0 += 1
                lo = X_.low
                if lo + span > 400000:
                    raise AnalysisError("%s(): too many frame numbers to execute for %s" % (fname, task))
            if S % X_.pused == 0:
                break
            S = lcm(S, X_.pused)
        else:
            raise AnalysisError("%s(): the period of %s does not settle" % (fname, task))
        low = X_.low
        want = {}
        for r in rows:
            c = want.setdefault(r["set"], Counter())
            for f in range(r["frame_nr"] % r["modulo"], S, r["modulo"]):
                c[f] += 1
        got = {}
        for fn0 in range(low, low + S):
            for D, sname in obs[fn0]:
                if D < 0:
                    negD.add(D)
                got.setdefault(sname, Counter())[(fn0 + D + latency) % S] += 1
        for sname in sorted(set(want) | set(got)):
            w, g_ = want.get(sname, Counter()), got.get(sname, Counter())
            if w != g_ and len(bad) < 4:
                ws, gs = set(w), set(g_)
                dup = sorted(f for f, c in g_.items() if c != w.get(f, c))
                bad.append("%s (%s): first burst of %s in frames mod %d = %s, required %s%s" % (
                    task, tab["name"], sname, S, fmt_set(gs), fmt_set(ws),
                    "" if ws != gs else "; queued %s times for frame %d" % (g_[dup[0]], dup[0])))
        # frame numbers below `low` (a linear value wraps there): decided one by one
        Dset = {D for o in obs[low:] for D, _ in o}
        if low and len(Dset) > 1:
            raise AnalysisError("%s(): the frame offset handed to %s varies (%s) and an intermediate value wraps for "
                                "fn < %d; cannot tell" % (fname, SET_CALL, sorted(Dset), low))
        for fn0 in range(0, low if Dset else 0):
            D0 = list(Dset)[0]
            g1 = sorted(((fn0 + D + latency), sname) for D, sname in obs[fn0])
            w1 = sorted((fn0 + D0 + latency, r["set"]) for r in rows
                        if (fn0 + D0 + latency) % r["modulo"] == r["frame_nr"] % r["modulo"])
            if g1 != w1 and len(bad) < 4:
                bad.append("%s (%s) at fn %d: sets starting %s are queued, required %s (an intermediate value wraps "
                           "in its C type for fn < %d)" % (task, tab["name"], fn0, g1[:4], w1[:4], low))
    L.floor("C11.R3", "firmware tasks mframe_schedule_set is executed for", ntasks, 28)
    L.floor("C11.R3", "table rows the trigger is evaluated on", nrows, 128)
    ref = "equal frame sets for all %d tasks" % ntasks
    L.ob("C11.R3", F_FW, fname,
         "trigger and scheduling distance (function executed for every task and every frame of a full period): a set queued "
         "at fn with frame offset D starts its first burst in fn + D + <DSP latency>; per task and item set these frames are "
         "exactly the frames == frame_nr (mod modulo) of the task's rows with that set, each once",
         ref, "; ".join(bad) if bad else ref, not bad, tu.line(tu.func(fname)),
         note=("shape analysis: %s" % why[:200] if why else "") + (
             "; l1s.current_time.{%s} read as periodic functions of l1s.current_time.fn (T2 = FN mod 26, T3 = FN mod 51, "
             "TC = (FN div 51) mod 8)" % ",".join(sorted(X_.time_fields)) if X_.time_fields else "") or None)
    L.ob("C11.R3", F_FW, fname, "frame offset D of tdma_schedule_set is never negative", [], sorted(negD), not negD,
         tu.line(tu.func(fname)))
    return nexec


def r3_trigger(L, FW, latency):
    """C11.R3 for mframe_schedule_set.  Fast path: loop shape + normal form of the trigger condition
    (r3_trigger_shape).  When that path does not end in `holds` -- a construct it does not recognise or a
    shape obligation that fails -- the verdict is taken from the exact execution of the function
    (r3_trigger_exec), which does not depend on how the code is written; only if the execution model
    cannot run the function either there is no verdict."""
    P = _Probe(L)
    err = None
    try:
        r3_trigger_shape(P, FW, latency)
    except AnalysisError as e:
        err = e
    failed = P.failed()
    if err is None and not failed:
        P.replay(L)
        return
    if err is not None:
        why = str(err)
    elif len(failed[0]) >= 7:
        why = "`%s`: found %s" % (failed[0][3], failed[0][5])
    else:
        why = "floor `%s`: found %s" % (failed[0][1], failed[0][2])
    try:
        r3_trigger_exec(L, FW, latency, why)
    except AnalysisError as e2:
        raise AnalysisError("%s [the shape analysis of mframe_schedule_set ended with: %s]" % (e2, why[:300]))


# =============================== R5: channel number -> firmware task selection

class _TUOnly:
    """what FwExec needs of a translation unit without multiframe tables"""

    def __init__(self, tu):
        self.tu = tu
        self.tasks = {}
        self.map_dim = 0
        self.task_table = []

    def table(self, name):
        raise AnalysisError("%s: table %s is read; outside the execution model" % (self.tu.rel, name))


def chan_nr_reference(C, cbits, tn):
    """reference task list of (cbits, tn) in spec/chan_nr_tasks.json, None if the reference leaves the
    channel number open"""
    hit = None
    for e in C.get("entries", []):
        tns = list(range(8)) if e.get("tn", "all") == "all" else e["tn"]
        if cbits in e["cbits"] and tn in tns:
            if hit is not None:
                raise AnalysisError("spec/chan_nr_tasks.json: two entries for cbits 0x%02x tn %d" % (cbits, tn))
            hit = e
    return hit


def r5_chan_nr_tasks(L, FW, M, C, tu):
    """C11.R5, first clause (`the frames in which the firmware starts a block of a logical channel are
    the frames trxcon's layout gives to that channel`), link channel -> task: the firmware runs, for a
    dedicated channel requested by its RSL channel number, the multiframe tasks whose bits
    chan_nr2mf_task_mask() sets; R3/R4 compare the frames of task X with the trxcon channel X is mapped
    to, so the property only holds if the mask selects, for every channel number, exactly the mapped
    task(s) of that channel.  The function is executed by the checker's own interpreter (C integer
    conversions applied, enumerators resolved by clang for this translation unit) for all 256 channel
    number octets x every neighbour mode a call site passes; restricted to the tasks that
    spec/mframe_map.json maps to a trxcon logical channel, the selected set must equal the reference
    spec/chan_nr_tasks.json (channel numbers the reference leaves open are not constrained)."""
    fname = C.get("function", "chan_nr2mf_task_mask")
    f = tu.func(fname)
    L.fn(F_L23, fname)
    ps = tu.fparams(f)
    if len(ps) != 2:
        raise AnalysisError("%s() signature changed (%d parameters)" % (fname, len(ps)))
    tasks = {k: v for k, v in tu.enums.items() if tu.enum_of.get(k) == "mframe_task"}
    if tasks != FW.tasks:
        raise AnalysisError("enum mframe_task differs between layer1/l23_api.c and layer1/mframe_sched.c")
    byval = {}
    for k, v in tasks.items():
        if not k.startswith("_"):
            byval.setdefault(v, []).append(k)
    mapped = {k for k in M.get("tasks", {}) if not k.startswith("_")}
    for e in C.get("entries", []):
        for t in e["tasks"]:
            if t not in tasks:
                raise AnalysisError("spec/chan_nr_tasks.json names %s, which is not an enumerator of enum mframe_task any more" % t)
            if t not in mapped:
                raise AnalysisError("spec/chan_nr_tasks.json names %s, which spec/mframe_map.json does not map to a trxcon channel" % t)
    # neighbour modes: the second argument of every call (the function is only ever called directly)
    modes = set()
    ncalls = 0
    callee_ids = set()
    roots = [(oname, tu.body(of)) for oname, of in body_funcs(tu)] + \
            [(vn, v) for vn, v in sorted(tu.vars.items()) if in_main_file(tu, v)]
    for oname, root in roots:
        for c in calls_to(root, fname):
            ncalls += 1
            callee_ids.add(id(strip(kids(c)[0])))
            a = call_args(c)
            v = tu.fold(a[1]) if len(a) == 2 else None
            if v is None:
                raise AnalysisError("%s(): %s is called with a neighbour mode that is not a constant" % (oname, fname))
            modes.add(v)
    for oname, root in roots:
        for n in walk(root):
            if kind(n) == "DeclRefExpr" and n.get("referencedDecl", {}).get("name") == fname and id(n) not in callee_ids:
                raise AnalysisError("%s: %s is used other than by a direct call; cannot enumerate its arguments" % (oname, fname))
    if f.get("storageClass") != "static":
        raise AnalysisError("%s() is not static any more: callers in other translation units are not enumerated" % fname)
    L.floor("C11.R5", "call sites of %s" % fname, ncalls, 1)
    X_ = FwExec(_TUOnly(tu), fname)
    nchk = nopen = 0
    table = {}
    for mode in sorted(modes):
        for chan_nr in range(256):
            X_.steps = 0
            X_.calls = []
            r = X_.run(fname, [(chan_nr, 0), (mode, 0)])
            if X_.calls:
                raise AnalysisError("%s() queues item sets; outside the model" % fname)
            if not isinstance(r[0], int) or r[1] != 0:
                raise AnalysisError("%s(0x%02x, %d): the returned mask is not a value the model can compute" % (fname, chan_nr, mode))
            mask = r[0]
            if mask < 0 or mask >> 32:
                raise AnalysisError("%s(0x%02x, %d) returns %d; not a 32 bit mask" % (fname, chan_nr, mode, mask))
            sel = []
            for bit in range(32):
                if mask >> bit & 1:
                    names = byval.get(bit)
                    if not names or len(names) != 1:
                        sel.append("bit %d (%s)" % (bit, "no task" if not names else "/".join(names)))
                    else:
                        sel.append(names[0])
            cbits, tn = chan_nr >> 3, chan_nr & 7
            table[(mode, cbits, tn)] = sel
            ref = chan_nr_reference(C, cbits, tn)
            if ref is None:
                nopen += 1
                continue
            nchk += 1
            got = sorted(t for t in sel if t in mapped or t not in tasks)
            want = sorted(ref["tasks"])
            L.ob("C11.R5", F_L23, fname,
                 "channel number cbits 0x%02x tn %d (%s), neighbour mode %d: the selected tasks that have a trxcon counterpart are the tasks of that channel" % (
                     cbits, tn, ref.get("channel", "?"), mode),
                 want, got, got == want, tu.line(f))
    L.floor("C11.R5", "(channel number, neighbour mode) pairs compared with the reference", nchk, 152)
    L.extra["chan_nr_tasks"] = {"compared": nchk, "left_open_by_the_reference": nopen, "neighbour_modes": sorted(modes)}
    return table


TASK2CHAN = "mframe_task2chan_nr"


def r5_task_chan_nr(L, FW, M, C):
    """C11.R5, first clause (`the frames in which the firmware starts a block of a logical channel are the
    frames trxcon's layout gives to THAT channel`), link task -> channel: the firmware names the channel of
    the frames a multiframe task schedules by mframe_task2chan_nr(task, timeslot) (the chan_nr of every data
    indication / traffic frame of the task's rows); R3/R4 compare the frames of task T with the trxcon
    channel T is mapped to, so the clause only holds if the helper names, for every task and whatever the
    timeslot, the channel whose number selects T (spec/chan_nr_tasks.json, the inverse of the relation the
    other half of R5 decides for chan_nr2mf_task_mask()).  The function is executed by the checker's own
    interpreter for EVERY task spec/mframe_map.json maps to a trxcon channel x EVERY timeslot 0..7 (not one
    timeslot: a sub-channel derived from the timeslot is only wrong for some of them): for a task the reference
    lists the result must be (cbits of the task's channel) << 3 | timeslot; a mapped task the reference
    leaves open (the CCCH tasks) must not be named by the channel number of a listed channel, whose trxcon
    layout gives that channel other frames.  Tasks without a trxcon counterpart are not constrained."""
    tu = FW.tu
    f = tu.func(TASK2CHAN)
    L.fn(F_FW, TASK2CHAN)
    ps = tu.fparams(f)
    if len(ps) != 2:
        raise AnalysisError("%s() signature changed (%d parameters)" % (TASK2CHAN, len(ps)))
    if "mframe_task" not in ps[0].get("type", {}).get("qualType", ""):
        raise AnalysisError("%s(): the first parameter is not an enum mframe_task any more" % TASK2CHAN)
    mapped = {k for k in M.get("tasks", {}) if not k.startswith("_")}
    ref = {}
    for e in C.get("entries", []):
        for t in e["tasks"]:
            if t not in FW.tasks:
                raise AnalysisError("spec/chan_nr_tasks.json names %s, which is not an enumerator of enum mframe_task any more" % t)
            ref.setdefault(t, set()).update(e["cbits"])
    listed = set().union(*ref.values()) if ref else set()
    X_ = FwExec(FW, TASK2CHAN)
    nchk = nfold = 0
    for t in sorted((k for k in FW.tasks if not k.startswith("_")), key=lambda k: (FW.tasks[k], k)):
        if t not in mapped:
            continue
        got = []
        for ts in range(8):
            X_.steps = 0
            X_.calls = []
            r = X_.run(TASK2CHAN, [(FW.tasks[t], 0), (ts, 0)])
            nfold += 1
            if X_.calls:
                raise AnalysisError("%s() queues item sets; outside the model" % TASK2CHAN)
            if not isinstance(r[0], int) or r[1] != 0 or not 0 <= r[0] <= 255:
                raise AnalysisError("%s(%s, %d): the returned channel number is not a value the model can compute" % (
                    TASK2CHAN, t, ts))
            got.append(r[0])
        nchk += 1
        if t in ref:
            if len(ref[t]) != 1:
                raise AnalysisError("spec/chan_nr_tasks.json lists %s under %d channel numbers" % (t, len(ref[t])))
            cb = min(ref[t])
            want = ["0x%02x" % (cb << 3 | ts) for ts in range(8)]
            found = ["0x%02x" % v for v in got]
            L.ob("C11.R5", F_FW, TASK2CHAN,
                 "task %s, timeslots 0..7: the channel number reported for the task's frames is (cbits 0x%02x of the "
                 "channel that selects the task) << 3 | timeslot, whatever the timeslot" % (t, cb),
                 want, found, want == found, tu.line(f))
        else:
            clash = sorted({"0x%02x" % (v >> 3) for v in got if v >> 3 in listed})
            L.ob("C11.R5", F_FW, TASK2CHAN,
                 "task %s (no dedicated channel number in the reference), timeslots 0..7: its frames are not "
                 "reported under the cbits of a channel that selects other tasks" % t,
                 [], clash, not clash, tu.line(f))
    L.floor("C11.R5", "mapped tasks whose channel number is folded for the 8 timeslots", nchk, 20)
    L.extra["task_chan_nr"] = {"tasks": nchk, "executions": nfold}


# ====================================================== R6: CCCH mode -> task set

M64 = (1 << 64) - 1
REQ_PATH = "<L1CTL request>"


def is_tern(v):
    return isinstance(v, tuple) and len(v) == 4 and v[0] == "tern"


def t_of(v):
    """("tern", zeros, ones, initial): a 64 bit vector each bit of which is known 0, known 1, the bit the
    task word had at the same position before the function ran, or (in none of the masks) unknown"""
    if isinstance(v, int) and not isinstance(v, bool):
        u = v & M64
        return ("tern", ~u & M64, u, 0)
    return v if is_tern(v) else None


def t_op(op, x, y):
    _, x0, x1, xi = x
    _, y0, y1, yi = y
    if op == "|":
        r1, r0 = x1 | y1, x0 & y0
        ri = ((xi & (y0 | yi)) | (yi & (x0 | xi))) & ~r1
    elif op == "&":
        r0, r1 = x0 | y0, x1 & y1
        ri = ((xi & (y1 | yi)) | (yi & (x1 | xi))) & ~r0
    else:
        k = (x0 | x1) & (y0 | y1)
        r1 = (x1 ^ y1) & k
        r0 = ~(x1 ^ y1) & k
        ri = (xi & y0) | (yi & x0)
    return ("tern", r0 & M64, r1 & M64, ri & M64)


def t_fit(tu, v, ty):
    """v (int or bit vector) converted to the C integer type ty; None when the model cannot tell"""
    if isinstance(v, int):
        return cwrap(tu, v, ty)
    bt = int_type(tu, ty)
    if bt is None or not is_tern(v):
        return None
    bits, signed = bt
    _, z, o, i = v
    if bits == 1:
        return 1 if o else (0 if z == M64 else None)
    mask = (1 << bits) - 1
    if signed and not z >> (bits - 1) & 1:
        return cwrap(tu, o & mask, ty) if (z | o) & mask == mask else None
    r = ("tern", (z & mask) | (M64 & ~mask), o & mask, i & mask)
    return r[2] if (r[1] | r[2]) == M64 else r


class TaskSetExec(FwExec):
    """Exact execution of a firmware function that changes the set of enabled multiframe tasks
    (l1s.mframe_sched.tasks_tgt through mframe_enable / mframe_disable / mframe_set / helpers), for ONE value of
    the request field that selects the set.  FwExec extended by (a) a store: values written to objects
    of the global memory are kept by access path and read back, in all translation units that take part
    (S["execs"]: a callee without a body here is entered in the unit that defines it); (b) the task
    word as a bit vector over {0, 1, initial bit, unknown}: the function is executed once for EVERY
    content of the word before the request, only `|`, `&`, `^`, `~` and integer conversions keep
    knowledge, a condition that depends on an unknown / initial bit gives no verdict; (c) the request
    field: the member S["input"] of the message payload (unmodelled memory) holds the value under test.
    A condition the model cannot decide may not guard stores to global memory or calls it would enter."""

    def __init__(self, FW, entry, S):
        FwExec.__init__(self, FW, entry)   # FW: Firmware (mframe_sched.c with its tables) or _TUOnly
        self.S = S
        S["execs"].append(self)

    @staticmethod
    def outside(e, fr):
        i = Locals._ref(e)
        return i is None or i not in fr["ids"]

    def store(self, tgt, val):
        v = tgt[0]
        if isinstance(v, tuple) and v[0] == "mem":
            mem, p = self.S["mem"], v[1]
            for k in [k for k in mem if k.startswith(p + ".") or p.startswith(k + ".")]:
                del mem[k]
            mem[p] = val if val[0] is not None and val[1] == 0 else XUNK
        # else: a store through a pointer the model does not know; assumed not to alias the modelled objects

    def rvalue(self, val, n):
        v = val[0]
        if isinstance(v, tuple) and v[0] == "mem" and v[1] in self.S["mem"]:
            return self.S["mem"][v[1]]
        return FwExec.rvalue(self, val, n)

    def ev(self, n, fr):
        k = n.get("kind")
        ks = [c for c in n.get("inner", ()) if c]
        if k == "BinaryOperator" and len(ks) == 2 and n.get("opcode") == "=" and self.outside(ks[0], fr):
            val = self.ev(ks[1], fr)
            self.store(self.ev(ks[0], fr), val)
            return val
        if k == "CompoundAssignOperator" and len(ks) == 2 and self.outside(ks[0], fr):
            tgt = self.ev(ks[0], fr)
            old, b = self.rvalue(tgt, ks[0]), self.ev(ks[1], fr)
            crt = n.get("computeResultType") or n.get("type")
            oc = t_fit(self.tu, old[0], crt) if old[0] is not None else None
            new = self.arith(n.get("opcode")[:-1], (oc, old[1]), b, {"type": crt}) if oc is not None else XUNK
            x = t_fit(self.tu, new[0], n.get("type")) if new[0] is not None else None
            new = (x, new[1]) if x is not None else XUNK
            self.store(tgt, new)
            return new
        if k == "UnaryOperator" and ks and n.get("opcode") in ("++", "--") and self.outside(ks[0], fr):
            self.store(self.ev(ks[0], fr), XUNK)
            return XUNK
        if k == "UnaryOperator" and ks and n.get("opcode") in ("~", "!"):
            a = self.ev(ks[0], fr)
            v, op = a[0], n.get("opcode")
            if v is None:
                return XUNK
            d = a[1] if isinstance(a[1], int) else "R"
            if is_tern(v):
                if op == "~":
                    x = t_fit(self.tu, ("tern", v[2], v[1], 0), n.get("type"))
                    return (x, d) if x is not None else XUNK
                return (0, d) if v[2] else XUNK
            if isinstance(v, tuple):
                return (0, d) if op == "!" else XUNK
            return (self.wrap(n, ~v), d) if op == "~" else (int(not v), d)
        if k in ("ImplicitCastExpr", "CStyleCastExpr") and ks:
            r = FwExec.ev(self, n, fr)
            if is_tern(r[0]):
                ck = n.get("castKind")
                if ck in ("LValueToRValue", "NoOp"):
                    return r
                if ck == "IntegralCast":
                    x = t_fit(self.tu, r[0], n.get("type"))
                    return (x, r[1]) if x is not None else XUNK
                if ck == "IntegralToBoolean" and r[0][2]:
                    return (1, r[1])
                return XUNK
            return r
        if k == "MemberExpr" and ks:
            r = FwExec.ev(self, n, fr)
            inp = self.S.get("input")
            if r[0] is None and inp and n.get("name") == inp[1] and \
                    re.search(r"\bstruct %s\b" % re.escape(inp[0]), ks[0].get("type", {}).get("qualType", "")):
                self.S["input_reads"] += 1
                return (("mem", "%s.%s" % (REQ_PATH, inp[1])), 0)
            return r
        return FwExec.ev(self, n, fr)

    def arith(self, op, a, b, n):
        if is_tern(a[0]) or is_tern(b[0]):
            x, y = t_of(a[0]), t_of(b[0])
            if x is None or y is None or a[1] != 0 or b[1] != 0 or op not in ("&", "|", "^"):
                return XUNK
            r = t_fit(self.tu, t_op(op, x, y), n.get("type"))
            return (r, 0) if r is not None else XUNK
        return FwExec.arith(self, op, a, b, n)

    def stateless(self, name, depth=0):
        """the function (body visible in one of the units) and everything visible it calls mention no
        object with static storage and make no indirect call: with arguments that do not point into the
        modelled memory it cannot read or change that memory, so it need not be entered"""
        memo = self.S.setdefault("stateless", {})
        if name in memo:
            return memo[name]
        memo[name] = True           # (a recursion is decided by its other members)
        X = next((p for p in self.S["execs"] if p.visible(name)), None)
        ok = True
        if X is not None and depth > 8:
            ok = False
        elif X is not None:
            f = X.tu.func(name)
            own = {p["id"] for p in X.tu.fparams(f)}
            for x in walk(X.tu.body(f)):
                if kind(x) == "VarDecl" and x.get("storageClass") != "static":
                    own.add(x.get("id"))
            for x in walk(X.tu.body(f)):
                kx = kind(x)
                if kx == "DeclRefExpr":
                    rd = x.get("referencedDecl", {})
                    if rd.get("kind") in ("VarDecl", "ParmVarDecl") and rd.get("id") not in own:
                        ok = False
                elif kx == "CallExpr":
                    c = strip(kids(x)[0])
                    rd = c.get("referencedDecl", {}) if kind(c) == "DeclRefExpr" else {}
                    if rd.get("kind") != "FunctionDecl":
                        ok = False
                    elif not self.stateless(rd.get("name"), depth + 1):
                        ok = False
                if not ok:
                    break
        memo[name] = ok
        return ok

    def call(self, n, ks, fr):
        callee = strip(ks[0])
        rd = callee.get("referencedDecl", {}) if kind(callee) == "DeclRefExpr" else {}
        name = rd.get("name") if rd.get("kind") == "FunctionDecl" else None
        X = next((p for p in [self] + self.S["execs"] if name is not None and p.visible(name)), None)
        if name == SET_CALL or name is None:
            return FwExec.call(self, n, ks, fr)
        args = [self.ev(a, fr) for a in ks[1:]]
        if X is None:
            # a function without a body anywhere: value unknown; what it is handed a pointer to, too
            for a in args:
                if isinstance(a[0], tuple) and a[0][0] in ("ptr", "mem"):
                    mem, p = self.S["mem"], a[0][1]
                    for k in [k for k in mem if k == p or k.startswith(p + ".") or p.startswith(k + ".")]:
                        del mem[k]
            return XUNK
        # a callee that cannot touch the modelled memory is executed for its value only: whatever stops
        # the model inside it leaves just that value unknown
        harmless = self.stateless(name) and not any(isinstance(a[0], tuple) and a[0][0] in ("ptr", "mem") for a in args)
        if fr["depth"] >= 4:
            if harmless:
                return XUNK
            raise AnalysisError("%s(): calls nested too deeply at %s()" % (self.entry, name))
        X.steps = self.steps
        try:
            r = X.run(name, args, fr["depth"] + 1)
        except AnalysisError:
            if not harmless:
                raise
            r, X.steps = XUNK, self.steps
        self.steps = X.steps
        return r

    def havoc_info(self, fname, g, node, cache):
        key = ("tse", node.id)
        r = cache.get(key)
        if r is not None:
            return r
        assigned, danger, cont = FwExec.havoc_info(self, fname, g, node, cache)
        if danger is None:
            ids = cache.get("ids") or set()
            seen, todo = {}, [s for s, _ in node.succ]
            while todo:
                x = todo.pop()
                if x.id in seen or x is cont:
                    continue
                seen[x.id] = x
                todo.extend(s for s, _ in x.succ)
            for x in seen.values():
                host = x.cond if x.kind in ("cond", "switch") else x.ast
                if host is None or not kind(host) or kind(host) == "DoHead":
                    continue
                for y in walk(host):
                    ky = kind(y)
                    if (ky == "BinaryOperator" and y.get("opcode") == "=") or ky == "CompoundAssignOperator" or \
                            (ky == "UnaryOperator" and y.get("opcode") in ("++", "--")):
                        t = strip(kids(y)[0])
                        i = Locals._ref(t)
                        base, direct = t, True
                        while kind(base) in ("MemberExpr", "ArraySubscriptExpr", "ImplicitCastExpr", "ParenExpr") and kids(base):
                            if base.get("isArrow") or base.get("castKind") == "LValueToRValue":
                                direct = False      # through a pointer: may point into the modelled memory
                            base = kids(base)[0]
                        bi = Locals._ref(base)
                        if (i is None or i not in ids) and not (direct and bi is not None and bi in ids):
                            danger = danger or "code storing to `%s`" % ctext(t)[:40]
        r = cache[key] = (assigned, danger, cont)
        return r


def r6_ccch_mode_tasks(L, FW, M, C, tu):
    """C11.R6, first clause (`the frames in which the firmware starts a block of a logical channel are
    exactly the frames trxcon's layout marks for that channel`), link CCCH mode -> task set: for CCCH
    plain / combined / combined with CBCH the firmware runs the multiframe tasks that
    l1ctl_rx_ccch_mode_req() leaves enabled, trxcon runs the layout of the combination that belongs to
    the same mode (spec/ccch_mode_tasks.json); R3/R4 compare the frames of task X with the layouts
    spec/mframe_map.json maps X to.  So the property only holds if, for every mode, the request leaves
    enabled the task(s) of the mode's channels that are mapped to the mode's combination, leaves
    disabled the tasks of the same channels mapped to other combinations only, and enables no other
    mapped task that does not belong to the combination.  The function (and the mframe_sched.c
    functions it calls) is executed by the checker's interpreter for each mode, for every content of the
    task word before the request at once (bit vector over 0 / 1 / unchanged / unknown)."""
    fname = C.get("function", "l1ctl_rx_ccch_mode_req")
    req = C.get("request", {})
    if not req.get("struct") or not req.get("member") or not C.get("modes"):
        raise AnalysisError("spec/ccch_mode_tasks.json: request / modes missing")
    f = tu.func(fname)
    L.fn(F_L23, fname)
    if len(tu.fparams(f)) != 1:
        raise AnalysisError("%s() signature changed (%d parameters)" % (fname, len(tu.fparams(f))))
    tasks = {k: v for k, v in tu.enums.items() if tu.enum_of.get(k) == "mframe_task"}
    if tasks != FW.tasks:
        raise AnalysisError("enum mframe_task differs between layer1/l23_api.c and layer1/mframe_sched.c")
    mapped = {k: v for k, v in M.get("tasks", {}).items() if not k.startswith("_")}
    for t in mapped:
        if t not in tasks or not 0 <= tasks[t] < 32:
            raise AnalysisError("spec/mframe_map.json names %s, which is not one of the 32 bits of the task word" % t)
    ncalls = sum(len(calls_to(tu.body(of), fname)) for _, of in body_funcs(tu))
    L.floor("C11.R6", "call sites of %s" % fname, ncalls, 1)
    # the word that holds the task set: what the `replace the set` primitive of mframe_sched.c writes
    S = {"mem": {}, "execs": [], "input": None, "input_reads": 0}
    X23, Xmf = TaskSetExec(_TUOnly(tu), fname, S), TaskSetExec(FW, fname, S)
    api = C.get("task_set_api", "mframe_set")
    probe = 0x5AC35A3C
    if not Xmf.visible(api) or len(FW.tu.fparams(FW.tu.func(api))) != 1:
        raise AnalysisError("%s(tasks) of layer1/mframe_sched.c vanished; cannot identify the task word" % api)
    Xmf.run(api, [(probe, 0)])
    words = sorted(p for p, v in S["mem"].items() if v == (probe, 0))
    if len(words) != 1:
        raise AnalysisError("%s() stores the task set to %s; cannot identify the task word" % (api, words or "nothing"))
    word = words[0]
    S["input"] = (req["struct"], req["member"])
    nmodes = 0
    for mname, ms in sorted(C["modes"].items()):
        if mname.startswith("_"):
            continue
        mval = tu.enums.get(mname)
        if mval is None:
            raise AnalysisError("spec/ccch_mode_tasks.json names %s, which is not an enumerator any more" % mname)
        cfg = ms["config"]
        if not any(tg.get("config") == cfg for sp in mapped.values() for tg in sp.get("targets", [])):
            raise AnalysisError("spec/ccch_mode_tasks.json: no task of spec/mframe_map.json is mapped to %s" % cfg)
        belongs = {t: any(tg.get("config") == cfg for tg in sp.get("targets", [])) for t, sp in mapped.items()}
        need = {}       # task -> (required state, channel)
        for ch in ms["channels"]:
            owners = [t for t, sp in mapped.items() if ch in (sp.get("plain"), sp.get("sacch"))]
            if not any(belongs[t] for t in owners):
                raise AnalysisError("spec/ccch_mode_tasks.json: no task maps %s in %s" % (ch, cfg))
            for t in owners:
                need[t] = ("enabled" if belongs[t] else "disabled", ch)
        S["mem"].clear()
        S["mem"][word] = (("tern", M64 & ~0xffffffff, 0, 0xffffffff), 0)
        S["mem"]["%s.%s" % (REQ_PATH, req["member"])] = (mval, 0)
        S["input_reads"] = 0
        X23.steps = Xmf.steps = 0
        X23.calls = []
        X23.run(fname, [XUNK])
        if X23.calls or Xmf.calls:
            raise AnalysisError("%s() queues item sets; outside the model" % fname)
        if not S["input_reads"]:
            raise AnalysisError("%s(): the execution never reads `%s` of struct %s; cannot tell which mode it acts on" % (
                fname, req["member"], req["struct"]))
        res = t_of(S["mem"].get(word, XUNK)[0])

        def state(t):
            if res is None:
                return "unknown"
            b = tasks[t]
            return "enabled" if res[2] >> b & 1 else "disabled" if res[1] >> b & 1 else \
                "left as it was before the request" if res[3] >> b & 1 else "unknown"
        unk = sorted(t for t in mapped if state(t) == "unknown")
        if unk:
            raise AnalysisError("%s(), mode %s: the execution model cannot tell what happens to the task bit(s) of %s" % (
                fname, mname, ", ".join(unk[:4])))
        nmodes += 1
        short = short_cfg(cfg)
        for t, (want, ch) in sorted(need.items(), key=lambda kv: tasks[kv[0]]):
            L.ob("C11.R6", F_L23, fname,
                 "L1CTL_CCCH_MODE_REQ(%s), trxcon combination %s: %s, which starts the %s blocks of %s, is %s after the request" % (
                     mname, short, t, ch.replace("L1SCHED_", ""),
                     "this combination" if want == "enabled" else "other combinations only", want),
                 want, state(t), state(t) == want, tu.line(f))
        stray = sorted(t for t in mapped if t not in need and state(t) == "enabled" and not belongs[t])
        L.ob("C11.R6", F_L23, fname,
             "L1CTL_CCCH_MODE_REQ(%s), trxcon combination %s: no further task is enabled whose frames were compared "
             "with other combinations only" % (mname, short), [], stray, not stray, tu.line(f))
    L.floor("C11.R6", "CCCH modes executed", nmodes, 3)
    L.extra["ccch_mode_tasks"] = {"modes": nmodes, "task_word": word}


# ====================================================== R4: cross-agreement

def load_spec(name):
    p = os.path.join(VERIF, "spec", name)
    try:
        with open(p) as f:
            return json.load(f)
    except (OSError, ValueError) as e:
        raise AnalysisError("cannot load reference table %s: %s" % (p, e))


def trx_frames(T, lay, lchan_val, d, first_only, span):
    rows = lay["table"]["rows"]
    n = len(rows)
    out = set()
    for f in range(span):
        ch, bid = rows[f % n][d]
        if ch == lchan_val and (not first_only or bid == 0):
            out.add(f)
    return out


def resolve_cfg(T, M, name):
    if name in T.cfg:
        return T.cfg[name]
    cv = M.get("config_values", {})
    if name in cv and isinstance(cv[name], int):
        T.extra_cfg[name] = cv[name]
        return cv[name]
    raise AnalysisError("reference table names unknown channel combination %s" % name)


def target_layouts(T, M, lookup, targets):
    """distinct layouts selected by l1sched_mframe_layout for the targets:
    list of (layout, config name, [tn...])"""
    out = []
    for tg in targets:
        cfg = resolve_cfg(T, M, tg["config"])
        tns = list(range(8)) if tg.get("tn") == "all" else list(tg.get("tn"))
        by = {}
        for tn in tns:
            lay = lookup.get((cfg, tn))
            if lay is None:
                # R2 already reported the invalid lookup; nothing to compare with
                continue
            by.setdefault(lay["idx"], (lay, []))[1].append(tn)
        for idx in sorted(by):
            out.append((by[idx][0], tg["config"], by[idx][1]))
    return out


def tnfmt(tns):
    return "tn " + ",".join(str(t) for t in tns)


def r4_cross(L, T, FW, lookup, M, complete):
    sets = {k: v for k, v in M.get("sched_sets", {}).items() if not k.startswith("_")}
    tasks = {k: v for k, v in M.get("tasks", {}).items() if not k.startswith("_")}
    unm = {k: v for k, v in M.get("unmapped_tasks", {}).items() if not k.startswith("_")}
    for t in FW.tasks:
        if t not in tasks and t not in unm:
            raise AnalysisError("firmware task %s is neither mapped nor listed as unmapped in spec/mframe_map.json" % t)
    for t in list(tasks) + list(unm):
        if t not in FW.tasks:
            raise AnalysisError("spec/mframe_map.json names %s, which is not an enumerator of enum mframe_task any more" % t)
    covered = set()       # (layout idx, lchan value, dir)
    nstream = 0
    for task in sorted(tasks, key=lambda k: FW.tasks[k]):
        spec = tasks[task]
        tab, rows = FW.task_rows(task)
        if tab is None:
            continue      # reported by R3
        streams = {}
        for i, r in enumerate(rows):
            s = sets.get(r["set"])
            if s is None:
                raise AnalysisError("%s row %d uses tdma_sched set %s, which spec/mframe_map.json does not describe" % (
                    task, i, r["set"]))
            if "ignore" in s:
                continue
            if r["modulo"] < 1:
                continue  # reported by R3
            cls = "sacch" if r["flags"] & FW.F_SACCH else "plain"
            for d in s["directions"]:
                st = streams.setdefault((cls, d), {"mode": s["mode"], "rows": []})
                if st["mode"] != s["mode"]:
                    raise AnalysisError("%s: rows of the %s %s stream mix block and frame-by-frame sets; unclassifiable" % (task, cls, d))
                st["rows"].append(r)
        tls = target_layouts(T, M, lookup, spec["targets"])
        for (cls, d), st in sorted(streams.items()):
            lname = spec.get(cls)
            if lname is None:
                L.ob("C11.R4", F_FW, tab["name"], "%s: %s rows (%s) have a trxcon counterpart in spec/mframe_map.json" % (
                    task, cls, d), "mapped logical channel", "none: the task has %s rows the map does not expect" % cls, False, tab["line"])
                continue
            if lname not in T.lchan:
                raise AnalysisError("spec/mframe_map.json names unknown logical channel %s" % lname)
            lv = T.lchan[lname]
            for lay, cfgname, tns in tls:
                nstream += 1
                span = lay["period"]
                for r in st["rows"]:
                    span = lcm(span, r["modulo"])
                fw = set()
                for r in st["rows"]:
                    fw |= set(range(r["frame_nr"] % r["modulo"], span, r["modulo"]))
                first = st["mode"] == "block"
                tx = trx_frames(T, lay, lv, d.lower(), first, span)
                covered.add((lay["idx"], lv, d))
                ok, found = cmp_sets(fw, tx, "firmware", "trxcon")
                what = "block starts" if first else "frames"
                L.ob("C11.R4", F_FW, tab["name"],
                     "%s %s %s %s (mod %d) == %s of %s %s in layout %s (%s)" % (
                         task, cls, d, what, span, "first-burst frames" if first else "frames",
                         lname.replace("L1SCHED_", ""), "downlink" if d == "DL" else "uplink",
                         short_cfg(cfgname), tnfmt(tns)),
                     "equal frame sets", found, ok, st["rows"][0]["line"])
        for cls in ("plain", "sacch"):
            if cls in spec and not any(k[0] == cls for k in streams):
                L.ob("C11.R4", F_FW, tab["name"], "%s: the task has %s rows for %s" % (task, cls, spec[cls]),
                     "at least one row", "none", False, tab["line"])
    if complete:
        L.floor("C11.R4", "(task, stream, layout) comparisons", nstream, 120)
    # every channel of a reachable layout is mapped or deliberately left out
    un_tr = M.get("unmapped_trxcon", [])
    reach = {}
    for (cfg, tn), lay in lookup.items():
        reach[lay["idx"]] = lay
    for idx, lay in sorted(reach.items()):
        for d in ("dl", "ul"):
            for ch in sorted({r[d][0] for r in lay["table"]["rows"]}):
                name = T.lname.get(ch)
                if name is None or (idx, ch, d.upper()) in covered:
                    continue
                if any(u.get("lchan") == name and u.get("direction", d.upper()) == d.upper() and
                       u.get("config", T.cfg_name(lay["cfg"])) == T.cfg_name(lay["cfg"]) for u in un_tr):
                    continue
                owners = [t for t, sp in tasks.items() if name in (sp.get("plain"), sp.get("sacch")) and
                          any(l["idx"] == idx for l, _, _ in target_layouts(T, M, lookup, sp["targets"]))]
                if not owners:
                    raise AnalysisError("trxcon channel %s (%s) of layout %s is neither the target of a mapped firmware task nor "
                                        "listed under unmapped_trxcon in spec/mframe_map.json" % (name, d.upper(), T.label(lay)))
                tx = trx_frames(T, lay, ch, d, False, lay["period"])
                for t in owners:
                    tab, _ = FW.task_rows(t)
                    cls = "plain" if tasks[t].get("plain") == name else "sacch"
                    L.ob("C11.R4", F_FW, tab["name"] if tab else "sched_set_for_task[]",
                         "%s has %s %s rows for %s, which layout %s schedules" % (
                             t, cls, d.upper(), name.replace("L1SCHED_", ""), T.label(lay)),
                         "rows triggering in %s" % fmt_set(tx), "no such row", False, tab["line"] if tab else None)


def r4_spec(L, T, lookup, M, S, complete):
    n = 0
    for e in S.get("entries", []):
        lname = e["lchan"]
        if lname not in T.lchan:
            raise AnalysisError("spec/ts45002_clause7.json names unknown logical channel %s" % lname)
        lv = T.lchan[lname]
        d = e["direction"]
        P = e["period"]
        tls = target_layouts(T, M, lookup, [{"config": c, "tn": e["tn"]} for c in e["configs"]])
        for lay, cfgname, tns in tls:
            n += 1
            rows = lay["table"]["rows"]
            span = lcm(P, lay["period"])
            where = "layout %s (%s)" % (short_cfg(cfgname), tnfmt(tns))
            eid = e["id"] if (" %s" % d) in e["id"] else "%s %s" % (e["id"], d)
            line = lay["table"]["line"]
            if "blocks" in e:
                own = set()
                starts = set()
                bad = []
                for b in e["blocks"]:
                    for rep in range(0, span, P):
                        starts.add(b[0] % P + rep)
                        for k, f in enumerate(b):
                            ff = f % P + rep
                            own.add(ff)
                            ch, bid = rows[ff % len(rows)][d.lower()]
                            if ch == lv and bid != k and len(bad) < 4:
                                bad.append("frame %d bid %d (burst %d of the block)" % (ff, bid, k))
                tx_all = trx_frames(T, lay, lv, d.lower(), False, span)
                tx_first = trx_frames(T, lay, lv, d.lower(), True, span)
                ok1, f1 = cmp_sets(own, tx_all, "TS 45.002", "trxcon")
                ok2, f2 = cmp_sets(starts, tx_first, "TS 45.002", "trxcon")
                L.ob("C11.R4", F_MF, lay["table"]["name"],
                     "TS 45.002 clause 7 table %s, %s: frames of the blocks (mod %d) == frames of %s in %s" % (
                         e["table"], eid, span, lname.replace("L1SCHED_", ""), where),
                     "equal frame sets", f1, ok1, line)
                L.ob("C11.R4", F_MF, lay["table"]["name"],
                     "TS 45.002 clause 7 table %s, %s: block starts (mod %d) == first-burst frames of %s in %s, bursts numbered in block order" % (
                         e["table"], eid, span, lname.replace("L1SCHED_", ""), where),
                     "equal frame sets, burst k has bid k", f2 if not bad or not ok2 else "; ".join(bad), ok2 and not bad, line)
            else:
                own = set()
                for f in e["frames"]:
                    own |= set(range(f % P, span, P))
                tx_all = trx_frames(T, lay, lv, d.lower(), False, span)
                ok1, f1 = cmp_sets(own, tx_all, "TS 45.002", "trxcon")
                L.ob("C11.R4", F_MF, lay["table"]["name"],
                     "TS 45.002 clause 7 table %s, %s: frames (mod %d) == frames of %s in %s" % (
                         e["table"], eid, span, lname.replace("L1SCHED_", ""), where),
                     "equal frame sets", f1, ok1, line)
    if complete:
        L.floor("C11.R4", "(clause 7 entry, layout) comparisons", n, 120)


# ========================================================= thorough tier

def tokens_of(path):
    with open(path, "r", encoding="utf-8", errors="replace") as f:
        src = strip_comments(f.read())
    src = re.sub(r'"(?:\\.|[^"\\])*"', '""', src)
    return src


def t_directory_scan(L, parsed):
    """Completeness premise of the per-TU rules: the trxcon files clang cannot
    parse here do not touch the layout tables at all."""
    root = os.path.join(L.repo, "src/host/trxcon")
    hits = {}
    nfiles = 0
    for dp, dn, fns in os.walk(root):
        for fn in sorted(fns):
            if not fn.endswith((".c", ".h")):
                continue
            rel = os.path.relpath(os.path.join(dp, fn), L.repo)
            if os.path.islink(os.path.join(dp, fn)) and not os.path.exists(os.path.join(dp, fn)):
                continue    # link into a directory outside the self-test's scratch copy
            nfiles += 1
            L.unit(rel)
            txt = tokens_of(os.path.join(dp, fn))
            for pat, what in ((r"(?:->|\.)\s*frames\b", "member access `frames`"),
                              (r"\bl1sched_configure_ts\b", "l1sched_configure_ts"),
                              (r"\bl1sched_mframe_layout\b", "l1sched_mframe_layout"),
                              (r"\blayouts\b", "layouts[]")):
                if re.search(pat, txt):
                    hits.setdefault(what, set()).add(rel)
    L.floor("C11.R1", "trxcon source files scanned", nfiles, 20)
    for what, files in sorted(hits.items()):
        for rel in sorted(files):
            if rel.endswith(".h"):
                if what.startswith("l1sched_"):
                    continue    # prototype
                raise AnalysisError("header %s contains code touching %s; cannot tell" % (rel, what))
            if rel not in parsed:
                raise AnalysisError("%s mentions %s but is not one of the analysed translation units; cannot tell" % (rel, what))
            L.ob("C11.R1", rel, "-", "%s is used only in analysed translation units" % what,
                 "analysed", "analysed", True)


def returns_set(tu, fname):
    f = tu.func(fname)
    vals = set()
    for n in walk(tu.body(f)):
        if kind(n) == "ReturnStmt":
            v = tu.fold(kids(n)[0]) if kids(n) else None
            if v is None:
                raise AnalysisError("%s(): return value `%s` is not a constant" % (fname, ctext(kids(n)[0]) if kids(n) else ""))
            vals.add(v)
    if not vals:
        raise AnalysisError("%s() has no return" % fname)
    return vals


class ValueSets:
    def __init__(self, L, tus):
        self.L = L
        self.tus = tus      # rel -> TU

    def func_tu(self, name):
        for tu in self.tus.values():
            f = tu.functions.get(name)
            if f is not None and any(kind(c) == "CompoundStmt" for c in kids(f)):
                return tu
        raise AnalysisError("no analysed translation unit defines %s()" % name)

    def of_expr(self, tu, f, g, loc, e, at, depth=0):
        """set of possible values of expression e evaluated at CFG node `at`"""
        e = strip(e, casts=True)
        if depth > 6:
            raise AnalysisError("value-set recursion too deep")
        v = tu.fold(e)
        if v is not None:
            return {v}
        k = kind(e)
        if k == "CallExpr":
            callee = strip(kids(e)[0])
            if kind(callee) == "DeclRefExpr":
                nm = callee.get("referencedDecl", {}).get("name")
                return returns_set(self.func_tu(nm), nm)
            raise AnalysisError("indirect call in a channel combination value")
        if k == "DeclRefExpr" and loc.is_local(e) and not loc.is_param(e):
            s = loc.single(e)
            if s is None:
                raise AnalysisError("%s: local `%s` has %s definitions; cannot bound its value" % (f.get("name"), ctext(e), loc.ndefs(e)))
            if not g.dominates(g.node_of(s[1]), at):
                raise AnalysisError("definition of `%s` does not dominate its use" % ctext(e))
            vals = self.of_expr(tu, f, g, loc, s[0], g.node_of(s[1]), depth + 1)
            # refine by guards `CONST == var` that hold / fail on every path to `at`
            for t, p in g.guard_lits(at):
                m = re.fullmatch(r"(-?\d+) == (\w+)", t)
                if m and m.group(2) == ctext(e):
                    c = int(m.group(1))
                    vals = (vals & {c}) if p else (vals - {c})
            return vals
        if k == "MemberExpr":
            base = strip(kids(e)[0], casts=True)
            bt = base.get("type", {}).get("qualType", "")
            m = re.search(r"struct (\w+)", bt)
            if not m:
                raise AnalysisError("cannot bound `%s`" % ctext(e))
            return self.of_field(tu, f, g, m.group(1), e.get("name"), at)
        raise AnalysisError("%s: cannot bound the channel combination `%s`" % (f.get("name"), ctext(e)[:60]))

    def of_field(self, tu, f, g, sname, field, at):
        """value set of <struct sname>.field as received by an FSM action:
        the struct is the `data` of an event; collect every dispatch of the
        event(s) under which `at` executes and the initialisers of the
        dispatched variable."""
        evs = set()
        for t, p in g.guard_lits(at):
            m = re.fullmatch(r"event == (-?\d+)", t)
            if m and p:
                evs.add(int(m.group(1)))
        if len(evs) != 1:
            raise AnalysisError("%s(): cannot tell under which FSM event `%s.%s` is read" % (f.get("name"), sname, field))
        ev = evs.pop()
        vals = set()
        nsrc = 0
        for rel, xtu in sorted(self.tus.items()):
            for fname, xf in body_funcs(xtu):
                for c in calls_to(xtu.body(xf), "osmo_fsm_inst_dispatch"):
                    a = call_args(c)
                    if len(a) != 3 or xtu.fold(a[1]) != ev:
                        if len(a) == 3 and xtu.fold(a[1]) is None:
                            raise AnalysisError("%s(): osmo_fsm_inst_dispatch with a non-constant event" % fname)
                        continue
                    d = strip(a[2], casts=True)
                    if not (kind(d) == "UnaryOperator" and d.get("opcode") == "&" and kind(strip(kids(d)[0])) == "DeclRefExpr"):
                        raise AnalysisError("%s(): event %d is dispatched with data `%s`; cannot bound %s" % (fname, ev, ctext(d)[:40], field))
                    ref = strip(kids(d)[0])
                    xloc = Locals(xtu, xf)
                    vd = xloc.decl.get(Locals._ref(ref))
                    if vd is None or ("struct %s" % sname) not in vd.get("type", {}).get("qualType", ""):
                        raise AnalysisError("%s(): event %d is dispatched with a %s, expected struct %s" % (
                            fname, ev, vd.get("type", {}).get("qualType") if vd else "?", sname))
                    nsrc += 1
                    xg = CCFG(xtu, xf)
                    flds = [n for n, _ in xtu.record_fields(sname)]
                    il = [x for x in kids(vd) if kind(x) == "InitListExpr"]
                    if il:
                        fe = kids(il[0])[flds.index(field)]
                        if kind(strip(fe)) == "ImplicitValueInitExpr":
                            vals |= {0}
                        else:
                            vals |= self.of_expr(xtu, xf, xg, xloc, fe, xg.node_of(vd), 1)
                    elif kids(vd):
                        raise AnalysisError("%s(): `%s` is initialised by an expression; cannot bound %s" % (fname, ctext(ref), field))
                    # later stores to var.field
                    nst = 0
                    for n in walk(xtu.body(xf)):
                        if kind(n) == "BinaryOperator" and n.get("opcode") == "=":
                            lhs = strip(kids(n)[0])
                            if kind(lhs) == "MemberExpr" and lhs.get("name") == field and \
                                    Locals._ref(kids(lhs)[0]) == vd["id"]:
                                nst += 1
                                vals |= self.of_expr(xtu, xf, xg, xloc, kids(n)[1], xg.node_of(n), 1)
                    if not il and not nst:
                        raise AnalysisError("%s(): `%s.%s` is never set before the dispatch" % (fname, ctext(ref), field))
        if nsrc == 0:
            raise AnalysisError("no dispatch of FSM event %d found in the analysed translation units" % ev)
        return vals


def t_configure_callers(L, T, lookup, tus):
    """No call site of l1sched_configure_ts can pass a combination whose
    lookup is not total/valid (in particular GSM_PCHAN_NONE, period 0)."""
    VS = ValueSets(L, tus)
    good = {cfg for (cfg, tn) in lookup}
    good = {c for c in good if all((c, tn) in lookup for tn in range(8))}
    n = 0
    for rel, tu in sorted(tus.items()):
        for fname, f in body_funcs(tu):
            cs = calls_to(tu.body(f), "l1sched_configure_ts")
            if not cs:
                continue
            L.fn(rel, fname)
            g = CCFG(tu, f)
            loc = Locals(tu, f)
            for c in cs:
                n += 1
                a = call_args(c)
                if len(a) != 3:
                    raise AnalysisError("l1sched_configure_ts call with %d arguments" % len(a))
                vals = VS.of_expr(tu, f, g, loc, a[2], g.node_of(c))
                names = sorted(short_cfg(T.cfg_name(v)) for v in vals)
                badv = sorted(short_cfg(T.cfg_name(v)) for v in vals if v not in good)
                L.ob("C11.R1", rel, fname,
                     "l1sched_configure_ts(.., %s): every possible combination has a total, valid layout lookup with period >= 1 (never %s)" % (
                         ctext(a[2])[:50], short_cfg(NONE_CFG)),
                     "subset of %s" % sorted(short_cfg(T.cfg_name(v)) for v in good),
                     names if not badv else {"possible": names, "invalid": badv}, not badv and bool(vals), tu.line(c))
    L.floor("C11.R1", "l1sched_configure_ts call sites", n, 4)


# =================================================================== R7: lchan type <-> channel number

F_DESC = "src/host/trxcon/src/sched_lchan_desc.c"
# libosmocore constants the analysis headers lack; they only size burst buffers (not read by this rule)
DESC_DEFINES = ("GSM_NBITS_NB_GMSK_PAYLOAD=116", "GSM_NBITS_NB_8PSK_PAYLOAD=348")
LID_SACCH = 0x40          # RSL / L1CTL link identifier: bit 6 set = SACCH


class LchanDesc:
    """l1sched_lchan_desc[]: per lchan type the folded (chan_nr, link_id), converted to the fields' types"""

    def __init__(self, L, T):
        self.tu = tu = TU(L.repo, "trxcon", "src/sched_lchan_desc.c", defines=DESC_DEFINES, L=L)
        fields = tu.record_fields("l1sched_lchan_desc")
        names = [n for n, _ in fields]
        for need in ("chan_nr", "link_id"):
            if need not in names:
                raise AnalysisError("struct l1sched_lchan_desc lost field %s" % need)
        v = tu.var("l1sched_lchan_desc")
        qt = v.get("type", {}).get("qualType", "")
        if "struct l1sched_lchan_desc" not in qt or "const" not in qt:
            raise AnalysisError("l1sched_lchan_desc[] is not a const array of struct l1sched_lchan_desc (%s)" % qt)
        es, filler = elems(initlist(v, "l1sched_lchan_desc"))
        if filler or len(es) != T.chan_max or array_extent(qt) != T.chan_max:
            raise AnalysisError("l1sched_lchan_desc[]: %d initialisers%s for %d lchan types; positions not recoverable" % (
                len(es), " (sparse)" if filler else "", T.chan_max))
        self.line = tu.line(v)
        self.rows = {}
        for i, e in enumerate(es):
            e = strip(e)
            if kind(e) == "ImplicitValueInitExpr":
                self.rows[i] = {"chan_nr": 0, "link_id": 0, "line": self.line}
                continue
            if kind(e) != "InitListExpr" or len(kids(e)) != len(fields):
                raise AnalysisError("l1sched_lchan_desc[%d] has an unexpected shape" % i)
            r = {"line": tu.line(e)}
            for f in ("chan_nr", "link_id"):
                x = as_int(tu.init_value(kids(e)[names.index(f)]), "l1sched_lchan_desc[%d].%s" % (i, f))
                r[f] = cwrap(tu, x, dict(fields)[f])
            self.rows[i] = r


def desc_readers(tu):
    """functions of the TU that read .chan_nr of a struct l1sched_lchan_desc"""
    out = set()
    for fname, f in body_funcs(tu):
        for n in walk(tu.body(f)):
            if kind(n) == "MemberExpr" and n.get("name") == "chan_nr" and \
                    "l1sched_lchan_desc" in strip(kids(n)[0]).get("type", {}).get("qualType", ""):
                out.add(fname)
    return out


def r7_lchan_identity(L, T, D, lookup, M, C, tu_trx):
    """C11.R7 -- decides the first clause ("the frames in which the firmware starts a block of a channel are
    exactly the frames the trxcon layout gives to THAT channel") for the step that says which channel an lchan
    type of a layout is.  trxcon knows a channel only by l1sched_lchan_desc[type].chan_nr / .link_id:
    l1sched_set_lchans() activates the lchans of a timeslot whose chan_nr equals the assigned channel number
    without its timeslot bits, l1sched_find_lchan_by_chan_nr() routes uplink data by (chan_nr, link_id) and data
    indications carry `chan_nr | tn` and link_id.  The firmware side of the same relation is C11.R5 (channel
    number -> task) and spec/mframe_map.json (task rows without / with MF_F_SACCH <-> lchan type), whose frame
    sets C11.R4 compares.  So for every lchan type X a mapped task T is compared with: X.chan_nr == cbits << 3
    for the channel number cbits that selects T, X.link_id has the SACCH bit iff X stands for T's SACCH rows,
    and in every layout the lookup selects for T no other lchan of the layout's mask carries X's (chan_nr,
    link_id) -- otherwise the frames the layout gives to that lchan belong, in trxcon, to X's channel too
    while the firmware starts no block of that channel there (or X's frames belong to no / another channel)."""
    if not (desc_readers(tu_trx) & {"l1sched_set_lchans", "l1sched_find_lchan_by_chan_nr"}):
        raise AnalysisError("neither l1sched_set_lchans() nor l1sched_find_lchan_by_chan_nr() reads l1sched_lchan_desc[].chan_nr "
                            "any more; how trxcon ties lchan types to channel numbers is outside the model of C11.R7")
    tasks = {k: v for k, v in M.get("tasks", {}).items() if not k.startswith("_")}
    want = {}         # lchan name -> {"cb": set, "cls": set, "tasks": [...]}
    per_task = {}     # task -> {cbits: [tn...]}
    for task, spec in tasks.items():
        cbs = {}
        for cb in range(32):
            for tn in range(8):
                ref = chan_nr_reference(C, cb, tn)
                if ref is not None and task in ref["tasks"]:
                    cbs.setdefault(cb, []).append(tn)
        per_task[task] = cbs
        if not cbs:
            continue      # selected by L1CTL_CCCH_MODE_REQ, not by a channel number (C11.R6)
        for cls in ("plain", "sacch"):
            if cls in spec:
                if spec[cls] not in T.lchan:
                    raise AnalysisError("spec/mframe_map.json names unknown logical channel %s" % spec[cls])
                w = want.setdefault(spec[cls], {"cb": set(), "cls": set(), "tasks": []})
                w["cb"] |= set(cbs)
                w["cls"].add(cls)
                w["tasks"].append(task)
    good = set()
    for lname in sorted(want, key=lambda k: T.lchan[k]):
        w = want[lname]
        if len(w["cb"]) != 1 or len(w["cls"]) != 1:
            raise AnalysisError("reference tables give %s more than one channel number / role: %s" % (lname, sorted(w["tasks"])))
        cb, cls = min(w["cb"]), min(w["cls"])
        r = D.rows[T.lchan[lname]]
        short = lname.replace("L1SCHED_", "")
        who = "%s rows of %s" % ("SACCH" if cls == "sacch" else "non-SACCH", "/".join(sorted(w["tasks"])))
        L.ob("C11.R7", F_DESC, "l1sched_lchan_desc[]",
             "[%s].chan_nr is the channel number (without timeslot) that selects the firmware task whose frames "
             "are compared with this lchan (%s)" % (short, who),
             "0x%02x" % (cb << 3), "0x%02x" % r["chan_nr"], r["chan_nr"] == cb << 3, r["line"])
        sacch = bool(r["link_id"] & LID_SACCH)
        L.ob("C11.R7", F_DESC, "l1sched_lchan_desc[]",
             "[%s].link_id has the SACCH bit (0x40) iff the lchan stands for the task's MF_F_SACCH rows (%s)" % (short, who),
             "set" if cls == "sacch" else "clear", "set (0x%02x)" % r["link_id"] if sacch else "clear (0x%02x)" % r["link_id"],
             sacch == (cls == "sacch"), r["line"])
        if r["chan_nr"] == cb << 3 and sacch == (cls == "sacch"):
            good.add(lname)
    L.floor("C11.R7", "lchan types compared with a firmware channel number", len(want), 30)
    npair = 0
    for task in sorted(tasks, key=lambda k: k):
        spec = tasks[task]
        for cb, tns in sorted(per_task[task].items()):
            for lay, cfgname, ltns in target_layouts(T, M, lookup, spec["targets"]):
                if not set(ltns) & set(tns):
                    continue
                members = [i for i in range(T.chan_max) if lay["lchan_mask"] >> i & 1]
                for cls in ("plain", "sacch"):
                    lname = spec.get(cls)
                    if lname is None or lname not in good:
                        continue      # a wrong identity of the lchan itself is reported above
                    x = D.rows[T.lchan[lname]]
                    same = sorted(T.lname.get(i, "lchan#%d" % i).replace("L1SCHED_", "") for i in members
                                  if (D.rows[i]["chan_nr"], D.rows[i]["link_id"]) == (x["chan_nr"], x["link_id"]))
                    npair += 1
                    L.ob("C11.R7", F_DESC, "l1sched_lchan_desc[]",
                         "lchans in the mask of layout %s that answer to chan_nr 0x%02x link_id 0x%02x (%s of %s)" % (
                             T.label(lay), x["chan_nr"], x["link_id"], "SACCH" if cls == "sacch" else "main channel", task),
                         [lname.replace("L1SCHED_", "")], same, same == [lname.replace("L1SCHED_", "")], x["line"])
    if len(lookup) >= 64:
        L.floor("C11.R7", "(task, role, layout) channel identities", npair, 50)
    L.extra["lchan_identity"] = {"lchan_types": len(want), "layout_identities": npair}


def s_lchan_ident(L, T, r2, M, tu_trx):
    D = LchanDesc(L, T)
    r7_lchan_identity(L, T, D, r2[0], M, load_spec("chan_nr_tasks.json"), tu_trx)


# =================================================================== run

def layout_periods(T):
    return sorted({lay["period"] for lay in T.layouts if lay["period"] > 0})


def s_trxcon(L, M):
    L.unit("src/host/trxcon/include/osmocom/bb/l1sched/l1sched.h")
    T = Trxcon(L)
    for k, v in M.get("config_values", {}).items():
        if isinstance(v, int):
            T.extra_cfg[k] = v
    return T


def s_trx_tu(L):
    return TU(L.repo, "trxcon", "src/sched_trx.c", L=L)


def s_lookup_sites(L, T, tu_trx):
    nsites = lookup_sites(L, tu_trx, F_TRX, layout_periods(T))
    # 4 on the unchanged tree.  How many places look a frame up legitimately varies (lookups merged into a
    # common function); the floor only guards against a vacuous pass -- every use of a layout's frames
    # pointer that is not a recognised lookup is an analysis error of its own, and the Rx / Tx entry points
    # must still reach one.
    L.floor("C11.R1", "frame lookup sites in sched_trx.c", nsites, 1)
    reach = lookup_reach(tu_trx)
    for anchor in ("l1sched_pull_burst", "l1sched_handle_rx_burst"):
        tu_trx.func(anchor)
        L.floor("C11.R1", "frame lookups reached from %s()" % anchor, int(anchor in reach), 1)


def lookup_reach(tu):
    """names of the functions of the TU from which a use of <layout>->frames is reached through direct calls"""
    direct, callees = set(), {}
    for fname, f in body_funcs(tu):
        cs = set()
        for n in walk(tu.body(f)):
            if kind(n) == "MemberExpr" and n.get("name") == "frames" and \
                    "l1sched_tdma_multiframe" in strip(kids(n)[0]).get("type", {}).get("qualType", ""):
                direct.add(fname)
            elif kind(n) == "CallExpr":
                c = strip(kids(n)[0])
                if kind(c) == "DeclRefExpr":
                    cs.add(c.get("referencedDecl", {}).get("name"))
        callees[fname] = cs
    reach = set(direct)
    grew = True
    while grew:
        grew = False
        for fname, cs in callees.items():
            if fname not in reach and cs & reach:
                reach.add(fname)
                grew = True
    return reach


def s_cross(L, T, FW, r2, M, S):
    lookup, LL = r2
    # when C11.R2 already reported invalid lookups there are fewer layouts to compare with;
    # the comparison floors only apply to a complete lookup model
    complete = len(lookup) >= 64
    r4_cross(L, T, FW, lookup, M, complete)
    r4_spec(L, T, lookup, M, S, complete)


def s_l23_tu(L):
    return TU(L.repo, "fw", "layer1/l23_api.c", L=L)


def s_chan_nr(L, FW, M, tu_l23):
    r5_chan_nr_tasks(L, FW, M, load_spec("chan_nr_tasks.json"), tu_l23)


def s_task_chan_nr(L, FW, M):
    r5_task_chan_nr(L, FW, M, load_spec("chan_nr_tasks.json"))


def s_ccch_mode(L, FW, M, tu_l23):
    r6_ccch_mode_tasks(L, FW, M, load_spec("ccch_mode_tasks.json"), tu_l23)


def s_thorough_tus(L, T, tu_trx):
    tus = {F_TRX: tu_trx, F_MF: T.tu}
    tus[F_FSM] = TU(L.repo, "trxcon", "src/trxcon_fsm.c", L=L)
    tus[F_L1CTL] = TU(L.repo, "trxcon", "src/l1ctl.c", L=L)
    return tus


def s_thorough_sites(L, T, tus):
    t_directory_scan(L, set(tus))
    lookup_sites(L, T.tu, F_MF, layout_periods(T))
    for rel in (F_FSM, F_L1CTL):
        lookup_sites(L, tus[rel], rel, layout_periods(T))


def s_thorough_callers(L, T, r2, tus):
    t_configure_callers(L, T, r2[0], tus)


def run(L, tier):
    # Independent rule groups run as stages (report.Ledger.stage): an AnalysisError inside one group is
    # deferred, a violation recognised by another group is still reported; a group whose input is the
    # result of a failed group is skipped.
    M = load_spec("mframe_map.json")
    S = load_spec("ts45002_clause7.json")
    latency = M.get("dsp_latency_frames")
    if not isinstance(latency, int):
        raise AnalysisError("spec/mframe_map.json: dsp_latency_frames missing")
    T = L.stage(s_trxcon, L, M)
    L.stage(r1_tables, L, T)
    tu_trx = L.stage(s_trx_tu, L)
    L.stage(s_lookup_sites, L, T, tu_trx)
    L.stage(r1_alloc_by_mask, L, T, tu_trx)
    r2 = L.stage(r2_lookup, L, T)
    FW = L.stage(Firmware, L)
    L.stage(r3_fw_tables, L, FW)
    L.stage(r3_trigger, L, FW, latency)
    L.stage(s_cross, L, T, FW, r2, M, S)
    tu_l23 = L.stage(s_l23_tu, L)
    L.stage(s_chan_nr, L, FW, M, tu_l23)
    L.stage(s_task_chan_nr, L, FW, M)
    L.stage(s_ccch_mode, L, FW, M, tu_l23)
    L.stage(s_lchan_ident, L, T, r2, M, tu_trx)
    if T and FW:
        L.extra["tables"] = {
            "trxcon_layouts": len(T.layouts),
            "trxcon_frame_tables": len(T.tables),
            "trxcon_rows": sum(len(t["rows"]) for t in T.tables.values()),
            "firmware_tables": len(FW.tables),
            "firmware_rows": sum(len(t["rows"]) for t in FW.tables.values()),
            "lookup_pairs": len(r2[0]) if r2 else None,
        }
    if tier == "thorough":
        tus = L.stage(s_thorough_tus, L, T, tu_trx)
        L.stage(s_thorough_sites, L, T, tus)
        L.stage(s_thorough_callers, L, T, r2, tus)
