# C11 -- firmware and trxcon agree on the multiframe mapping of every
# logical channel.  The property is about compile-time tables, so the tables
# are extracted completely from the clang AST (initialisers folded, enumerators
# resolved) and every row of every table is decided.  The little code that
# reads the tables (fn % period lookups, l1sched_mframe_layout, the channel
# state allocation by lchan_mask, the firmware trigger arithmetic) is checked
# through guards, single-definition substitution, expression normal forms and
# exact evaluation over the finite (entry, config, tn) domain.

import json
import os
import re

from report import AnalysisError, VERIF
from cfront import (TU, CCFG, CLower, kids, kind, strip, walk, ctext, cliterals, calls_to,
                    call_args, array_extent, strip_comments)
import exprnf as X

EXPLANATION = (
    "Table extraction + exhaustive decision: the 18 trxcon frame tables "
    "(every (dl_chan, dl_bid, ul_chan, ul_bid) row), layouts[] and the 29 "
    "firmware multiframe tables + sched_set_for_task[] are read from the "
    "clang AST with all constants folded. Per row: channel in the layout's "
    "lchan_mask, burst id is the cyclic successor of the channel's previous "
    "burst; per layout: period == declared dimension == number of rows, and "
    "every frame lookup in sched_trx.c indexes `x % layout->period` (an index "
    "kept incrementally in a local is bounded by a finite-domain forward "
    "analysis of that variable for every layout period); channel states are "
    "allocated exactly for the mask bits (guard evaluated for all masks x "
    "types with C's implicit conversions, helper functions followed). "
    "l1sched_mframe_layout is "
    "evaluated exactly over all (config, tn) pairs with the checker's own "
    "evaluator (pure decision chain over a finite domain) and its return "
    "guard is compared with the specified predicate on all (entry, config, "
    "tn) triples. The firmware trigger is brought to expression normal form "
    "((fn + A) mod modulo == frame_nr mod modulo, set queued A - 1 frames "
    "ahead; any other comparison of the frame-number remainder with a value "
    "of the row is decided by evaluating it on every table row over one full "
    "period). Cross-agreement: for every mapped firmware task / direction the "
    "frame set it triggers in, expanded over lcm(modulo, period), equals the "
    "set of first-burst frames (or owned frames for frame-by-frame tasks) of "
    "the corresponding trxcon channel in every layout the lookup can select; "
    "a transcription of TS 45.002 clause 7 is compared with the trxcon "
    "tables as a third witness. This covers every task, channel combination, "
    "timeslot and frame number of the multiframe cycle, not samples.")
ASSUMPTIONS = [
    "spec/mframe_map.json: hand-written correspondence firmware task <-> trxcon (combination, logical channel, direction), meaning of the tdma_sched item sets, DSP command latency of one TDMA frame",
    "spec/ts45002_clause7.json: transcription of 3GPP TS 45.002 clause 7 tables 1, 3, 4, 6 (block positions)",
    "GSM_PCHAN_*_CBCH values of cstubs/host/compat.h (copied from upstream libosmocore)",
    "quick tier: the period-0 entry (GSM_PCHAN_NONE) is never handed to l1sched_configure_ts (decided by the thorough tier: value sets of all call sites)",
    "incrementally maintained lookup index: branch conditions the analysis cannot evaluate are free (both branches possible), a plain frame-number lvalue takes every residue modulo the period, and the layout a timeslot points to is not replaced between the definition of the index and the lookup",
    "thorough tier: trxcon source files that clang cannot parse here are covered by an identifier scan of their comment-stripped text only (they must not mention `frames`, l1sched_configure_ts, l1sched_mframe_layout)",
]

F_MF = "src/host/trxcon/src/sched_mframe.c"
F_TRX = "src/host/trxcon/src/sched_trx.c"
F_FW = "src/target/firmware/layer1/mframe_sched.c"
F_FSM = "src/host/trxcon/src/trxcon_fsm.c"
F_L1CTL = "src/host/trxcon/src/l1ctl.c"

SINGLE_BURST = ("L1SCHED_FCCH", "L1SCHED_SCH", "L1SCHED_RACH")
HALF_BLOCK = ("L1SCHED_TCHH_0", "L1SCHED_TCHH_1")
IDLE = "L1SCHED_IDLE"
NONE_CFG = "GSM_PCHAN_NONE"


# ------------------------------------------------------------------ helpers

def gcd(a, b):
    while b:
        a, b = b, a % b
    return a


def lcm(a, b):
    return a // gcd(a, b) * b


def initlist(v, what):
    for c in kids(v):
        if kind(c) == "InitListExpr":
            return c
    raise AnalysisError("%s has no brace initialiser (table of unexpected shape)" % what)


def elems(il):
    """(explicit initialiser nodes, has_filler) of an array InitListExpr.
    clang prints sparse / short arrays as array_filler = [filler, e0, e1, ...]."""
    if "array_filler" in il:
        af = [x for x in il["array_filler"] if x]
        if not af or kind(af[0]) != "ImplicitValueInitExpr":
            raise AnalysisError("array_filler of unexpected shape")
        return af[1:], True
    return kids(il), False


def as_int(v, what):
    if v is None:
        return 0
    if isinstance(v, bool) or not isinstance(v, int):
        raise AnalysisError("%s is not an integer constant: %r" % (what, v))
    return v


def fmt_set(s, n=14):
    s = sorted(s)
    t = ",".join(str(x) for x in s[:n])
    return "{%s%s}" % (t, ",... (%d)" % len(s) if len(s) > n else "")


def cmp_sets(a, b, na, nb):
    if a == b:
        return True, "equal %s" % fmt_set(a)
    return False, "%s only %s; %s only %s" % (na, fmt_set(a - b), nb, fmt_set(b - a))


def short_cfg(name):
    return name.replace("GSM_PCHAN_", "")


def in_main_file(tu, n):
    f = n.get("_file")
    return f is None or os.path.basename(f) == os.path.basename(tu.rel)


def body_funcs(tu):
    for name, f in sorted(tu.functions.items()):
        if any(kind(c) == "CompoundStmt" for c in kids(f)) and in_main_file(tu, f):
            yield name, f


# ------------------------------------------------ single-definition locals

class Locals:
    """Definitions of the local variables of one function, keyed by the
    clang declaration id (immune to shadowing)."""

    def __init__(self, tu, f):
        self.tu = tu
        self.f = f
        self.defs = {}      # id -> list of (how, rhs, node)
        self.decl = {}      # id -> VarDecl / ParmVarDecl
        for p in tu.fparams(f):
            self.decl[p["id"]] = p
            self.defs.setdefault(p["id"], [])
        for n in walk(tu.body(f)):
            k = kind(n)
            if k == "VarDecl":
                self.decl[n["id"]] = n
                init = [c for c in kids(n) if "Comment" not in (kind(c) or "") and not (kind(c) or "").endswith("Attr")]
                self.defs.setdefault(n["id"], [])
                if init:
                    self.defs[n["id"]].append(("init", init[0], n))
            elif k == "BinaryOperator" and n.get("opcode") == "=":
                i = self._ref(kids(n)[0])
                if i is not None:
                    self.defs.setdefault(i, []).append(("assign", kids(n)[1], n))
            elif k == "CompoundAssignOperator":
                i = self._ref(kids(n)[0])
                if i is not None:
                    self.defs.setdefault(i, []).append(("update", None, n))
            elif k == "UnaryOperator" and n.get("opcode") in ("++", "--"):
                i = self._ref(kids(n)[0])
                if i is not None:
                    self.defs.setdefault(i, []).append(("update", None, n))
            elif k == "UnaryOperator" and n.get("opcode") == "&":
                i = self._ref(kids(n)[0])
                if i is not None:
                    self.defs.setdefault(i, []).append(("addr", None, n))

    @staticmethod
    def _ref(e):
        e = strip(e)
        if kind(e) == "DeclRefExpr" and e.get("referencedDecl", {}).get("kind") in ("VarDecl", "ParmVarDecl"):
            return e["referencedDecl"].get("id")
        return None

    def is_local(self, e):
        i = self._ref(e)
        return i is not None and i in self.decl

    def is_param(self, e):
        i = self._ref(e)
        return i is not None and kind(self.decl.get(i, {})) == "ParmVarDecl"

    def single(self, e):
        """(rhs, defining node) if the local referenced by e has exactly one
        definition and is never updated / address-taken, else None."""
        i = self._ref(e)
        if i is None or i not in self.decl:
            return None
        d = self.defs.get(i, [])
        if len(d) == 1 and d[0][0] in ("init", "assign"):
            return d[0][1], d[0][2]
        return None

    def ndefs(self, e):
        i = self._ref(e)
        return len(self.defs.get(i, [])) if i is not None else None


def pure(e, calls_ok=False):
    for n in walk(e):
        k = kind(n)
        if k in ("CompoundAssignOperator", "StmtExpr") or (k == "CallExpr" and not calls_ok):
            return False
        if k == "BinaryOperator" and n.get("opcode") == "=":
            return False
        if k == "UnaryOperator" and n.get("opcode") in ("++", "--"):
            return False
    return True


def rtext(loc, e, depth=0):
    """Canonical text of e with single-definition pure locals replaced by
    their definition (so `mf->period` and `lchan->ts->mf_layout->period`
    compare equal)."""
    e = strip(e)
    if e is None:
        return "?"
    k = kind(e)
    ks = kids(e)
    if k == "DeclRefExpr" and depth < 6:
        s = loc.single(e)
        if s is not None and pure(s[0]):
            return rtext(loc, s[0], depth + 1)
        return ctext(e)
    if k == "MemberExpr":
        return "%s%s%s" % (rtext(loc, ks[0], depth), "->" if e.get("isArrow") else ".", e.get("name"))
    if k == "ArraySubscriptExpr":
        return "%s[%s]" % (rtext(loc, ks[0], depth), rtext(loc, ks[1], depth))
    if k == "UnaryOperator" and not e.get("isPostfix"):
        return "%s%s" % (e.get("opcode"), rtext(loc, ks[0], depth))
    if k == "BinaryOperator":
        return "(%s %s %s)" % (rtext(loc, ks[0], depth), e.get("opcode"), rtext(loc, ks[1], depth))
    if k == "CStyleCastExpr":
        return rtext(loc, ks[0], depth)
    return ctext(e)


# ------------------------------------------------------- exact evaluation

class EvalOOB(Exception):
    pass


_NOTHING = object()


_BITS = {"uint64_t": (64, False), "int64_t": (64, True), "unsigned long long": (64, False), "long long": (64, True),
         "unsigned int": (32, False), "int": (32, True), "uint32_t": (32, False), "int32_t": (32, True),
         "unsigned short": (16, False), "short": (16, True), "uint16_t": (16, False), "int16_t": (16, True),
         "unsigned char": (8, False), "signed char": (8, True), "char": (8, True), "uint8_t": (8, False),
         "int8_t": (8, True)}


def int_type(tu, ty):
    """(bits, signed) of a clang type record ({'qualType', 'desugaredQualType'?}) or None (not a plain
    integer type / unknown typedef).  `long` follows the target of the translation unit."""
    if not isinstance(ty, dict):
        ty = {"qualType": ty or ""}
    for q in (ty.get("qualType", ""), ty.get("desugaredQualType", "")):
        q = re.sub(r"\b(const|volatile)\b", "", q).strip()
        if q in _BITS:
            return _BITS[q]
        if q in ("unsigned long", "long", "size_t", "ssize_t"):
            return (32 if tu.kind == "fw" else 64, q in ("long", "ssize_t"))
        if q in ("_Bool", "bool"):
            return (1, False)
    return None


def cwrap(tu, v, ty):
    """integer v converted to the C type ty (value unchanged for enum / unknown types)"""
    bt = int_type(tu, ty)
    if bt is None or not isinstance(v, int):
        return v
    bits, signed = bt
    if bits == 1:
        return int(v != 0)
    v &= (1 << bits) - 1
    if signed and v >= 1 << (bits - 1):
        v -= 1 << bits
    return v


def pure_callee(tu, call):
    """(name, FunctionDecl, operand of its return statement) of a direct call of a function that is defined
    in this translation unit (static inline helpers of headers included) and whose body is a single
    `return <side-effect free expression>;` -- else AnalysisError.  The operand keeps the implicit
    conversion to the function's return type."""
    callee = strip(kids(call)[0])
    rd = callee.get("referencedDecl", {}) if kind(callee) == "DeclRefExpr" else {}
    if rd.get("kind") != "FunctionDecl":
        raise AnalysisError("evaluator: expression outside the vocabulary: %s (indirect call)" % ctext(call)[:60])
    name = rd.get("name")
    f = tu.functions.get(name)
    if f is None or not any(kind(c) == "CompoundStmt" for c in kids(f)):
        raise AnalysisError("evaluator: expression outside the vocabulary: %s (CallExpr, body of %s() not visible)" % (
            ctext(call)[:60], name))
    st = kids(tu.body(f))
    if len(st) != 1 or kind(st[0]) != "ReturnStmt" or not kids(st[0]) or not pure(kids(st[0])[0], calls_ok=True):
        raise AnalysisError("evaluator: %s() is not a single side-effect free return statement; outside the vocabulary" % name)
    if len(call_args(call)) != len(tu.fparams(f)):
        raise AnalysisError("evaluator: call of %s() with %d arguments" % (name, len(call_args(call))))
    return name, f, kids(st[0])[0]


def ceval(tu, n, leaf, depth=0):
    """Value of a side-effect free C expression; `leaf(node)` supplies the
    values of variables / memory (or _NOTHING).  Implicit integral
    conversions (clang's ImplicitCastExpr) are applied, calls of
    single-return helper functions are evaluated on the callee's body with
    the parameters bound to the (converted) arguments and the result
    converted to the declared return type."""
    while n is not None and kind(n) in ("ParenExpr", "ConstantExpr") and kids(n):
        n = kids(n)[0]
    if n is None:
        raise AnalysisError("evaluator: empty expression")
    if kind(n) == "ImplicitCastExpr" and kids(n):
        a = ceval(tu, kids(n)[0], leaf, depth)
        if isinstance(a, int):
            if n.get("castKind") == "IntegralCast":
                return cwrap(tu, a, n.get("type"))
            if n.get("castKind") == "IntegralToBoolean":
                return int(a != 0)
        return a
    if kind(n) == "CallExpr":
        if depth > 3:
            raise AnalysisError("evaluator: helper calls nested too deeply in %s" % ctext(n)[:60])
        name, f, ret = pure_callee(tu, n)
        pidx = {p["id"]: i for i, p in enumerate(tu.fparams(f))}
        args = call_args(n)

        def inner(x):
            if kind(x) == "DeclRefExpr" and x.get("referencedDecl", {}).get("id") in pidx:
                return ceval(tu, args[pidx[x["referencedDecl"]["id"]]], leaf, depth + 1)
            return leaf(x)
        return ceval(tu, ret, inner, depth + 1)
    v = tu.fold(n)
    if v is not None:
        return v
    r = leaf(n)
    if r is not _NOTHING:
        return r
    k = kind(n)
    ks = kids(n)
    if k == "UnaryOperator":
        op = n.get("opcode")
        a = ceval(tu, ks[0], leaf, depth)
        if op in ("&", "*") and isinstance(a, tuple):
            return a
        if isinstance(a, tuple):
            if op == "!":
                return 0
            raise AnalysisError("evaluator: unary %s on a pointer" % op)
        if op == "-":
            return -a
        if op == "+":
            return a
        if op == "~":
            return ~a
        if op == "!":
            return int(not a)
        raise AnalysisError("evaluator: unary %s" % op)
    if k == "BinaryOperator":
        op = n.get("opcode")
        if op == "&&":
            return int(bool(truth(ceval(tu, ks[0], leaf, depth))) and bool(truth(ceval(tu, ks[1], leaf, depth))))
        if op == "||":
            return int(bool(truth(ceval(tu, ks[0], leaf, depth))) or bool(truth(ceval(tu, ks[1], leaf, depth))))
        a, b = ceval(tu, ks[0], leaf, depth), ceval(tu, ks[1], leaf, depth)
        if isinstance(a, tuple) or isinstance(b, tuple):
            if op == "+" and isinstance(a, tuple) and isinstance(b, int):
                return (a[0], a[1] + b)
            if op == "+" and isinstance(b, tuple) and isinstance(a, int):
                return (b[0], b[1] + a)
            if op == "-" and isinstance(a, tuple) and isinstance(b, int):
                return (a[0], a[1] - b)
            if op in ("==", "!="):
                eq = (a == b) if (isinstance(a, tuple) and isinstance(b, tuple)) else False
                return int(eq if op == "==" else not eq)
            raise AnalysisError("evaluator: pointer arithmetic %s" % op)
        try:
            if op == "+":
                return a + b
            if op == "-":
                return a - b
            if op == "*":
                return a * b
            if op == "/":
                return int(a / b)
            if op == "%":
                return a - b * int(a / b)
            if op == "<<":
                return a << b
            if op == ">>":
                return a >> b
            if op == "&":
                return a & b
            if op == "|":
                return a | b
            if op == "^":
                return a ^ b
            if op == "<":
                return int(a < b)
            if op == ">":
                return int(a > b)
            if op == "<=":
                return int(a <= b)
            if op == ">=":
                return int(a >= b)
            if op == "==":
                return int(a == b)
            if op == "!=":
                return int(a != b)
        except (ZeroDivisionError, ValueError):
            raise AnalysisError("evaluator: undefined arithmetic in %s" % ctext(n))
        raise AnalysisError("evaluator: binary %s" % op)
    if k == "ConditionalOperator":
        return ceval(tu, ks[1] if truth(ceval(tu, ks[0], leaf, depth)) else ks[2], leaf, depth)
    if k == "CStyleCastExpr":
        a = ceval(tu, ks[0], leaf, depth)
        return cwrap(tu, a, n.get("type")) if isinstance(a, int) else a
    raise AnalysisError("evaluator: expression outside the vocabulary: %s (%s)" % (ctext(n)[:60], k))


def truth(v):
    return bool(v) if not isinstance(v, tuple) else True


def induction(tu, forstmt):
    """(declaration id of the loop variable, start value) of
    `for (v = c; ...; v++)`, else AnalysisError."""
    inner = forstmt.get("inner", [])
    if len(inner) != 5:
        raise AnalysisError("for statement of unexpected shape")
    init, inc = inner[0], inner[3]
    vid = start = None
    if init and kind(init) == "DeclStmt":
        vs = [c for c in kids(init) if kind(c) == "VarDecl"]
        if len(vs) == 1 and kids(vs[0]):
            vid, start = vs[0]["id"], tu.fold(kids(vs[0])[0])
    elif init and kind(strip(init)) == "BinaryOperator" and strip(init).get("opcode") == "=":
        l, r = kids(strip(init))
        vid, start = Locals._ref(l), tu.fold(r)
    inc = strip(inc) if inc else None
    ok = inc is not None and kind(inc) == "UnaryOperator" and inc.get("opcode") == "++" and \
        Locals._ref(kids(inc)[0]) == vid
    if vid is None or start is None or not ok:
        raise AnalysisError("loop is not of the form for (v = const; ...; v++)")
    return vid, start


# ------------------------------------ incrementally maintained lookup index

class _Opaque(object):
    def __repr__(self):
        return "OPAQUE"


OPQ = _Opaque()         # value the analysis does not model
UNINIT = "uninit"
ANYV = "any"


def _arith(op, a, b):
    if op == "+":
        return a + b
    if op == "-":
        return a - b
    if op == "*":
        return a * b
    if op == "/":
        return int(a / b)
    if op == "%":
        return a - b * int(a / b)
    if op == "<<":
        return a << b
    if op == ">>":
        return a >> b
    if op == "&":
        return a & b
    if op == "|":
        return a | b
    if op == "^":
        return a ^ b
    if op == "<":
        return int(a < b)
    if op == ">":
        return int(a > b)
    if op == "<=":
        return int(a <= b)
    if op == ">=":
        return int(a >= b)
    if op == "==":
        return int(a == b)
    if op == "!=":
        return int(a != b)
    raise AnalysisError("index analysis: operator %s" % op)


class IndexRange:
    """Finite-domain forward analysis of ONE local integer variable (the
    index of a frame lookup that is maintained incrementally instead of
    being computed as `x % period` at the lookup) for ONE concrete value P
    of `<layout>->period`.

    Collecting semantics over the statement CFG: the state of a node is the
    set of values the variable can hold on entry.  Every definition of the
    variable is executed exactly (C conversions to the variable's type and
    of the intermediate results applied); `<same layout>->period` is P; an
    unsigned remainder `x % <int>` of an unmodelled x is every value
    0..<int>-1.  Branch conditions are evaluated per value (three-valued:
    && / || short-circuit on the decided operand); a condition the analysis
    cannot evaluate lets the value pass into both branches."""

    LIMIT = 2048

    def __init__(self, tu, f, g, loc, vid, base, P):
        self.tu, self.f, self.g, self.loc, self.vid, self.base, self.P = tu, f, g, loc, vid, base, P
        self.vtype = loc.decl[vid].get("type", {})
        self.name = loc.decl[vid].get("name")
        self.defids = {id(d[2]) for d in loc.defs.get(vid, [])}
        if any(d[0] == "addr" for d in loc.defs.get(vid, [])):
            raise AnalysisError("%s(): the address of index variable `%s` is taken; unclassifiable" % (f.get("name"), self.name))
        self._hd = {}
        self._mn = {}
        self.cur = UNINIT
        self.taint = False
        self.imprecise = None       # reason why an out-of-range value would not be a proof
        self.opaque_conds = {}      # node id -> cond node whose outcome was not decided for some value

    # -- syntactic facts (cached per AST node)
    def has_defs(self, n):
        r = self._hd.get(id(n))
        if r is None:
            r = self._hd[id(n)] = any(id(x) in self.defids for x in walk(n))
        return r

    def mentions(self, n):
        r = self._mn.get(id(n))
        if r is None:
            r = self._mn[id(n)] = any(kind(x) == "DeclRefExpr" and Locals._ref(x) == self.vid for x in walk(n))
        return r

    def conv(self, v):
        return cwrap(self.tu, v, self.vtype)

    def read(self):
        if isinstance(self.cur, int):
            return self.cur
        if isinstance(self.cur, tuple):
            raise AnalysisError("%s(): `%s` is read in the statement that assigns it a remainder; unclassifiable" % (
                self.f.get("name"), self.name))
        return OPQ

    def assign(self, v, rhs):
        if isinstance(v, int):
            self.cur = self.conv(v)
            return
        e = strip(rhs)
        if kind(e) == "BinaryOperator" and e.get("opcode") == "%" and not self.mentions(e):
            bt = int_type(self.tu, e.get("type"))
            d = self.ev(kids(e)[1])
            if bt is not None and not bt[1] and isinstance(d, int) and 0 < d <= self.LIMIT:
                x = strip(kids(e)[0])
                while kind(x) in ("MemberExpr", "ArraySubscriptExpr") and kids(x):
                    if kind(x) == "ArraySubscriptExpr" and self.tu.fold(kids(x)[1]) is None:
                        break
                    x = strip(kids(x)[0])
                if kind(x) != "DeclRefExpr":
                    # every residue is possible for a plain frame-number lvalue; for a computed dividend that is an assumption
                    self.imprecise = self.imprecise or "the dividend of `%s` is a computed value" % ctext(e)[:50]
                self.cur = ("set", frozenset(self.conv(x) for x in range(d)))
                return
        bt = int_type(self.tu, self.vtype)
        if bt is not None and bt[0] <= 8:
            lo = -(1 << (bt[0] - 1)) if bt[1] else 0
            self.cur = ("set", frozenset(range(lo, lo + (1 << bt[0]))))
        else:
            self.cur = ANYV

    def outvals(self):
        return list(self.cur[1]) if isinstance(self.cur, tuple) else [self.cur]

    # -- expression evaluation with the side effects on the variable
    def ev(self, n):
        tu = self.tu
        k = kind(n)
        ks = kids(n)
        if k in ("ParenExpr", "ConstantExpr") and ks:
            return self.ev(ks[0])
        if k in ("ImplicitCastExpr", "CStyleCastExpr") and ks:
            a = self.ev(ks[0])
            if a is OPQ:
                return OPQ
            ck = n.get("castKind")
            if ck == "IntegralCast":
                return cwrap(tu, a, n.get("type"))
            if ck == "IntegralToBoolean":
                return int(a != 0)
            if ck in ("LValueToRValue", "NoOp"):
                return a
            return OPQ
        if not self.has_defs(n) and not self.mentions(n):
            c = tu.fold(n)
            if c is not None:
                return c
        if k == "DeclRefExpr":
            return self.read() if Locals._ref(n) == self.vid else OPQ
        if k == "MemberExpr":
            if self.has_defs(n):
                raise AnalysisError("%s(): `%s` is updated inside a member access; unclassifiable" % (self.f.get("name"), self.name))
            if n.get("name") == "period" and rtext(self.loc, ks[0]) == self.base:
                return self.P
            if self.mentions(n):
                self.taint = True
            return OPQ
        if k == "UnaryOperator":
            op = n.get("opcode")
            if op in ("++", "--"):
                if Locals._ref(ks[0]) == self.vid:
                    old = self.read()
                    if old is OPQ:
                        self.cur = ANYV
                        return OPQ
                    self.cur = self.conv(old + (1 if op == "++" else -1))
                    return old if n.get("isPostfix") else self.cur
                if self.has_defs(ks[0]):
                    self.ev(ks[0])
                return OPQ
            a = self.ev(ks[0])
            if a is OPQ or op in ("&", "*"):
                return OPQ
            if op == "-":
                return cwrap(tu, -a, n.get("type"))
            if op == "+":
                return a
            if op == "~":
                return cwrap(tu, ~a, n.get("type"))
            if op == "!":
                return int(not a)
            return OPQ
        if k == "BinaryOperator":
            op = n.get("opcode")
            l, r = ks
            if op == "=":
                if Locals._ref(l) == self.vid:
                    self.assign(self.ev(r), r)
                    return self.cur if isinstance(self.cur, int) else OPQ
                for x in (l, r):
                    if self.has_defs(x):
                        self.ev(x)
                return OPQ
            if op == ",":
                self.ev(l)
                return self.ev(r)
            if op in ("&&", "||"):
                a = self.ev(l)
                if a is OPQ:
                    if self.has_defs(r):
                        raise AnalysisError("%s(): `%s` is updated under a condition the analysis cannot evaluate (%s); unclassifiable" % (
                            self.f.get("name"), self.name, ctext(l)[:50]))
                    b = self.ev(r)
                    if b is not OPQ and bool(b) == (op == "||"):
                        return int(op == "||")
                    return OPQ
                if bool(a) == (op == "||"):
                    return int(op == "||")
                b = self.ev(r)
                return OPQ if b is OPQ else int(bool(b))
            a, b = self.ev(l), self.ev(r)
            if a is OPQ or b is OPQ:
                if (a is not OPQ and self.mentions(l)) or (b is not OPQ and self.mentions(r)):
                    self.taint = True       # a value derived from the variable is absorbed by an unmodelled one
                return OPQ
            try:
                v = _arith(op, a, b)
            except (ZeroDivisionError, ValueError):
                raise AnalysisError("%s(): undefined arithmetic in %s" % (self.f.get("name"), ctext(n)[:60]))
            return v if op in ("<", ">", "<=", ">=", "==", "!=") else cwrap(tu, v, n.get("type"))
        if k == "CompoundAssignOperator":
            l, r = ks
            if Locals._ref(l) == self.vid:
                old, b = self.read(), self.ev(r)
                if old is OPQ or b is OPQ:
                    self.cur = ANYV
                    return OPQ
                try:
                    v = _arith(n.get("opcode")[:-1], old, b)
                except (ZeroDivisionError, ValueError):
                    raise AnalysisError("%s(): undefined arithmetic in %s" % (self.f.get("name"), ctext(n)[:60]))
                self.cur = self.conv(cwrap(tu, v, n.get("computeResultType") or n.get("type")))
                return self.cur
            for x in (l, r):
                if self.has_defs(x):
                    self.ev(x)
            return OPQ
        if k == "ConditionalOperator" and len(ks) == 3:
            c = self.ev(ks[0])
            if c is OPQ:
                if self.has_defs(ks[1]) or self.has_defs(ks[2]):
                    raise AnalysisError("%s(): `%s` is updated under a condition the analysis cannot evaluate (%s); unclassifiable" % (
                        self.f.get("name"), self.name, ctext(ks[0])[:50]))
                x, y = self.ev(ks[1]), self.ev(ks[2])
                if x is not OPQ and y is not OPQ and x == y:
                    return x
                if self.mentions(ks[1]) or self.mentions(ks[2]):
                    self.taint = True
                return OPQ
            return self.ev(ks[1] if c else ks[2])
        # anything else (calls, subscripts, literals, sizeof, ...): unmodelled value
        if self.has_defs(n):
            if k in ("CallExpr", "ArraySubscriptExpr"):
                for c in ks:
                    if self.has_defs(c):
                        self.ev(c)
                return OPQ
            raise AnalysisError("%s(): `%s` is updated inside a %s; unclassifiable" % (self.f.get("name"), self.name, k))
        if self.mentions(n):
            self.taint = True
        return OPQ

    def exec_stmt(self, a):
        k = kind(a)
        if k == "DeclStmt":
            for vd in kids(a):
                if kind(vd) != "VarDecl":
                    continue
                init = [c for c in kids(vd) if "Comment" not in (kind(c) or "") and not (kind(c) or "").endswith("Attr")]
                if vd.get("id") == self.vid:
                    if init:
                        self.assign(self.ev(init[0]), init[0])
                    else:
                        self.cur = UNINIT
                elif init and self.has_defs(init[0]):
                    self.ev(init[0])
        elif k == "ReturnStmt":
            for c in kids(a):
                self.ev(c)
        else:
            self.ev(a)

    def step(self, node, v):
        """[(successor, value of the variable on entry of the successor)]"""
        self.cur = v
        if node.kind == "stmt":
            a = node.ast
            if kind(a) == "DeclStmt" or (kind(a) != "DoHead" and self.has_defs(a)):
                self.exec_stmt(a)
            outs = self.outvals()
            return [(s, o) for s, _ in node.succ for o in outs]
        if node.kind == "cond":
            c = getattr(node, "cond", None)
            self.taint = False
            if c is None:
                r = 1
            elif self.has_defs(c) or self.mentions(c):
                r = self.ev(c)
            else:
                r = OPQ
            if r is OPQ:
                self.opaque_conds[node.id] = node
                if self.taint:
                    self.imprecise = self.imprecise or "the outcome of `%s` depends on the index in a way the analysis does not model" % ctext(c)[:50]
            outs = self.outvals()
            return [(s, o) for s, lab in node.succ if r is OPQ or bool(r) == bool(lab) for o in outs]
        c = getattr(node, "cond", None)
        if node.kind == "switch" and c is not None:
            if self.has_defs(c):
                raise AnalysisError("%s(): `%s` is updated in a switch condition; unclassifiable" % (self.f.get("name"), self.name))
            if self.mentions(c):
                self.imprecise = self.imprecise or "switch on the index"
        return [(s, v) for s, _ in node.succ]

    # -- fixpoint
    def solve(self, use_node, use_expr):
        """(set of index values at the lookup, witness) where witness is
        None or (offending index value, chain of values of the variable along
        a shortest path from the function entry)."""
        host = use_node.cond if use_node.kind in ("cond", "switch") else use_node.ast
        for x in walk(host):
            if id(x) in self.defids and not any(y is x for y in walk(use_expr)):
                raise AnalysisError("%s(): `%s` is updated in the statement of the frame lookup; unclassifiable" % (
                    self.f.get("name"), self.name))
        g = self.g
        states = {g.entry.id: {UNINIT}}
        parent = {}
        work = [(g.entry, UNINIT)]
        at_use = set()
        qi = 0
        while qi < len(work):
            node, v = work[qi]
            qi += 1
            if node is use_node:
                if v == UNINIT:
                    raise AnalysisError("%s(): index variable `%s` may be uninitialised at the frame lookup" % (self.f.get("name"), self.name))
                if v == ANYV:
                    raise AnalysisError("%s(): cannot bound index variable `%s` at the frame lookup" % (self.f.get("name"), self.name))
                self.cur = v
                iv = self.ev(use_expr)
                if iv is OPQ:
                    raise AnalysisError("%s(): cannot evaluate the lookup index `%s`" % (self.f.get("name"), ctext(use_expr)[:50]))
                at_use.add(iv)
                if not 0 <= iv < self.P:
                    chain = []
                    key = (node.id, v)
                    while key is not None:
                        if key[1] not in (UNINIT, ANYV) and (not chain or chain[-1] != key[1]):
                            chain.append(key[1])
                        key = parent.get(key)
                    return at_use, (iv, list(reversed(chain)))
            for s, o in self.step(node, v):
                st = states.setdefault(s.id, set())
                if o not in st:
                    st.add(o)
                    if len(st) > self.LIMIT:
                        raise AnalysisError("%s(): the value set of index variable `%s` does not converge" % (self.f.get("name"), self.name))
                    parent[(s.id, o)] = (node.id, v)
                    work.append((s, o))
        return at_use, None

    def proof_obstacle(self, use_node):
        """Why an out-of-range value found by solve() is NOT a proof that the
        lookup can leave the table (None: it is).  Unevaluated conditions are
        harmless when they only gate whether the lookup is reached at all, or
        when no update of the index depends on them."""
        if self.imprecise:
            return self.imprecise
        g = self.g
        pdom = postdominators(g)
        for c in self.opaque_conds.values():
            succs = [s for s, _ in c.succ]
            if sum(1 for s in succs if s is use_node or use_node.id in g.reach(s, labels_skip=())) < 2:
                continue
            stop = pdom[c.id] - {c.id}
            seen = set()
            todo = list(succs)
            while todo:
                x = todo.pop()
                if x.id in seen or x.id in stop:
                    continue
                seen.add(x.id)
                host = x.cond if x.kind in ("cond", "switch") else x.ast
                if host is not None and kind(host) != "DoHead" and (
                        self.has_defs(host) or (kind(host) == "DeclStmt" and any(vd.get("id") == self.vid for vd in kids(host)))):
                    return "which update of the index is executed depends on `%s`, which the analysis cannot evaluate" % (
                        ctext(c.cond)[:50] if getattr(c, "cond", None) is not None else "a condition")
                todo.extend(s for s, _ in x.succ)
        return None


def postdominators(g):
    ids = [n.id for n in g.nodes]
    full = set(ids)
    pd = {n.id: ({n.id} if not n.succ else set(full)) for n in g.nodes}
    changed = True
    while changed:
        changed = False
        for n in reversed(g.nodes):
            if not n.succ:
                continue
            new = set(full)
            for s, _ in n.succ:
                new &= pd[s.id]
            new.add(n.id)
            if new != pd[n.id]:
                pd[n.id] = new
                changed = True
    return pd


def incremental_index(tu, f, g, loc, use, idx, base, periods):
    """C11.R1, clause `no frame lookup for any frame number leaves the table`, for a lookup
    frames[v] whose index is a local variable with several definitions (maintained incrementally):
    for every layout period P the values v can hold at the lookup, computed by IndexRange from the
    variable's own definitions and the guards over it, are all in 0..P-1.
    -> (ok, found text)."""
    fname = f.get("name")
    vid = Locals._ref(idx) if kind(idx) == "DeclRefExpr" else None
    if vid is None:
        cand = {Locals._ref(x) for x in walk(idx) if kind(x) == "DeclRefExpr" and loc.is_local(x) and not loc.is_param(x)}
        if len(cand) != 1:
            raise AnalysisError("%s(): frame lookup index `%s` is not a remainder expression; unclassifiable" % (fname, ctext(idx)[:60]))
        vid = cand.pop()
    use_node = g.node_of(use)
    bad = []
    for P in periods:
        ir = IndexRange(tu, f, g, loc, vid, base, P)
        vals, wit = ir.solve(use_node, idx)
        if not vals:
            raise AnalysisError("%s(): the frame lookup is unreachable in the index analysis" % fname)
        if wit is not None:
            why = ir.proof_obstacle(use_node)
            if why is not None:
                raise AnalysisError("%s(): index variable `%s` of the frame lookup may reach %d with period %d, but %s; cannot tell" % (
                    fname, ir.name, wit[0], P, why))
            bad.append("period %d: index %d (values of `%s` along a path to the lookup: %s)" % (
                P, wit[0], ir.name, " -> ".join(str(x) for x in wit[1][-6:])))
    if bad:
        return False, "; ".join(bad[:3])
    return True, "within 0..period-1 for the periods %s" % ",".join(str(p) for p in periods)


# =========================================================== trxcon tables

class Trxcon:
    def __init__(self, L):
        self.tu = tu = TU(L.repo, "trxcon", "src/sched_mframe.c", L=L)
        self.lchan = {k: v for k, v in tu.enums.items() if tu.enum_of.get(k) == "l1sched_lchan_type"}
        if IDLE not in self.lchan or "_L1SCHED_CHAN_MAX" not in self.lchan:
            raise AnalysisError("enum l1sched_lchan_type vanished")
        self.chan_max = self.lchan["_L1SCHED_CHAN_MAX"]
        self.lname = {v: k for k, v in self.lchan.items() if k != "_L1SCHED_CHAN_MAX"}
        self.cfg = {k: v for k, v in tu.enums.items() if tu.enum_of.get(k) == "gsm_phys_chan_config"}
        if NONE_CFG not in self.cfg:
            raise AnalysisError("enum gsm_phys_chan_config vanished")
        ff = [n for n, _ in tu.record_fields("l1sched_tdma_frame")]
        if sorted(ff) != ["dl_bid", "dl_chan", "ul_bid", "ul_chan"]:
            raise AnalysisError("struct l1sched_tdma_frame changed: %s" % ff)
        self.fidx = {n: i for i, n in enumerate(ff)}
        lf = [n for n, _ in tu.record_fields("l1sched_tdma_multiframe")]
        for need in ("chan_config", "period", "slotmask", "lchan_mask", "frames"):
            if need not in lf:
                raise AnalysisError("struct l1sched_tdma_multiframe lost field %s" % need)
        self.lfields = lf
        self.period_type = dict(tu.record_fields("l1sched_tdma_multiframe"))["period"]
        self.tables = {}
        self._layouts()

    def cfg_name(self, v):
        for k, x in self.extra_cfg.items():
            if x == v:
                return k
        for k, x in self.cfg.items():
            if x == v and not k.startswith("_"):
                return k
        return "config#%d" % v

    def _table(self, name):
        if name in self.tables:
            return self.tables[name]
        tu = self.tu
        v = tu.var(name)
        qt = v.get("type", {}).get("qualType", "")
        if "struct l1sched_tdma_frame" not in qt or array_extent(qt) is None:
            raise AnalysisError("%s is not an array of struct l1sched_tdma_frame (%s)" % (name, qt))
        es, filler = elems(initlist(v, name))
        rows = []
        for e in es:
            e = strip(e)
            if kind(e) != "InitListExpr" or len(kids(e)) != 4:
                raise AnalysisError("row of %s has an unexpected shape" % name)
            vals = [as_int(tu.init_value(c), "%s row field" % name) for c in kids(e)]
            rows.append({"dl": (vals[self.fidx["dl_chan"]], vals[self.fidx["dl_bid"]]),
                         "ul": (vals[self.fidx["ul_chan"]], vals[self.fidx["ul_bid"]]),
                         "line": tu.line(e)})
        t = {"name": name, "dim": array_extent(qt), "rows": rows, "filler": filler, "line": tu.line(v)}
        self.tables[name] = t
        return t

    def _layouts(self):
        tu = self.tu
        v = tu.var("layouts")
        qt = v.get("type", {}).get("qualType", "")
        if "struct l1sched_tdma_multiframe" not in qt:
            raise AnalysisError("layouts[] has unexpected type %s" % qt)
        es, filler = elems(initlist(v, "layouts"))
        self.layouts_dim = array_extent(qt)
        self.layouts_filler = filler
        self.layouts = []
        for i, e in enumerate(es):
            e = strip(e)
            if kind(e) != "InitListExpr" or len(kids(e)) != len(self.lfields):
                raise AnalysisError("layouts[%d] has an unexpected shape" % i)
            d = dict(zip(self.lfields, [tu.init_value(c) for c in kids(e)]))
            fr = d["frames"]
            if isinstance(fr, tuple) and fr[0] == "ref":
                frames = re.sub(r"\[0\]$", "", fr[1])
            elif fr in (0, None):
                frames = None
            else:
                raise AnalysisError("layouts[%d].frames is neither a table nor NULL: %r" % (i, fr))
            lay = {"idx": i, "cfg": as_int(d["chan_config"], "chan_config"), "period": as_int(d["period"], "period"),
                   "slotmask": as_int(d["slotmask"], "slotmask"), "lchan_mask": as_int(d["lchan_mask"], "lchan_mask"),
                   "frames": frames, "line": tu.line(e), "desc": d.get("name")}
            if frames is not None:
                lay["table"] = self._table(frames)
            self.layouts.append(lay)
        if filler:
            # entries the initialiser leaves to implicit zero-initialisation are part of the table
            for i in range(len(self.layouts), self.layouts_dim or 0):
                self.layouts.append({"idx": i, "cfg": 0, "period": 0, "slotmask": 0, "lchan_mask": 0, "frames": None,
                                     "line": tu.line(v), "desc": None})
        self.extra_cfg = {}

    def label(self, lay):
        return "%s/0x%02x" % (short_cfg(self.cfg_name(lay["cfg"])), lay["slotmask"])


def blocklen(name):
    if name in SINGLE_BURST:
        return 1
    if name in HALF_BLOCK:
        return 2
    return 4


def r1_tables(L, T):
    fn = "layouts[]"
    nrows = 0
    seen_tables = set()
    if T.layouts_dim != len(T.layouts):
        raise AnalysisError("layouts[]: declared dimension %s but %d entries extracted" % (T.layouts_dim, len(T.layouts)))
    for lay in T.layouts:
        lab = T.label(lay)
        if lay["period"] == 0:
            L.ob("C11.R1", F_MF, fn, "layout %s: period 0 only for the unconfigured combination (no table, no channels)" % lab,
                 {"chan_config": NONE_CFG, "frames": None, "lchan_mask": 0},
                 {"chan_config": T.cfg_name(lay["cfg"]), "frames": lay["frames"], "lchan_mask": lay["lchan_mask"]},
                 lay["cfg"] == T.cfg[NONE_CFG] and lay["frames"] is None and lay["lchan_mask"] == 0, lay["line"])
            continue
        if lay["frames"] is None:
            L.ob("C11.R1", F_MF, fn, "layout %s: a layout with period >= 1 has a frame table" % lab,
                 "frames != NULL", "NULL", False, lay["line"])
            continue
        t = lay["table"]
        seen_tables.add(t["name"])
        L.ob("C11.R1", F_MF, fn,
             "layout %s: period == declared dimension == number of rows of its frame table (fn %% period never leaves it)" % lab,
             {"period": lay["period"], "dimension": lay["period"], "rows": lay["period"], "zero_filler": False},
             {"period": lay["period"], "dimension": t["dim"], "rows": len(t["rows"]), "zero_filler": t["filler"]},
             lay["period"] == t["dim"] == len(t["rows"]) and not t["filler"], lay["line"])
        L.ob("C11.R1", F_MF, fn, "layout %s: period fits the %s field" % (lab, T.period_type),
             "1..255", lay["period"], 1 <= lay["period"] <= 255, lay["line"])
        rows = t["rows"]
        n = len(rows)
        for d in ("dl", "ul"):
            D = d.upper()
            for i, r in enumerate(rows):
                ch, bid = r[d]
                nrows += 1
                name = T.lname.get(ch)
                if name is None:
                    L.ob("C11.R1", F_MF, t["name"], "layout %s frame %d %s: channel is an l1sched_lchan_type enumerator" % (lab, i, D),
                         "0..%d" % (T.chan_max - 1), ch, False, r["line"])
                    continue
                if name == IDLE:
                    continue
                inmask = bool(lay["lchan_mask"] >> ch & 1)
                bl = blocklen(name)
                if bl == 1:
                    want = 0
                    how = "single-burst channel: burst id 0"
                else:
                    j = (i - 1) % n
                    while rows[j][d][0] != ch:
                        j = (j - 1) % n
                    want = (rows[j][d][1] + 1) % bl
                    how = "burst id is the cyclic successor (mod %d) of the channel's previous burst (frame %d, bid %d)" % (
                        bl, j, rows[j][d][1])
                L.ob("C11.R1", F_MF, t["name"],
                     "layout %s frame %d %s %s: channel in lchan_mask; %s" % (lab, i, D, name.replace("L1SCHED_", ""), how),
                     {"in_lchan_mask": True, "bid": want}, {"in_lchan_mask": inmask, "bid": bid},
                     inmask and bid == want, r["line"])
    L.floor("C11.R1", "layouts", len(T.layouts), 19)
    L.floor("C11.R1", "frame tables referenced by layouts", len(seen_tables), 18)
    # 2 x 1811 on the unchanged tree; the floor guards against a vacuous pass, the exact
    # row count per table is an obligation of its own (period == dimension == rows)
    L.floor("C11.R1", "table rows x directions", nrows, 3400)


# --------------------------------------------------- frame lookup sites

def lookup_sites(L, tu, relfile, periods, rule="C11.R1"):
    """Every use of <layout>->frames in a parsed TU must be the lookup
    frames[x % <same layout>->period].  A function whose lookup goes through
    one of its own parameters of type `struct l1sched_tdma_multiframe *`
    (never reassigned) is a lookup helper: the obligation is decided on its
    body once and instantiated at every call site with the caller's layout
    argument (one level of inlining); call sites count as lookup sites."""
    count = 0
    helpers = {}       # function name -> (parameter index, parameter name, ok, found-text, line)
    for fname, f in body_funcs(tu):
        uses = [n for n in walk(tu.body(f)) if kind(n) == "MemberExpr" and n.get("name") == "frames" and
                "l1sched_tdma_multiframe" in strip(kids(n)[0]).get("type", {}).get("qualType", "")]
        if not uses:
            continue
        L.fn(relfile, fname)
        loc = Locals(tu, f)
        g = CCFG(tu, f)
        params = tu.fparams(f)
        for m in uses:
            p = tu.parent.get(id(m))
            while p is not None and kind(p) in ("ImplicitCastExpr", "ParenExpr"):
                p = tu.parent.get(id(p))
            idx = None
            if kind(p) == "ArraySubscriptExpr":
                idx = kids(p)[1]
            elif kind(p) == "BinaryOperator" and p.get("opcode") == "+":
                a, b = kids(p)
                idx = b if any(x is m for x in walk(a)) else a
            elif kind(p) == "BinaryOperator" and p.get("opcode") in ("==", "!="):
                continue        # NULL test, not a lookup
            else:
                raise AnalysisError("%s(): the frames pointer of a layout is used outside a table lookup (%s); unclassifiable" % (
                    fname, kind(p)))
            base = rtext(loc, kids(m)[0])
            # is the layout one of the function's own (never reassigned) parameters?
            hp = None
            for pi, pd in enumerate(params):
                if pd.get("name") == base and "l1sched_tdma_multiframe" in pd.get("type", {}).get("qualType", "") and \
                        not loc.defs.get(pd["id"]):
                    hp = pi
            if hp is None:
                count += 1
            e = strip(idx)
            stepwise = (kind(e) == "DeclRefExpr" and loc.is_local(e) and not loc.is_param(e) and loc.single(e) is None) or \
                (kind(e) == "UnaryOperator" and e.get("opcode") in ("++", "--") and loc.is_local(kids(e)[0]) and
                 not loc.is_param(kids(e)[0]))
            if stepwise:
                # index maintained incrementally (several definitions): finite-domain analysis of the variable
                ok, found = incremental_index(tu, f, g, loc, m, e, base, periods)
                L.ob(rule, relfile, fname,
                     "frame lookup in the layout `%s`: the incrementally maintained index stays within 0..<that layout>->period - 1" % base,
                     "within 0..period-1 for the periods %s" % ",".join(str(p) for p in periods), found, ok, tu.line(m))
                if hp is not None:
                    if fname in helpers:
                        ok = ok and helpers[fname][2]
                    helpers[fname] = (hp, base, ok, found, tu.line(m))
                continue
            if kind(e) == "DeclRefExpr" and loc.is_local(e) and not loc.is_param(e):
                s = loc.single(e)
                vd = loc.decl[Locals._ref(e)]
                vt = vd.get("type", {}).get("qualType", "")
                if not g.dominates(g.node_of(s[1]), g.node_of(m)):
                    raise AnalysisError("%s(): definition of `%s` does not dominate the frame lookup" % (fname, ctext(e)))
                if vt in ("int8_t", "char", "signed char", "bool", "_Bool"):
                    L.ob(rule, relfile, fname, "frame lookup: index variable can hold every value below the period",
                         "type with range >= 0..254", vt, False, tu.line(m))
                e = strip(s[0])
            key = "frame lookup in the layout `%s`: index is `x %% <that layout>->period`" % base
            want = "x %% %s->period" % base
            if kind(e) == "BinaryOperator" and e.get("opcode") == "%":
                rhs = strip(kids(e)[1])
                found = "x %% %s" % rtext(loc, rhs)
                ok = rtext(loc, rhs) == "%s->period" % base
                ut = e.get("type", {}).get("qualType", "")
                if ok and not (ut.startswith("unsigned") or ut in ("uint32_t", "uint64_t", "size_t", "uint16_t", "uint8_t")):
                    raise AnalysisError("%s(): frame lookup index `%s` is a signed remainder (%s); cannot bound it" % (
                        fname, ctext(e), ut))
            else:
                if kind(e) in ("CallExpr", "ConditionalOperator"):
                    raise AnalysisError("%s(): frame lookup index `%s` is not a remainder expression; unclassifiable" % (
                        fname, ctext(e)[:60]))
                ok, found = False, ctext(e)[:80]
            L.ob(rule, relfile, fname, key, want, found, ok, tu.line(m))
            if hp is not None:
                if fname in helpers:
                    # several lookups in one helper: all must hold
                    ok = ok and helpers[fname][2]
                helpers[fname] = (hp, base, ok, found, tu.line(m))
    # call sites of the helpers, with the caller's layout argument substituted
    if helpers:
        for fname, f in body_funcs(tu):
            loc = None
            for hname, (hp, pname, ok, found, hline) in sorted(helpers.items()):
                for c in calls_to(tu.body(f), hname):
                    args = call_args(c)
                    if len(args) <= hp:
                        raise AnalysisError("%s(): call of %s with too few arguments" % (fname, hname))
                    if loc is None:
                        loc = Locals(tu, f)
                        L.fn(relfile, fname)
                    arg = rtext(loc, args[hp])
                    count += 1
                    sub = re.sub(r"\b%s\b" % re.escape(pname), lambda _m: arg, found)
                    L.ob(rule, relfile, fname,
                         "frame lookup in the layout `%s` (through %s()): index is `x %% <that layout>->period`" % (arg, hname),
                         "x %% %s->period" % arg, sub, ok, tu.line(c))
        # a helper's address must not escape (it would be callable with an unknown layout elsewhere)
        for fname, f in body_funcs(tu):
            for n in walk(tu.body(f)):
                if kind(n) == "DeclRefExpr" and n.get("referencedDecl", {}).get("name") in helpers:
                    par = tu.parent.get(id(n))
                    while par is not None and kind(par) in ("ImplicitCastExpr", "ParenExpr"):
                        par = tu.parent.get(id(par))
                    if kind(par) != "CallExpr" or strip(kids(par)[0]) is not n:
                        raise AnalysisError("%s(): lookup helper %s is used other than by a direct call; unclassifiable" % (
                            fname, n["referencedDecl"]["name"]))
    return count


def r1_alloc_by_mask(L, T, tu):
    """l1sched_configure_ts allocates a channel state for type t iff bit t of
    the chosen layout's lchan_mask is set, t = 0.._L1SCHED_CHAN_MAX-1."""
    fname = "l1sched_configure_ts"
    f = tu.func(fname)
    L.fn(F_TRX, fname)
    g = CCFG(tu, f)
    loc = Locals(tu, f)
    stores = [n for n in walk(tu.body(f)) if kind(n) == "BinaryOperator" and n.get("opcode") == "=" and
              kind(strip(kids(n)[0])) == "MemberExpr" and strip(kids(n)[0]).get("name") == "type" and
              "l1sched_lchan_state" in strip(kids(strip(kids(n)[0]))[0]).get("type", {}).get("qualType", "")]
    if len(stores) != 1:
        raise AnalysisError("%s(): expected one store to <lchan state>->type, found %d" % (fname, len(stores)))
    st = stores[0]
    tv = Locals._ref(kids(st)[1])
    if tv is None:
        raise AnalysisError("%s(): channel state type is not set from the loop variable" % fname)
    loop = g.loop_of(g.node_of(st))
    if loop is None or kind(loop) != "ForStmt":
        raise AnalysisError("%s(): channel states are not allocated in a for loop" % fname)
    vid, start = induction(tu, loop)
    L.ob("C11.R1", F_TRX, fname, "channel state allocation loop runs over every channel type from 0",
         {"loop_var_is_type": True, "start": 0}, {"loop_var_is_type": vid == tv, "start": start},
         vid == tv and start == 0, tu.line(loop))
    guards = g.guards(g.node_of(st))
    rel = []
    maskbases = set()
    via = []            # helper functions the membership test goes through
    def closure(cnode, cond):
        """cond + the definitions of the single-definition pure locals it reads (transitively); each
        such definition must dominate the condition"""
        out, seen, k = [cond], set(), 0
        while k < len(out):
            for x in walk(out[k]):
                if kind(x) == "DeclRefExpr" and loc.is_local(x) and not loc.is_param(x) and Locals._ref(x) != tv:
                    sd = loc.single(x)
                    if sd is not None and pure(sd[0], calls_ok=True) and id(sd[0]) not in seen and \
                            g.dominates(g.node_of(sd[1]), cnode):
                        seen.add(id(sd[0]))
                        out.append(sd[0])
            k += 1
        return out
    for (c, lab) in guards:
        cond = getattr(c, "cond", None)
        if cond is None:
            continue
        cl = closure(c, cond)
        if any(Locals._ref(x) == tv for e in cl for x in walk(e) if kind(x) == "DeclRefExpr"):
            rel.append((cond, lab))
            for x in (x for e in cl for x in walk(e)):
                if kind(x) == "MemberExpr" and x.get("name") == "lchan_mask":
                    maskbases.add(rtext(loc, kids(x)[0]))
                elif kind(x) == "CallExpr":
                    # a single-return helper (evaluated on its body by ceval): the masks it reads belong
                    # to the layouts the caller passes for the corresponding parameters
                    hname, hf, ret = pure_callee(tu, x)
                    hp = {p["id"]: i for i, p in enumerate(tu.fparams(hf))}
                    via.append("%s() returning `%s`" % (hname, hf.get("type", {}).get("qualType", "?").split("(")[0].strip()))
                    for y in walk(ret):
                        if kind(y) == "CallExpr":
                            raise AnalysisError("%s(): helper %s() calls further functions; unclassifiable" % (fname, hname))
                        if kind(y) == "MemberExpr" and y.get("name") == "lchan_mask":
                            pi = hp.get(Locals._ref(kids(y)[0]))
                            if pi is None:
                                raise AnalysisError("%s(): helper %s() reads the lchan_mask of something that is not "
                                                    "one of its parameters; unclassifiable" % (fname, hname))
                            maskbases.add(rtext(loc, call_args(x)[pi]))
    masks = sorted({lay["lchan_mask"] for lay in T.layouts})
    bad = None
    for m in masks:
        for t in range(T.chan_max + 1):
            def leaf(n, m=m, t=t):
                if kind(n) == "DeclRefExpr" and Locals._ref(n) == tv:
                    return t
                if kind(n) == "MemberExpr" and n.get("name") == "lchan_mask":
                    return m
                if kind(n) == "DeclRefExpr" and loc.is_local(n) and not loc.is_param(n):
                    sd = loc.single(n)
                    if sd is not None and pure(sd[0], calls_ok=True):
                        # the initialiser / right-hand side carries the conversion to the local's type
                        return ceval(tu, sd[0], leaf)
                return _NOTHING
            got = all(truth(ceval(tu, c, leaf)) == bool(lab) for c, lab in rel)
            want = t < T.chan_max and bool(m >> t & 1)
            if got != want and bad is None:
                bad = "mask 0x%x, type %d (%s): allocated=%s" % (m, t, T.lname.get(t, "?").replace("L1SCHED_", ""), got)
                if via:
                    bad += " (membership test evaluated through %s, result conversion included)" % ", ".join(sorted(set(via)))
    L.ob("C11.R1", F_TRX, fname,
         "a channel state is allocated for type t iff t < _L1SCHED_CHAN_MAX and bit t of the layout's lchan_mask is set",
         "equivalent for all %d masks x %d types" % (len(masks), T.chan_max + 1),
         bad or "equivalent for all %d masks x %d types" % (len(masks), T.chan_max + 1), bad is None, tu.line(st))
    # the mask is the one of the layout chosen by l1sched_mframe_layout(config, tn)
    ps = [p.get("name") for p in tu.fparams(f)]
    calls = calls_to(tu.body(f), "l1sched_mframe_layout")
    descr = []
    for c in calls:
        p = tu.parent.get(id(c))
        while p is not None and kind(p) in ("ImplicitCastExpr", "ParenExpr"):
            p = tu.parent.get(id(p))
        tgt = None
        if kind(p) == "BinaryOperator" and p.get("opcode") == "=":
            tgt = rtext(loc, kids(p)[0])
        elif kind(p) == "VarDecl":
            tgt = p.get("name")
        descr.append((tgt, [ctext(a) for a in call_args(c)]))
    want = [(b, [ps[2], ps[1]]) for b in sorted(maskbases)] if len(ps) == 3 else None
    L.ob("C11.R1", F_TRX, fname,
         "the layout whose lchan_mask is used is l1sched_mframe_layout(<config argument>, <tn argument>)",
         want, sorted(descr), want is not None and len(want) == 1 and sorted(descr) == want, tu.line(st))


# ================================================= R2: layout lookup model

class LayoutLookup:
    """Exact evaluation of l1sched_mframe_layout over (config, tn)."""

    def __init__(self, T):
        self.T = T
        self.tu = tu = T.tu
        self.f = tu.func("l1sched_mframe_layout")
        self.g = CCFG(tu, self.f)
        self.loc = Locals(tu, self.f)
        ps = tu.fparams(self.f)
        if len(ps) != 2:
            raise AnalysisError("l1sched_mframe_layout signature changed")
        self.pid = [p["id"] for p in ps]
        self.arr_id = tu.var("layouts")["id"]

    def leaf(self, env):
        T = self.T

        def lf(n):
            k = kind(n)
            if k == "DeclRefExpr":
                rd = n.get("referencedDecl", {})
                i = rd.get("id")
                if i in env:
                    if env[i] is None:
                        raise AnalysisError("l1sched_mframe_layout reads an uninitialised local")
                    return env[i]
                if rd.get("name") == "layouts" and rd.get("kind") == "VarDecl":
                    return ("elem", 0)
                if i in self.loc.decl:
                    s = self.loc.single(n)
                    if s is not None and pure(s[0]):
                        return ceval(self.tu, s[0], lf)
                    raise AnalysisError("l1sched_mframe_layout: local `%s` has no value in the model" % rd.get("name"))
                return _NOTHING
            if k == "ArraySubscriptExpr":
                b = ceval(self.tu, kids(n)[0], lf)
                i = ceval(self.tu, kids(n)[1], lf)
                if isinstance(b, tuple) and isinstance(i, int):
                    return (b[0], b[1] + i)
                raise AnalysisError("l1sched_mframe_layout: subscript outside the model")
            if k == "MemberExpr":
                b = ceval(self.tu, kids(n)[0], lf)
                if isinstance(b, tuple) and b[0] == "elem":
                    if not 0 <= b[1] < len(T.layouts):
                        raise EvalOOB("layouts[%d]" % b[1])
                    lay = T.layouts[b[1]]
                    fld = {"chan_config": "cfg", "period": "period", "slotmask": "slotmask",
                           "lchan_mask": "lchan_mask"}.get(n.get("name"))
                    if fld is None:
                        raise AnalysisError("l1sched_mframe_layout reads field %s" % n.get("name"))
                    return lay[fld]
                raise AnalysisError("l1sched_mframe_layout: member access outside the model")
            return _NOTHING
        return lf

    def run(self, cfg, tn):
        g, tu = self.g, self.tu
        env = {self.pid[0]: cfg, self.pid[1]: tn}
        lf = self.leaf(env)
        node = g.entry
        for _ in range(20000):
            if node is g.exit:
                raise AnalysisError("l1sched_mframe_layout can fall off its end")
            k = node.kind
            if k == "cond":
                c = getattr(node, "cond", None)
                v = True if c is None else truth(ceval(tu, c, lf))
                nxt = [s for s, l in node.succ if l == v]
                if len(nxt) != 1:
                    raise AnalysisError("l1sched_mframe_layout: CFG branch without a %s edge" % v)
                node = nxt[0]
                continue
            if k == "switch":
                raise AnalysisError("l1sched_mframe_layout: switch outside the model")
            if k == "stmt":
                a = node.ast
                ak = kind(a)
                if ak == "ReturnStmt":
                    return ceval(tu, kids(a)[0], lf) if kids(a) else 0
                if ak == "DeclStmt":
                    for vd in kids(a):
                        if kind(vd) != "VarDecl":
                            continue
                        init = [c for c in kids(vd) if "Comment" not in (kind(c) or "")]
                        env[vd["id"]] = ceval(tu, init[0], lf) if init else None
                elif ak in ("BreakStmt", "ContinueStmt", "DoHead", "NullStmt"):
                    pass
                else:
                    e = strip(a)
                    ek = kind(e)
                    tgt = Locals._ref(kids(e)[0]) if kids(e) else None
                    if ek == "BinaryOperator" and e.get("opcode") == "=" and tgt in self.loc.decl:
                        env[tgt] = ceval(tu, kids(e)[1], lf)
                    elif ek == "UnaryOperator" and e.get("opcode") in ("++", "--") and tgt in env and env[tgt] is not None:
                        d = 1 if e.get("opcode") == "++" else -1
                        v = env[tgt]
                        env[tgt] = (v[0], v[1] + d) if isinstance(v, tuple) else v + d
                    elif ek == "CompoundAssignOperator" and e.get("opcode") in ("+=", "-=") and tgt in env:
                        d = ceval(tu, kids(e)[1], lf)
                        d = d if e.get("opcode") == "+=" else -d
                        v = env[tgt]
                        env[tgt] = (v[0], v[1] + d) if isinstance(v, tuple) else v + d
                    elif ek == "CallExpr" and "LOG" in ctext(kids(e)[0]).upper():
                        pass
                    else:
                        raise AnalysisError("l1sched_mframe_layout: statement outside the evaluator's vocabulary: %s" % ctext(e)[:60])
            if len(node.succ) != 1:
                raise AnalysisError("l1sched_mframe_layout: CFG node with %d successors" % len(node.succ))
            node = node.succ[0][0]
        raise AnalysisError("l1sched_mframe_layout: evaluation does not terminate")


def r2_lookup(L, T):
    fname = "l1sched_mframe_layout"
    L.fn(F_MF, fname)
    LL = LayoutLookup(T)
    tu = T.tu
    none = T.cfg[NONE_CFG]
    cfgs = []
    for lay in T.layouts:
        if lay["cfg"] != none and lay["cfg"] not in cfgs:
            cfgs.append(lay["cfg"])
    result = {}
    npairs = 0
    for cfg in cfgs:
        cn = short_cfg(T.cfg_name(cfg))
        ents = [l for l in T.layouts if l["cfg"] == cfg]
        union = 0
        overlap = []
        for l in ents:
            if union & l["slotmask"]:
                overlap.append("0x%02x" % l["slotmask"])
            union |= l["slotmask"]
        L.ob("C11.R2", F_MF, "layouts[]", "combination %s: slot masks of its layouts cover all 8 timeslots" % cn,
             "0xff", "0x%02x" % union, union == 0xff, ents[0]["line"])
        L.ob("C11.R2", F_MF, "layouts[]", "combination %s: slot masks of its layouts are pairwise disjoint" % cn,
             [], overlap, not overlap, ents[0]["line"])
        for tn in range(8):
            npairs += 1
            try:
                r = LL.run(cfg, tn)
            except EvalOOB as e:
                L.ob("C11.R2", F_MF, fname, "lookup (%s, tn %d) stays inside layouts[]" % (cn, tn), "in range", str(e), False)
                continue
            if isinstance(r, tuple) and r[0] == "elem" and 0 <= r[1] < len(T.layouts):
                lay = T.layouts[r[1]]
                found = {"chan_config": short_cfg(T.cfg_name(lay["cfg"])), "tn_in_slotmask": bool(lay["slotmask"] >> tn & 1),
                         "period>0": lay["period"] > 0}
                ok = lay["cfg"] == cfg and bool(lay["slotmask"] >> tn & 1) and lay["period"] > 0
                if ok:
                    result[(cfg, tn)] = lay
            else:
                found, ok = "NULL" if r == 0 else repr(r), False
            L.ob("C11.R2", F_MF, fname, "lookup (%s, tn %d) returns a layout of that combination valid for the timeslot" % (cn, tn),
                 {"chan_config": cn, "tn_in_slotmask": True, "period>0": True}, found, ok, tu.line(LL.f))
    L.floor("C11.R2", "(combination, timeslot) pairs", npairs, 64)
    # guard of the non-NULL return, compared with the specified predicate
    rets = [n for n in LL.g.nodes if n.kind == "stmt" and kind(n.ast) == "ReturnStmt" and kids(n.ast)
            and tu.fold(kids(n.ast)[0]) is None]
    if len(rets) != 1:
        raise AnalysisError("%s(): expected exactly one return of a table entry, found %d" % (fname, len(rets)))
    rn = rets[0]
    loop = LL.g.loop_of(rn)
    if loop is None or kind(loop) != "ForStmt":
        raise AnalysisError("%s(): the entry is not returned from a for loop; unclassifiable" % fname)
    vid, start = induction(tu, loop)
    guards = [(getattr(c, "cond", None), lab) for c, lab in LL.g.guards(rn)]
    guards = [(c, lab) for c, lab in guards if c is not None]
    bad = None
    ntr = 0
    for i in range(len(T.layouts)):
        for cfg in cfgs + [none]:
            for tn in range(8):
                ntr += 1
                env = {LL.pid[0]: cfg, LL.pid[1]: tn, vid: i}
                lf = LL.leaf(env)
                got = all(truth(ceval(tu, c, lf)) == bool(lab) for c, lab in guards)
                retv = ceval(tu, kids(rn.ast)[0], lf)
                lay = T.layouts[i]
                want = lay["cfg"] == cfg and bool(lay["slotmask"] >> tn & 1)
                if (got != want or (got and retv != ("elem", i))) and bad is None:
                    bad = "entry %d, %s, tn %d: returned=%s value=%r" % (i, short_cfg(T.cfg_name(cfg)), tn, got, retv)
    lits = sorted("%s%s" % ("" if p else "!", t) for t, p in LL.g.guard_lits(rn))
    L.ob("C11.R2", F_MF, fname,
         "guard of `return &layouts[i]`: entry i is returned only if chan_config == config and the tn bit of slotmask is set (first such entry, scan from 0)",
         {"equivalent_on_triples": ntr, "scan_start": 0}, {"equivalent_on_triples": ntr, "scan_start": start} if bad is None else
         {"counterexample": bad, "guard": lits}, bad is None and start == 0, tu.line(rn.ast))
    return result, LL


# ======================================================== firmware tables

class Firmware:
    def __init__(self, L):
        self.tu = tu = TU(L.repo, "fw", "layer1/mframe_sched.c", L=L)
        L.unit("src/target/firmware/include/layer1/mframe_sched.h")
        self.tasks = {k: v for k, v in tu.enums.items() if tu.enum_of.get(k) == "mframe_task"}
        if not self.tasks:
            raise AnalysisError("enum mframe_task vanished")
        if "MF_F_SACCH" not in tu.enums:
            raise AnalysisError("MF_F_SACCH vanished")
        self.F_SACCH = tu.enums["MF_F_SACCH"]
        flds = [n for n, _ in tu.record_fields("mframe_sched_item")]
        for need in ("sched_set", "modulo", "frame_nr", "flags"):
            if need not in flds:
                raise AnalysisError("struct mframe_sched_item lost field %s" % need)
        self.flds = flds
        self.tables = {}
        v = tu.var("sched_set_for_task")
        qt = v.get("type", {}).get("qualType", "")
        self.map_dim = array_extent(qt)
        if "struct mframe_sched_item *" not in qt or self.map_dim is None:
            raise AnalysisError("sched_set_for_task has unexpected type %s" % qt)
        es, _ = elems(initlist(v, "sched_set_for_task"))
        self.map_line = tu.line(v)
        self.task_table = []
        for e in es:
            x = tu.init_value(e)
            if isinstance(x, tuple) and x[0] == "ref":
                self.task_table.append(re.sub(r"\[0\]$", "", x[1]))
            elif x in (0, None):
                self.task_table.append(None)
            else:
                raise AnalysisError("sched_set_for_task entry is neither a table nor NULL: %r" % (x,))

    def table(self, name):
        if name in self.tables:
            return self.tables[name]
        tu = self.tu
        v = tu.var(name)
        qt = v.get("type", {}).get("qualType", "")
        if "struct mframe_sched_item" not in qt or array_extent(qt) is None:
            raise AnalysisError("%s is not an array of struct mframe_sched_item (%s)" % (name, qt))
        es, filler = elems(initlist(v, name))
        rows = []
        for e in es:
            e = strip(e)
            if kind(e) != "InitListExpr" or len(kids(e)) != len(self.flds):
                raise AnalysisError("row of %s has an unexpected shape" % name)
            d = dict(zip(self.flds, [tu.init_value(c) for c in kids(e)]))
            ss = d["sched_set"]
            if isinstance(ss, tuple) and ss[0] == "ref":
                ss = re.sub(r"\[0\]$", "", ss[1])
            elif ss in (0, None):
                ss = None
            else:
                raise AnalysisError("%s: sched_set is neither a tdma_sched set nor NULL: %r" % (name, ss))
            rows.append({"set": ss, "modulo": as_int(d["modulo"], "modulo"), "frame_nr": as_int(d["frame_nr"], "frame_nr"),
                         "flags": as_int(d["flags"], "flags"), "line": tu.line(e)})
        if filler:
            # implicit zero rows: sched_set NULL
            for _ in range(array_extent(qt) - len(rows)):
                rows.append({"set": None, "modulo": 0, "frame_nr": 0, "flags": 0, "line": tu.line(v)})
        t = {"name": name, "rows": rows, "line": tu.line(v)}
        self.tables[name] = t
        return t

    def task_rows(self, task):
        """rows of the task's table up to the terminator (what the scheduling
        loop visits)"""
        v = self.tasks[task]
        name = self.task_table[v] if v < len(self.task_table) else None
        if name is None:
            return None, None
        t = self.table(name)
        out = []
        for r in t["rows"]:
            if r["set"] is None:
                break
            out.append(r)
        return t, out


def r3_fw_tables(L, FW):
    fn = "sched_set_for_task[]"
    ntab = 0
    nrow = 0
    for task, v in sorted(FW.tasks.items(), key=lambda kv: kv[1]):
        name = FW.task_table[v] if v < len(FW.task_table) else None
        L.ob("C11.R3", F_FW, fn, "%s has a multiframe table (index below the array dimension %s)" % (task, FW.map_dim),
             "table", name or "NULL", name is not None and v < (FW.map_dim or 0), FW.map_line)
        if name is None:
            continue
        t = FW.table(name)
        ntab += 1
        rows = t["rows"]
        nulls = [i for i, r in enumerate(rows) if r["set"] is None]
        L.ob("C11.R3", F_FW, name, "%s: table ends with its only NULL sched_set terminator (the scheduling loop stops there)" % task,
             [len(rows) - 1], nulls, nulls == [len(rows) - 1], t["line"])
        for i, r in enumerate(rows):
            if r["set"] is None:
                break
            nrow += 1
            L.ob("C11.R3", F_FW, name, "%s row %d: modulo >= 1, modulo and frame_nr fit uint16_t" % (task, i),
                 "1 <= modulo <= 65535, 0 <= frame_nr <= 65535", {"modulo": r["modulo"], "frame_nr": r["frame_nr"]},
                 1 <= r["modulo"] <= 65535 and 0 <= r["frame_nr"] <= 65535, r["line"])
    L.floor("C11.R3", "firmware multiframe tasks with a table", ntab, 29)
    L.floor("C11.R3", "firmware table rows", nrow, 128)


def r3_trigger(L, FW, latency):
    """mframe_schedule_set: for every row up to the terminator, the set is
    queued D frames ahead exactly when (fn + A) % modulo == frame_nr % modulo,
    with A - D == DSP latency: the first burst is in a frame == frame_nr."""
    tu = FW.tu
    fname = "mframe_schedule_set"
    f = tu.func(fname)
    L.fn(F_FW, fname)
    g = CCFG(tu, f)
    loc = Locals(tu, f)
    ps = tu.fparams(f)
    calls = calls_to(tu.body(f), "tdma_schedule_set")
    L.floor("C11.R3", "tdma_schedule_set call sites in mframe_schedule_set", len(calls), 1)
    if len(calls) != 1:
        raise AnalysisError("%s(): expected one tdma_schedule_set call, found %d" % (fname, len(calls)))
    call = calls[0]
    cn = g.node_of(call)
    loop = g.loop_of(cn)
    if loop is None or kind(loop) != "ForStmt":
        raise AnalysisError("%s(): the rows are not visited by a for loop; unclassifiable" % fname)
    inner = loop["inner"]
    init, cond, inc = inner[0], inner[2], inner[3]
    # loop variable: pointer walking the table
    ie = strip(init) if init else None
    if ie is not None and kind(ie) == "BinaryOperator" and ie.get("opcode") == "=":
        sid = Locals._ref(kids(ie)[0])
        start = kids(ie)[1]
    elif init and kind(init) == "DeclStmt" and len(kids(init)) == 1 and kids(kids(init)[0]):
        sid = kids(init)[0]["id"]
        start = kids(kids(init)[0])[0]
    else:
        raise AnalysisError("%s(): loop initialisation of unexpected shape" % fname)
    sname = loc.decl[sid].get("name") if sid in loc.decl else None
    if sname is None:
        raise AnalysisError("%s(): loop variable is not a local" % fname)
    start_txt = rtext(loc, start)
    want_start = "sched_set_for_task[%s]" % (ps[0].get("name") if ps else "?")
    L.ob("C11.R3", F_FW, fname, "the loop starts at the first row of the task's own table",
         want_start, start_txt, start_txt == want_start, tu.line(loop))
    ince = strip(inc) if inc else None
    inc_ok = ince is not None and kind(ince) == "UnaryOperator" and ince.get("opcode") == "++" and Locals._ref(kids(ince)[0]) == sid
    condl = cliterals(tu, cond, True) if cond else set()
    condt = sorted("%s%s" % ("" if p else "!", t) for t, p in condl)
    cond_ok = condl in ({("0 == %s->sched_set" % sname, False)}, {("%s->sched_set" % sname, True)})
    L.ob("C11.R3", F_FW, fname, "the loop visits the rows one by one until the NULL sched_set terminator",
         {"step": "%s++" % sname, "while": "%s->sched_set != NULL" % sname},
         {"step": ctext(ince) if ince is not None else None, "while": condt},
         inc_ok and cond_ok, tu.line(loop))
    others = [d for d in loc.defs.get(sid, []) if d[2] is not ie and d[2] is not ince and d[0] != "init"]
    esc = [n for n in walk(inner[4]) if kind(n) in ("BreakStmt", "ReturnStmt", "GotoStmt")]
    L.ob("C11.R3", F_FW, fname, "no row is skipped: no other update of the row pointer, no break/return/goto in the loop",
         {"other_updates": 0, "escapes": 0}, {"other_updates": len(others), "escapes": len(esc)},
         not others and not esc, tu.line(loop))
    # single-definition locals are substituted forward before lowering

    def term(e, depth=0):
        env = {}
        for x in walk(e):
            if kind(x) == "DeclRefExpr" and loc.is_local(x) and not loc.is_param(x):
                s = loc.single(x)
                if s is not None and depth < 5 and pure(s[0]):
                    env[ctext(x)] = term(s[0], depth + 1)
        return CLower(tu, env).lower(e)

    guards = [(getattr(c, "cond", None), lab) for c, lab in g.guards(cn)]
    trig = [(c, lab) for c, lab in guards if c is not None and c is not cond]
    key = "trigger: the set is queued iff (fn + A) % modulo == frame_nr % modulo of the row, under no other condition"
    if len(trig) != 1:
        L.ob("C11.R3", F_FW, fname, key, "one trigger condition",
             sorted("%s%s" % ("" if p else "!", t) for t, p in g.guard_lits(cn)), False, tu.line(call))
        return
    t = term(trig[0][0])
    if not trig[0][1]:
        t = ("not", t)
    while t[0] == "not" and t[1][0] == "not":
        t = t[1][1]

    def conj(x):
        return conj(x[1]) + conj(x[2]) if x[0] == "and" else [x]
    parts = conj(t)
    def is_diff(x):
        return x[0] == "cmp" and x[1] == "==" and X.C(0) in (x[2], x[3]) and "mod" in (x[2][0], x[3][0])
    main = [x for x in parts if (x[0] == "cmp" and x[1] == "==" and x[2][0] == "mod" and x[3][0] == "mod") or is_diff(x)]
    if len(parts) > 1 and len(main) == 1:
        L.ob("C11.R3", F_FW, fname, "trigger: no condition besides the frame-number comparison decides whether a row's set is queued",
             [], [X.show(x) for x in parts if x is not main[0]], False, tu.line(call))
        t = main[0]
    A = None
    fnv = None
    if t[0] == "cmp" and t[1] == "==" and t[2][0] == "mod" and t[3][0] == "mod":
        for a, b in ((t[2], t[3]), (t[3], t[2])):
            co, c = X.linear(a[1])
            if len(co) == 1 and list(co.values()) == [1] and list(co)[0].endswith("current_time.fn"):
                A, fnv = c, list(co)[0]
                want = X.cmp_("==", X.mod(X.add(X.V(fnv), X.C(A)), X.V("%s->modulo" % sname)),
                              X.mod(X.V("%s->frame_nr" % sname), X.V("%s->modulo" % sname)))
                if t == want:
                    L.ob("C11.R3", F_FW, fname, key, X.show(want), X.show(t), True, tu.line(call))
                else:
                    # two remainders, but not literally the canonical pair: decided on the table rows
                    A = trigger_by_rows(L, FW, tu, fname, loc, sid, sname, trig[0], t, key, call)
                break
        else:
            L.ob("C11.R3", F_FW, fname, key,
                 "((l1s.current_time.fn + A) mod %s->modulo) == (%s->frame_nr mod %s->modulo)" % (sname, sname, sname),
                 X.show(t), False, tu.line(call))
            return
    elif is_diff(t):
        # folded form ((fn + A - frame_nr) mod modulo) == 0: equal to the two-remainder form over the
        # integers; in C it is only if the subtraction cannot wrap (or the word size is a multiple of modulo)
        m = t[2] if t[2][0] == "mod" else t[3]
        co, c = X.linear(m[1])
        fnk = [k for k in co if k.endswith("current_time.fn")]
        canon = "((l1s.current_time.fn + A) mod %s->modulo) == (%s->frame_nr mod %s->modulo)" % (sname, sname, sname)
        if m[2] != X.V("%s->modulo" % sname) or len(fnk) != 1 or co != {fnk[0]: 1, "%s->frame_nr" % sname: -1}:
            if m[2] == X.V("%s->modulo" % sname) and len(fnk) == 1 and set(co) == {fnk[0], "%s->frame_nr" % sname}:
                L.ob("C11.R3", F_FW, fname, key, canon, X.show(t), False, tu.line(call))
                return
            raise AnalysisError("%s(): trigger condition `%s` is outside the recognised normal forms; unclassifiable" % (
                fname, X.show(t)[:100]))
        A = c
        # the C type the difference is computed in
        exprs = [trig[0][0]]
        seen = set()
        k = 0
        while k < len(exprs):
            for x in walk(exprs[k]):
                if kind(x) == "DeclRefExpr" and loc.is_local(x) and not loc.is_param(x):
                    sd = loc.single(x)
                    if sd is not None and pure(sd[0]) and id(sd[0]) not in seen:
                        seen.add(id(sd[0]))
                        exprs.append(sd[0])
            k += 1
        mods = [x for e in exprs for x in walk(e) if kind(x) == "BinaryOperator" and x.get("opcode") == "%" and
                rtext(loc, kids(x)[1]) == "%s->modulo" % sname]
        if len(mods) != 1:
            raise AnalysisError("%s(): cannot locate the remainder operation of the trigger; unclassifiable" % fname)
        lt = strip(kids(mods[0])[0]).get("type", {}).get("qualType", "")
        bits = {"unsigned int": 32, "uint32_t": 32, "unsigned long": 32, "uint16_t": 16, "unsigned short": 16,
                "unsigned long long": 64, "uint64_t": 64}.get(lt)
        if bits is None and lt not in ("int", "long", "int32_t", "long long", "int64_t"):
            raise AnalysisError("%s(): trigger difference is computed in type `%s`; cannot model it" % (fname, lt))
        witness = None
        if bits is not None:
            W = 1 << bits
            for task in sorted(FW.tasks, key=lambda q: FW.tasks[q]):
                _, rows = FW.task_rows(task)
                for i, r in enumerate(rows or []):
                    mo = r["modulo"]
                    if mo < 1 or W % mo == 0:
                        continue
                    for fn0 in range(0, max(0, r["frame_nr"] - A)):
                        got = ((fn0 + A - r["frame_nr"]) % W) % mo == 0
                        true = (fn0 + A) % mo == r["frame_nr"] % mo
                        if got != true:
                            witness = ("%s row %d (frame_nr %d, modulo %d) at fn %d: fn+%d-frame_nr < 0 wraps to %d (%s, 2^%d mod %d = %d): "
                                       "set %s although (fn+%d) mod %d %s frame_nr mod %d" % (
                                           task, i, r["frame_nr"], mo, fn0, A, (fn0 + A - r["frame_nr"]) % W, lt, bits, mo, W % mo,
                                           "queued" if got else "not queued", A, mo, "!=" if got else "==", mo))
                            break
                    if witness:
                        break
                if witness:
                    break
        L.ob("C11.R3", F_FW, fname, key, canon.replace("+ A", "+ %d" % A),
             X.show(t) if witness is None else "unsigned wrap in the folded difference: %s" % witness, witness is None, tu.line(call))
    else:
        A = trigger_by_rows(L, FW, tu, fname, loc, sid, sname, trig[0], t, key, call)
    args = call_args(call)
    if len(args) != 3:
        raise AnalysisError("tdma_schedule_set call has %d arguments" % len(args))
    D = tu.fold(args[0])
    if D is None:
        raise AnalysisError("%s(): frame offset of tdma_schedule_set is not a constant" % fname)
    L.ob("C11.R3", F_FW, fname,
         "scheduling distance: look-ahead A of the trigger minus frame offset D of tdma_schedule_set equals the DSP command latency, so the first burst of the set falls into a frame == frame_nr (mod modulo)",
         {"A - D": latency}, {"A": A, "D": D, "A - D": A - D}, A - D == latency and D >= 0, tu.line(call))
    L.ob("C11.R3", F_FW, fname, "the scheduled item set is the row's sched_set",
         "%s->sched_set" % sname, rtext(loc, args[1]), rtext(loc, args[1]) == "%s->sched_set" % sname, tu.line(call))


def term_mentions(t, pred):
    if not isinstance(t, tuple):
        return False
    if t and t[0] == "v":
        return pred(t[1])
    return any(term_mentions(x, pred) for x in t[1:])


def trigger_by_rows(L, FW, tu, fname, loc, sid, sname, trig, t, key, call):
    """C11.R3, clause `the frames in which the firmware starts a block are the frames == frame_nr (mod
    modulo)`, for a trigger that is NOT written as a comparison of two remainders: the condition must
    have the normal form  ((fn + A) mod <row>->modulo) == R  with R free of the frame number.  Its truth
    is then a function of ((fn + A) mod modulo, row), so it is decided exactly by evaluating the
    condition (checker's own evaluator, C conversions applied) for every row of every task table up to
    its terminator and every fn of one full period 0..modulo-1, and comparing the set of frames in which
    the row's set is queued with the reference set {fn : (fn + A) mod modulo == frame_nr mod modulo}.
    Returns the look-ahead A."""
    def is_fn(name):
        return name.endswith("current_time.fn")
    A = None
    if t[0] == "cmp" and t[1] == "==":
        for a, b in ((t[2], t[3]), (t[3], t[2])):
            if a[0] == "mod" and (a[2] == X.V("%s->modulo" % sname) or (X.is_c(a[2]) and a[2][1] >= 1)) and \
                    not term_mentions(b, is_fn):
                co, c = X.linear(a[1])
                if len(co) == 1 and list(co.values()) == [1] and is_fn(list(co)[0]):
                    A = c
                    break
    if A is None:
        raise AnalysisError("%s(): trigger condition `%s` is not a comparison of a frame-number remainder with "
                            "a value of the row; unclassifiable" % (fname, X.show(t)[:100]))
    if not 0 <= A < (1 << 16):
        raise AnalysisError("%s(): look-ahead %d of the trigger: fn + A may wrap; cannot model it" % (fname, A))
    # the remainder operation: fn enters the condition only through its left operand, which must be
    # computed without a narrowing conversion (then (fn + A) is exact for every fn of the hyperframe)
    cond, lab = trig
    exprs = [cond]
    seen = set()
    k = 0
    while k < len(exprs):
        for x in walk(exprs[k]):
            if kind(x) == "DeclRefExpr" and loc.is_local(x) and not loc.is_param(x) and Locals._ref(x) != sid:
                sd = loc.single(x)
                if sd is None or not pure(sd[0]):
                    raise AnalysisError("%s(): local `%s` of the trigger condition is not a single pure definition" % (
                        fname, ctext(x)))
                if id(sd[0]) not in seen:
                    seen.add(id(sd[0]))
                    exprs.append(sd[0])
        k += 1

    def fn_dep(e):
        for x in walk(e):
            if kind(x) == "MemberExpr" and is_fn(ctext(x)):
                return True
            if kind(x) == "DeclRefExpr" and loc.is_local(x) and not loc.is_param(x):
                sd = loc.single(x)
                if sd is not None and fn_dep(sd[0]):
                    return True
        return False
    mods = [x for e in exprs for x in walk(e) if kind(x) == "BinaryOperator" and x.get("opcode") == "%" and
            fn_dep(kids(x)[0])]
    if len(mods) != 1 or fn_dep(kids(mods[0])[1]):
        raise AnalysisError("%s(): cannot locate the remainder operation of the trigger; unclassifiable" % fname)
    div_is_modulo = rtext(loc, kids(mods[0])[1]) == "%s->modulo" % sname
    div_const = tu.fold(kids(mods[0])[1])
    if not div_is_modulo and (div_const is None or div_const < 1):
        raise AnalysisError("%s(): the frame number is reduced modulo `%s`; unclassifiable" % (fname, ctext(kids(mods[0])[1])[:40]))
    for x in walk(kids(mods[0])[0]):
        if kind(x) in ("ImplicitCastExpr", "CStyleCastExpr") and x.get("castKind") == "IntegralCast" and fn_dep(x):
            bt = int_type(tu, x.get("type"))
            if bt is None or bt[0] < 32:
                raise AnalysisError("%s(): the frame number is converted to `%s` before the remainder; cannot model it" % (
                    fname, x.get("type", {}).get("qualType")))
    bad = []
    nrows = 0
    for task in sorted(FW.tasks, key=lambda q: FW.tasks[q]):
        tab, rows = FW.task_rows(task)
        for i, r in enumerate(rows or []):
            mo = r["modulo"]
            if mo < 1:
                continue      # reported by r3_fw_tables
            nrows += 1
            cur = [0]

            def leaf(n, r=r, cur=cur):
                kk = kind(n)
                if kk == "MemberExpr":
                    tx = rtext(loc, n)
                    if tx == "%s->frame_nr" % sname:
                        return r["frame_nr"]
                    if tx == "%s->modulo" % sname:
                        return r["modulo"]
                    if tx == "%s->flags" % sname:
                        return r["flags"]
                    if is_fn(ctext(n)):
                        return cur[0]
                    raise AnalysisError("%s(): trigger condition reads `%s`; outside the evaluator's model" % (fname, tx[:60]))
                if kk == "DeclRefExpr" and loc.is_local(n) and not loc.is_param(n) and Locals._ref(n) != sid:
                    return ceval(tu, loc.single(n)[0], leaf)
                return _NOTHING
            # the condition is a function of (fn + A) mod <divisor> and the row: one period of the divisor
            # (joined with the row's modulo for the comparison) is exhaustive
            span = mo if div_is_modulo else lcm(mo, div_const)
            if span > 200000:
                raise AnalysisError("%s(): period %d of the trigger condition is too long to enumerate" % (fname, span))
            fired = set()
            for fn0 in range(span):
                cur[0] = fn0
                if truth(ceval(tu, cond, leaf)) == bool(lab):
                    fired.add(fn0)
            ref = {fn0 for fn0 in range(span) if (fn0 + A) % mo == r["frame_nr"] % mo}
            if fired != ref and len(bad) < 4:
                bad.append("%s row %d of %s (frame_nr %d, modulo %d): set queued in fn mod %d = %s, required %s" % (
                    task, i, tab["name"], r["frame_nr"], mo, span, fmt_set(fired), fmt_set(ref)))
    L.floor("C11.R3", "table rows the trigger is evaluated on", nrows, 128)
    L.ob("C11.R3", F_FW, fname, key,
         "for every row: queued exactly in the frames with (fn + %d) mod modulo == frame_nr mod modulo" % A,
         "; ".join(bad) if bad else "for every row: queued exactly in the frames with (fn + %d) mod modulo == frame_nr mod modulo" % A,
         not bad, tu.line(call))
    return A


# ====================================================== R4: cross-agreement

def load_spec(name):
    p = os.path.join(VERIF, "spec", name)
    try:
        with open(p) as f:
            return json.load(f)
    except (OSError, ValueError) as e:
        raise AnalysisError("cannot load reference table %s: %s" % (p, e))


def trx_frames(T, lay, lchan_val, d, first_only, span):
    rows = lay["table"]["rows"]
    n = len(rows)
    out = set()
    for f in range(span):
        ch, bid = rows[f % n][d]
        if ch == lchan_val and (not first_only or bid == 0):
            out.add(f)
    return out


def resolve_cfg(T, M, name):
    if name in T.cfg:
        return T.cfg[name]
    cv = M.get("config_values", {})
    if name in cv and isinstance(cv[name], int):
        T.extra_cfg[name] = cv[name]
        return cv[name]
    raise AnalysisError("reference table names unknown channel combination %s" % name)


def target_layouts(T, M, lookup, targets):
    """distinct layouts selected by l1sched_mframe_layout for the targets:
    list of (layout, config name, [tn...])"""
    out = []
    for tg in targets:
        cfg = resolve_cfg(T, M, tg["config"])
        tns = list(range(8)) if tg.get("tn") == "all" else list(tg.get("tn"))
        by = {}
        for tn in tns:
            lay = lookup.get((cfg, tn))
            if lay is None:
                # R2 already reported the invalid lookup; nothing to compare with
                continue
            by.setdefault(lay["idx"], (lay, []))[1].append(tn)
        for idx in sorted(by):
            out.append((by[idx][0], tg["config"], by[idx][1]))
    return out


def tnfmt(tns):
    return "tn " + ",".join(str(t) for t in tns)


def r4_cross(L, T, FW, lookup, M, complete):
    sets = {k: v for k, v in M.get("sched_sets", {}).items() if not k.startswith("_")}
    tasks = {k: v for k, v in M.get("tasks", {}).items() if not k.startswith("_")}
    unm = {k: v for k, v in M.get("unmapped_tasks", {}).items() if not k.startswith("_")}
    for t in FW.tasks:
        if t not in tasks and t not in unm:
            raise AnalysisError("firmware task %s is neither mapped nor listed as unmapped in spec/mframe_map.json" % t)
    for t in list(tasks) + list(unm):
        if t not in FW.tasks:
            raise AnalysisError("spec/mframe_map.json names %s, which is not an enumerator of enum mframe_task any more" % t)
    covered = set()       # (layout idx, lchan value, dir)
    nstream = 0
    for task in sorted(tasks, key=lambda k: FW.tasks[k]):
        spec = tasks[task]
        tab, rows = FW.task_rows(task)
        if tab is None:
            continue      # reported by R3
        streams = {}
        for i, r in enumerate(rows):
            s = sets.get(r["set"])
            if s is None:
                raise AnalysisError("%s row %d uses tdma_sched set %s, which spec/mframe_map.json does not describe" % (
                    task, i, r["set"]))
            if "ignore" in s:
                continue
            if r["modulo"] < 1:
                continue  # reported by R3
            cls = "sacch" if r["flags"] & FW.F_SACCH else "plain"
            for d in s["directions"]:
                st = streams.setdefault((cls, d), {"mode": s["mode"], "rows": []})
                if st["mode"] != s["mode"]:
                    raise AnalysisError("%s: rows of the %s %s stream mix block and frame-by-frame sets; unclassifiable" % (task, cls, d))
                st["rows"].append(r)
        tls = target_layouts(T, M, lookup, spec["targets"])
        for (cls, d), st in sorted(streams.items()):
            lname = spec.get(cls)
            if lname is None:
                L.ob("C11.R4", F_FW, tab["name"], "%s: %s rows (%s) have a trxcon counterpart in spec/mframe_map.json" % (
                    task, cls, d), "mapped logical channel", "none: the task has %s rows the map does not expect" % cls, False, tab["line"])
                continue
            if lname not in T.lchan:
                raise AnalysisError("spec/mframe_map.json names unknown logical channel %s" % lname)
            lv = T.lchan[lname]
            for lay, cfgname, tns in tls:
                nstream += 1
                span = lay["period"]
                for r in st["rows"]:
                    span = lcm(span, r["modulo"])
                fw = set()
                for r in st["rows"]:
                    fw |= set(range(r["frame_nr"] % r["modulo"], span, r["modulo"]))
                first = st["mode"] == "block"
                tx = trx_frames(T, lay, lv, d.lower(), first, span)
                covered.add((lay["idx"], lv, d))
                ok, found = cmp_sets(fw, tx, "firmware", "trxcon")
                what = "block starts" if first else "frames"
                L.ob("C11.R4", F_FW, tab["name"],
                     "%s %s %s %s (mod %d) == %s of %s %s in layout %s (%s)" % (
                         task, cls, d, what, span, "first-burst frames" if first else "frames",
                         lname.replace("L1SCHED_", ""), "downlink" if d == "DL" else "uplink",
                         short_cfg(cfgname), tnfmt(tns)),
                     "equal frame sets", found, ok, st["rows"][0]["line"])
        for cls in ("plain", "sacch"):
            if cls in spec and not any(k[0] == cls for k in streams):
                L.ob("C11.R4", F_FW, tab["name"], "%s: the task has %s rows for %s" % (task, cls, spec[cls]),
                     "at least one row", "none", False, tab["line"])
    if complete:
        L.floor("C11.R4", "(task, stream, layout) comparisons", nstream, 120)
    # every channel of a reachable layout is mapped or deliberately left out
    un_tr = M.get("unmapped_trxcon", [])
    reach = {}
    for (cfg, tn), lay in lookup.items():
        reach[lay["idx"]] = lay
    for idx, lay in sorted(reach.items()):
        for d in ("dl", "ul"):
            for ch in sorted({r[d][0] for r in lay["table"]["rows"]}):
                name = T.lname.get(ch)
                if name is None or (idx, ch, d.upper()) in covered:
                    continue
                if any(u.get("lchan") == name and u.get("direction", d.upper()) == d.upper() and
                       u.get("config", T.cfg_name(lay["cfg"])) == T.cfg_name(lay["cfg"]) for u in un_tr):
                    continue
                owners = [t for t, sp in tasks.items() if name in (sp.get("plain"), sp.get("sacch")) and
                          any(l["idx"] == idx for l, _, _ in target_layouts(T, M, lookup, sp["targets"]))]
                if not owners:
                    raise AnalysisError("trxcon channel %s (%s) of layout %s is neither the target of a mapped firmware task nor "
                                        "listed under unmapped_trxcon in spec/mframe_map.json" % (name, d.upper(), T.label(lay)))
                tx = trx_frames(T, lay, ch, d, False, lay["period"])
                for t in owners:
                    tab, _ = FW.task_rows(t)
                    cls = "plain" if tasks[t].get("plain") == name else "sacch"
                    L.ob("C11.R4", F_FW, tab["name"] if tab else "sched_set_for_task[]",
                         "%s has %s %s rows for %s, which layout %s schedules" % (
                             t, cls, d.upper(), name.replace("L1SCHED_", ""), T.label(lay)),
                         "rows triggering in %s" % fmt_set(tx), "no such row", False, tab["line"] if tab else None)


def r4_spec(L, T, lookup, M, S, complete):
    n = 0
    for e in S.get("entries", []):
        lname = e["lchan"]
        if lname not in T.lchan:
            raise AnalysisError("spec/ts45002_clause7.json names unknown logical channel %s" % lname)
        lv = T.lchan[lname]
        d = e["direction"]
        P = e["period"]
        tls = target_layouts(T, M, lookup, [{"config": c, "tn": e["tn"]} for c in e["configs"]])
        for lay, cfgname, tns in tls:
            n += 1
            rows = lay["table"]["rows"]
            span = lcm(P, lay["period"])
            where = "layout %s (%s)" % (short_cfg(cfgname), tnfmt(tns))
            eid = e["id"] if (" %s" % d) in e["id"] else "%s %s" % (e["id"], d)
            line = lay["table"]["line"]
            if "blocks" in e:
                own = set()
                starts = set()
                bad = []
                for b in e["blocks"]:
                    for rep in range(0, span, P):
                        starts.add(b[0] % P + rep)
                        for k, f in enumerate(b):
                            ff = f % P + rep
                            own.add(ff)
                            ch, bid = rows[ff % len(rows)][d.lower()]
                            if ch == lv and bid != k and len(bad) < 4:
                                bad.append("frame %d bid %d (burst %d of the block)" % (ff, bid, k))
                tx_all = trx_frames(T, lay, lv, d.lower(), False, span)
                tx_first = trx_frames(T, lay, lv, d.lower(), True, span)
                ok1, f1 = cmp_sets(own, tx_all, "TS 45.002", "trxcon")
                ok2, f2 = cmp_sets(starts, tx_first, "TS 45.002", "trxcon")
                L.ob("C11.R4", F_MF, lay["table"]["name"],
                     "TS 45.002 clause 7 table %s, %s: frames of the blocks (mod %d) == frames of %s in %s" % (
                         e["table"], eid, span, lname.replace("L1SCHED_", ""), where),
                     "equal frame sets", f1, ok1, line)
                L.ob("C11.R4", F_MF, lay["table"]["name"],
                     "TS 45.002 clause 7 table %s, %s: block starts (mod %d) == first-burst frames of %s in %s, bursts numbered in block order" % (
                         e["table"], eid, span, lname.replace("L1SCHED_", ""), where),
                     "equal frame sets, burst k has bid k", f2 if not bad or not ok2 else "; ".join(bad), ok2 and not bad, line)
            else:
                own = set()
                for f in e["frames"]:
                    own |= set(range(f % P, span, P))
                tx_all = trx_frames(T, lay, lv, d.lower(), False, span)
                ok1, f1 = cmp_sets(own, tx_all, "TS 45.002", "trxcon")
                L.ob("C11.R4", F_MF, lay["table"]["name"],
                     "TS 45.002 clause 7 table %s, %s: frames (mod %d) == frames of %s in %s" % (
                         e["table"], eid, span, lname.replace("L1SCHED_", ""), where),
                     "equal frame sets", f1, ok1, line)
    if complete:
        L.floor("C11.R4", "(clause 7 entry, layout) comparisons", n, 120)


# ========================================================= thorough tier

def tokens_of(path):
    with open(path, "r", encoding="utf-8", errors="replace") as f:
        src = strip_comments(f.read())
    src = re.sub(r'"(?:\\.|[^"\\])*"', '""', src)
    return src


def t_directory_scan(L, parsed):
    """Completeness premise of the per-TU rules: the trxcon files clang cannot
    parse here do not touch the layout tables at all."""
    root = os.path.join(L.repo, "src/host/trxcon")
    hits = {}
    nfiles = 0
    for dp, dn, fns in os.walk(root):
        for fn in sorted(fns):
            if not fn.endswith((".c", ".h")):
                continue
            rel = os.path.relpath(os.path.join(dp, fn), L.repo)
            if os.path.islink(os.path.join(dp, fn)) and not os.path.exists(os.path.join(dp, fn)):
                continue    # link into a directory outside the self-test's scratch copy
            nfiles += 1
            L.unit(rel)
            txt = tokens_of(os.path.join(dp, fn))
            for pat, what in ((r"(?:->|\.)\s*frames\b", "member access `frames`"),
                              (r"\bl1sched_configure_ts\b", "l1sched_configure_ts"),
                              (r"\bl1sched_mframe_layout\b", "l1sched_mframe_layout"),
                              (r"\blayouts\b", "layouts[]")):
                if re.search(pat, txt):
                    hits.setdefault(what, set()).add(rel)
    L.floor("C11.R1", "trxcon source files scanned", nfiles, 20)
    for what, files in sorted(hits.items()):
        for rel in sorted(files):
            if rel.endswith(".h"):
                if what.startswith("l1sched_"):
                    continue    # prototype
                raise AnalysisError("header %s contains code touching %s; cannot tell" % (rel, what))
            if rel not in parsed:
                raise AnalysisError("%s mentions %s but is not one of the analysed translation units; cannot tell" % (rel, what))
            L.ob("C11.R1", rel, "-", "%s is used only in analysed translation units" % what,
                 "analysed", "analysed", True)


def returns_set(tu, fname):
    f = tu.func(fname)
    vals = set()
    for n in walk(tu.body(f)):
        if kind(n) == "ReturnStmt":
            v = tu.fold(kids(n)[0]) if kids(n) else None
            if v is None:
                raise AnalysisError("%s(): return value `%s` is not a constant" % (fname, ctext(kids(n)[0]) if kids(n) else ""))
            vals.add(v)
    if not vals:
        raise AnalysisError("%s() has no return" % fname)
    return vals


class ValueSets:
    def __init__(self, L, tus):
        self.L = L
        self.tus = tus      # rel -> TU

    def func_tu(self, name):
        for tu in self.tus.values():
            f = tu.functions.get(name)
            if f is not None and any(kind(c) == "CompoundStmt" for c in kids(f)):
                return tu
        raise AnalysisError("no analysed translation unit defines %s()" % name)

    def of_expr(self, tu, f, g, loc, e, at, depth=0):
        """set of possible values of expression e evaluated at CFG node `at`"""
        e = strip(e, casts=True)
        if depth > 6:
            raise AnalysisError("value-set recursion too deep")
        v = tu.fold(e)
        if v is not None:
            return {v}
        k = kind(e)
        if k == "CallExpr":
            callee = strip(kids(e)[0])
            if kind(callee) == "DeclRefExpr":
                nm = callee.get("referencedDecl", {}).get("name")
                return returns_set(self.func_tu(nm), nm)
            raise AnalysisError("indirect call in a channel combination value")
        if k == "DeclRefExpr" and loc.is_local(e) and not loc.is_param(e):
            s = loc.single(e)
            if s is None:
                raise AnalysisError("%s: local `%s` has %s definitions; cannot bound its value" % (f.get("name"), ctext(e), loc.ndefs(e)))
            if not g.dominates(g.node_of(s[1]), at):
                raise AnalysisError("definition of `%s` does not dominate its use" % ctext(e))
            vals = self.of_expr(tu, f, g, loc, s[0], g.node_of(s[1]), depth + 1)
            # refine by guards `CONST == var` that hold / fail on every path to `at`
            for t, p in g.guard_lits(at):
                m = re.fullmatch(r"(-?\d+) == (\w+)", t)
                if m and m.group(2) == ctext(e):
                    c = int(m.group(1))
                    vals = (vals & {c}) if p else (vals - {c})
            return vals
        if k == "MemberExpr":
            base = strip(kids(e)[0], casts=True)
            bt = base.get("type", {}).get("qualType", "")
            m = re.search(r"struct (\w+)", bt)
            if not m:
                raise AnalysisError("cannot bound `%s`" % ctext(e))
            return self.of_field(tu, f, g, m.group(1), e.get("name"), at)
        raise AnalysisError("%s: cannot bound the channel combination `%s`" % (f.get("name"), ctext(e)[:60]))

    def of_field(self, tu, f, g, sname, field, at):
        """value set of <struct sname>.field as received by an FSM action:
        the struct is the `data` of an event; collect every dispatch of the
        event(s) under which `at` executes and the initialisers of the
        dispatched variable."""
        evs = set()
        for t, p in g.guard_lits(at):
            m = re.fullmatch(r"event == (-?\d+)", t)
            if m and p:
                evs.add(int(m.group(1)))
        if len(evs) != 1:
            raise AnalysisError("%s(): cannot tell under which FSM event `%s.%s` is read" % (f.get("name"), sname, field))
        ev = evs.pop()
        vals = set()
        nsrc = 0
        for rel, xtu in sorted(self.tus.items()):
            for fname, xf in body_funcs(xtu):
                for c in calls_to(xtu.body(xf), "osmo_fsm_inst_dispatch"):
                    a = call_args(c)
                    if len(a) != 3 or xtu.fold(a[1]) != ev:
                        if len(a) == 3 and xtu.fold(a[1]) is None:
                            raise AnalysisError("%s(): osmo_fsm_inst_dispatch with a non-constant event" % fname)
                        continue
                    d = strip(a[2], casts=True)
                    if not (kind(d) == "UnaryOperator" and d.get("opcode") == "&" and kind(strip(kids(d)[0])) == "DeclRefExpr"):
                        raise AnalysisError("%s(): event %d is dispatched with data `%s`; cannot bound %s" % (fname, ev, ctext(d)[:40], field))
                    ref = strip(kids(d)[0])
                    xloc = Locals(xtu, xf)
                    vd = xloc.decl.get(Locals._ref(ref))
                    if vd is None or ("struct %s" % sname) not in vd.get("type", {}).get("qualType", ""):
                        raise AnalysisError("%s(): event %d is dispatched with a %s, expected struct %s" % (
                            fname, ev, vd.get("type", {}).get("qualType") if vd else "?", sname))
                    nsrc += 1
                    xg = CCFG(xtu, xf)
                    flds = [n for n, _ in xtu.record_fields(sname)]
                    il = [x for x in kids(vd) if kind(x) == "InitListExpr"]
                    if il:
                        fe = kids(il[0])[flds.index(field)]
                        if kind(strip(fe)) == "ImplicitValueInitExpr":
                            vals |= {0}
                        else:
                            vals |= self.of_expr(xtu, xf, xg, xloc, fe, xg.node_of(vd), 1)
                    elif kids(vd):
                        raise AnalysisError("%s(): `%s` is initialised by an expression; cannot bound %s" % (fname, ctext(ref), field))
                    # later stores to var.field
                    nst = 0
                    for n in walk(xtu.body(xf)):
                        if kind(n) == "BinaryOperator" and n.get("opcode") == "=":
                            lhs = strip(kids(n)[0])
                            if kind(lhs) == "MemberExpr" and lhs.get("name") == field and \
                                    Locals._ref(kids(lhs)[0]) == vd["id"]:
                                nst += 1
                                vals |= self.of_expr(xtu, xf, xg, xloc, kids(n)[1], xg.node_of(n), 1)
                    if not il and not nst:
                        raise AnalysisError("%s(): `%s.%s` is never set before the dispatch" % (fname, ctext(ref), field))
        if nsrc == 0:
            raise AnalysisError("no dispatch of FSM event %d found in the analysed translation units" % ev)
        return vals


def t_configure_callers(L, T, lookup, tus):
    """No call site of l1sched_configure_ts can pass a combination whose
    lookup is not total/valid (in particular GSM_PCHAN_NONE, period 0)."""
    VS = ValueSets(L, tus)
    good = {cfg for (cfg, tn) in lookup}
    good = {c for c in good if all((c, tn) in lookup for tn in range(8))}
    n = 0
    for rel, tu in sorted(tus.items()):
        for fname, f in body_funcs(tu):
            cs = calls_to(tu.body(f), "l1sched_configure_ts")
            if not cs:
                continue
            L.fn(rel, fname)
            g = CCFG(tu, f)
            loc = Locals(tu, f)
            for c in cs:
                n += 1
                a = call_args(c)
                if len(a) != 3:
                    raise AnalysisError("l1sched_configure_ts call with %d arguments" % len(a))
                vals = VS.of_expr(tu, f, g, loc, a[2], g.node_of(c))
                names = sorted(short_cfg(T.cfg_name(v)) for v in vals)
                badv = sorted(short_cfg(T.cfg_name(v)) for v in vals if v not in good)
                L.ob("C11.R1", rel, fname,
                     "l1sched_configure_ts(.., %s): every possible combination has a total, valid layout lookup with period >= 1 (never %s)" % (
                         ctext(a[2])[:50], short_cfg(NONE_CFG)),
                     "subset of %s" % sorted(short_cfg(T.cfg_name(v)) for v in good),
                     names if not badv else {"possible": names, "invalid": badv}, not badv and bool(vals), tu.line(c))
    L.floor("C11.R1", "l1sched_configure_ts call sites", n, 4)


# =================================================================== run

def layout_periods(T):
    return sorted({lay["period"] for lay in T.layouts if lay["period"] > 0})


def s_trxcon(L, M):
    L.unit("src/host/trxcon/include/osmocom/bb/l1sched/l1sched.h")
    T = Trxcon(L)
    for k, v in M.get("config_values", {}).items():
        if isinstance(v, int):
            T.extra_cfg[k] = v
    return T


def s_trx_tu(L):
    return TU(L.repo, "trxcon", "src/sched_trx.c", L=L)


def s_lookup_sites(L, T, tu_trx):
    nsites = lookup_sites(L, tu_trx, F_TRX, layout_periods(T))
    L.floor("C11.R1", "frame lookup sites in sched_trx.c", nsites, 4)


def s_cross(L, T, FW, r2, M, S):
    lookup, LL = r2
    # when C11.R2 already reported invalid lookups there are fewer layouts to compare with;
    # the comparison floors only apply to a complete lookup model
    complete = len(lookup) >= 64
    r4_cross(L, T, FW, lookup, M, complete)
    r4_spec(L, T, lookup, M, S, complete)


def s_thorough_tus(L, T, tu_trx):
    tus = {F_TRX: tu_trx, F_MF: T.tu}
    tus[F_FSM] = TU(L.repo, "trxcon", "src/trxcon_fsm.c", L=L)
    tus[F_L1CTL] = TU(L.repo, "trxcon", "src/l1ctl.c", L=L)
    return tus


def s_thorough_sites(L, T, tus):
    t_directory_scan(L, set(tus))
    lookup_sites(L, T.tu, F_MF, layout_periods(T))
    for rel in (F_FSM, F_L1CTL):
        lookup_sites(L, tus[rel], rel, layout_periods(T))


def s_thorough_callers(L, T, r2, tus):
    t_configure_callers(L, T, r2[0], tus)


def run(L, tier):
    # Independent rule groups run as stages (report.Ledger.stage): an AnalysisError inside one group is
    # deferred, a violation recognised by another group is still reported; a group whose input is the
    # result of a failed group is skipped.
    M = load_spec("mframe_map.json")
    S = load_spec("ts45002_clause7.json")
    latency = M.get("dsp_latency_frames")
    if not isinstance(latency, int):
        raise AnalysisError("spec/mframe_map.json: dsp_latency_frames missing")
    T = L.stage(s_trxcon, L, M)
    L.stage(r1_tables, L, T)
    tu_trx = L.stage(s_trx_tu, L)
    L.stage(s_lookup_sites, L, T, tu_trx)
    L.stage(r1_alloc_by_mask, L, T, tu_trx)
    r2 = L.stage(r2_lookup, L, T)
    FW = L.stage(Firmware, L)
    L.stage(r3_fw_tables, L, FW)
    L.stage(r3_trigger, L, FW, latency)
    L.stage(s_cross, L, T, FW, r2, M, S)
    if T and FW:
        L.extra["tables"] = {
            "trxcon_layouts": len(T.layouts),
            "trxcon_frame_tables": len(T.tables),
            "trxcon_rows": sum(len(t["rows"]) for t in T.tables.values()),
            "firmware_tables": len(FW.tables),
            "firmware_rows": sum(len(t["rows"]) for t in FW.tables.values()),
            "lookup_pairs": len(r2[0]) if r2 else None,
        }
    if tier == "thorough":
        tus = L.stage(s_thorough_tus, L, T, tu_trx)
        L.stage(s_thorough_sites, L, T, tus)
        L.stage(s_thorough_callers, L, T, r2, tus)
