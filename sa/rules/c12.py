# C12 -- power state, child transceivers and clock distribution.

import ast

from report import AnalysisError
from pyfront import (Repo, CFG, canon, guard_literals, attr_accesses, literals,
                     qualname, calls_in, enclosing_func, TK)
from pyutil import (owners, params, deep_subst, find_calls, returns, lit_fmt, rel,
                    name_of, kwarg)
from dtable import Walker
import exprnf as X

EXPLANATION = (
    "Who-may-write scans (running, clck_links), guard-literal analysis of the "
    "power propagation loop, complete decision tables (all truth assignments "
    "of the branch atoms) for the clock-link update, generator start/stop, "
    "`ready` and the POWERON/POWEROFF branches, linear normal forms of the "
    "port expressions of the three interfaces, and structural checks of the "
    "application wiring.")
ASSUMPTIONS = [
    "running iff last effective power command succeeded follows from the single-writer rule + decision tables by induction (argued, not machine-checked)",
    "UDP socket semantics of bind()/sendto()",
]
F = rel("transceiver")


def r1_writers(L, repo):
    stores = []
    for m in repo.tk_modules():
        L.unit(m.rel)
        for n, kind in attr_accesses(m.tree, "running"):
            if kind != "load":
                stores.append((m, n, kind))
    ok_sites = 0
    for m, n, kind in stores:
        q = qualname(n)
        p = n._parent
        val = canon(p.value) if isinstance(p, ast.Assign) else None
        if q == "Transceiver.__init__":
            ok = kind == "store" and val == "False" and canon(n.value) == "self"
            want = "self.running = False"
        elif q == "Transceiver.power_event_handler":
            fd = enclosing_func(n)
            P = params(fd)[1]
            ok = kind == "store" and val == P
            want = "<trx>.running = %s" % P
        elif owners(m, n) <= {"Transceiver.power_event_handler"}:
            # a helper of the power event handler introduced later: the stored value must be a parameter fed by it
            ok = kind == "store"
            want = "<trx>.running = <the handler's argument>"
        else:
            ok, want = False, "no writer outside Transceiver.__init__ / power_event_handler"
        ok_sites += ok
        L.ob("C12.R1", m.rel, q, "writer of `running`: `%s`" % canon(p)[:60], want, canon(p)[:60], ok, n.lineno)
    L.floor("C12.R1", "writers of Transceiver.running", len(stores), 2)
    # clck_links mutations (attribute or alias name)
    muts = []
    for m in repo.tk_modules():
        for c in calls_in(m.tree):
            f = c.func
            if isinstance(f, ast.Attribute) and f.attr in ("append", "remove", "clear", "pop", "extend", "insert"):
                recv = f.value
                if (isinstance(recv, ast.Name) and recv.id == "clck_links") or \
                        (isinstance(recv, ast.Attribute) and recv.attr == "clck_links"):
                    muts.append((m, c))
        for n, kind in attr_accesses(m.tree, "clck_links"):
            if kind in ("store", "aug", "del", "store-item"):
                q = qualname(n)
                L.ob("C12.R1", m.rel, q, "assignment of clck_links", "only CLCKGen.__init__", q,
                     q == "CLCKGen.__init__", n.lineno)
    for m, c in muts:
        q = qualname(c)
        own = owners(m, c)
        L.ob("C12.R1", m.rel, q, "mutation of the clock link list `%s`" % canon(c)[:50],
             "only Transceiver.power_event_handler", sorted(own), own <= {"Transceiver.power_event_handler"}, c.lineno)
    L.floor("C12.R1", "clck_links mutations", len(muts), 2)
    # plain tuning state: what RXTUNE / TXTUNE said, nothing else (a frequency resolved from the hopping sequence that
    # leaks into it survives POWEROFF: the transceiver stays "tuned" and the next POWERON is not refused)
    n_tune = 0
    for m in repo.tk_modules():
        for a_ in ("_rx_freq", "_tx_freq"):
            for n, kind in attr_accesses(m.tree, a_):
                if kind == "load":
                    continue
                n_tune += 1
                own = owners(m, n)
                L.ob("C12.R1", m.rel, qualname(n), "writer of the plain tuning state `%s`" % canon(n),
                     "only Transceiver.__init__ and the RXTUNE / TXTUNE handler (CTRLInterfaceTRX.parse_cmd)", sorted(own),
                     own <= {"Transceiver.__init__", "CTRLInterfaceTRX.parse_cmd"}, n.lineno)
    L.floor("C12.R1", "writers of the plain tuning state", n_tune, 2)
    # the peer a link talks to is fixed by the port plan at construction (R5): nothing re-points it at run time
    # (e.g. "reply to whoever sent last" makes an injected datagram redirect all Rx bursts away from L1's +102)
    n_peer = 0
    for m in repo.tk_modules():
        for a_ in ("remote_addr", "remote_port", "base_port"):
            for n, kind in attr_accesses(m.tree, a_):
                if kind == "load":
                    continue
                n_peer += 1
                own = owners(m, n)
                L.ob("C12.R5", m.rel, qualname(n), "writer of the peer address / port plan `%s`" % canon(n),
                     "only constructors (UDPLink.__init__ and subclasses, Transceiver.__init__)", sorted(own),
                     all(o.endswith(".__init__") for o in own), n.lineno)
    L.floor("C12.R5", "writers of remote_addr / remote_port / base_port", n_peer, 3)
    # callers of power_event_handler
    n_call = 0
    for m in repo.tk_modules():
        for c in calls_in(m.tree):
            if isinstance(c.func, ast.Attribute) and c.func.attr == "power_event_handler":
                n_call += 1
                q = qualname(c)
                own = owners(m, c)
                L.ob("C12.R4", m.rel, q, "caller of power_event_handler `%s`" % canon(c)[:60],
                     "only CTRLInterfaceTRX.parse_cmd", sorted(own), own <= {"CTRLInterfaceTRX.parse_cmd"}, c.lineno)
    L.floor("C12.R4", "power_event_handler call sites", n_call, 2)


def r2_propagation(L, repo):
    ci, fd = repo.need_method("transceiver", "Transceiver", "power_event_handler")
    fn = "Transceiver.power_event_handler"
    L.fn(F, fn)
    P = params(fd)[1]
    cfg = CFG(fd)
    stores = [n for n in ast.walk(fd) if isinstance(n, ast.Attribute) and n.attr == "running"
              and isinstance(n.ctx, ast.Store)]
    if len(stores) != 1:
        L.require("C12.R2", F, fn, "number of stores to running", 1, len(stores))
        return
    st = stores[0]
    node = cfg.node_of(st)
    loop = cfg.in_loop(node)
    if loop is None or not isinstance(loop, ast.For):
        L.ob("C12.R2", F, fn, "running is updated for every selected transceiver", "in a for loop", "no loop", False, st.lineno)
        return
    V = canon(loop.target)
    LIST = canon(loop.iter)
    lits = guard_literals(cfg, node)
    L.require("C12.R2", F, fn, "running := poweron for every selected transceiver, unconditionally",
              lit_fmt({("for %s in %s" % (V, LIST), True)}), lit_fmt(lits), line=st.lineno)
    L.require("C12.R2", F, fn, "store goes to the loop transceiver", V, canon(st.value), line=st.lineno)
    brk = [n for n in ast.walk(loop) if isinstance(n, (ast.Break, ast.Return, ast.Continue))]
    L.require("C12.R2", F, fn, "break/continue/return in the propagation loop", 0, len(brk), line=loop.lineno)
    for meth in ("tx_queue_clear", "disable_fh"):
        calls = find_calls(fd, attr=meth)
        L.require("C12.R2", F, fn, "number of %s() calls" % meth, 1, len(calls))
        for c in calls:
            lits = guard_literals(cfg, cfg.node_of(c))
            want = {("for %s in %s" % (V, LIST), True), (P, False)}
            L.require("C12.R2", F, fn, "power-off: %s() for every selected transceiver" % meth,
                      lit_fmt(want), lit_fmt(lits), line=c.lineno)
            L.require("C12.R2", F, fn, "%s() receiver is the loop transceiver" % meth, V, canon(c.func.value), line=c.lineno)
    # selection of the list
    sel = {("self.child_mgt", True), ("0 == self.child_idx", True)}
    seen = {"children": 0, "self": 0}
    if isinstance(loop.iter, ast.IfExp):
        # the selection written as a conditional expression in the loop header (e.g. an inlined helper
        # `return [self, *children]` / `return [self]`)
        ie = loop.iter
        base = guard_literals(cfg, cfg.node_of(loop))
        pos, neg = literals(ie.test, True), literals(ie.test, False)
        for lits_, val, is_else in ((pos, ie.body, False), (None, ie.orelse, True)):
            v = canon(val)
            if not is_else and set(lits_) | set(base) == sel:
                ok = v in ("[self, *self.child_trx_list.trx_list]", "[self] + self.child_trx_list.trx_list",
                           "[self] + list(self.child_trx_list.trx_list)")
                seen["children"] += 1
                L.ob("C12.R2", F, fn, "managing parent (child_mgt and child_idx == 0) selects itself and all children",
                     "[self, *self.child_trx_list.trx_list]", v, ok, loop.lineno)
            elif is_else and set(pos) | set(base) == sel:
                seen["self"] += 1
                L.ob("C12.R2", F, fn, "otherwise only the transceiver itself is selected", "[self] in the else branch",
                     v, v == "[self]", loop.lineno)
            elif not is_else and set(literals(ie.test, False)) and set(literals(ast.UnaryOp(op=ast.Not(), operand=ie.test), True)) | set(base) == sel:
                # negated test: body is the 'only self' branch
                seen["self"] += 1
                L.ob("C12.R2", F, fn, "otherwise only the transceiver itself is selected", "[self] in the else branch",
                     v, v == "[self]", loop.lineno)
        if seen == {"children": 0, "self": 1}:
            v = canon(ie.orelse)
            seen["children"] += 1
            L.ob("C12.R2", F, fn, "managing parent (child_mgt and child_idx == 0) selects itself and all children",
                 "[self, *self.child_trx_list.trx_list]", v,
                 v in ("[self, *self.child_trx_list.trx_list]", "[self] + self.child_trx_list.trx_list",
                       "[self] + list(self.child_trx_list.trx_list)"), loop.lineno)
        defs = []
    else:
        defs = [n for n in ast.walk(fd) if isinstance(n, ast.Assign) and canon(n.targets[0]) == LIST]
        L.require("C12.R2", F, fn, "definitions of the selected-transceiver list", 2, len(defs))
        if len(defs) != 2:
            return
    for d in defs:
        lits = guard_literals(cfg, cfg.node_of(d))
        v = canon(d.value)
        if lits == sel:
            ok = v in ("[self, *self.child_trx_list.trx_list]", "[self] + self.child_trx_list.trx_list",
                       "[self] + list(self.child_trx_list.trx_list)")
            seen["children"] += 1
            L.ob("C12.R2", F, fn, "managing parent (child_mgt and child_idx == 0) selects itself and all children",
                 "[self, *self.child_trx_list.trx_list]", v, ok, d.lineno)
        else:
            seen["self"] += 1
            # must be the complement branch of the same test
            par = d._parent
            comp = isinstance(par, ast.If) and d in par.orelse and \
                literals(par.test, True) == sel
            L.ob("C12.R2", F, fn, "otherwise only the transceiver itself is selected", "[self] in the else branch",
                 "%s under %s" % (v, lit_fmt(lits)), v == "[self]" and comp, d.lineno)
    L.require("C12.R2", F, fn, "one definition per branch", {"children": 1, "self": 1}, seen)
    # "forgets all queued bursts": every container of the transceiver that the arrival path appends a burst to is
    # emptied (cleared or re-bound to an empty container) by tx_queue_clear()
    c3, app = repo.find_method(ci, "tx_queue_append")
    c4, clr = repo.find_method(ci, "tx_queue_clear")
    if app is not None and clr is not None:
        filled = set()
        for c in ast.walk(app):
            if isinstance(c, ast.Call) and isinstance(c.func, ast.Attribute) and c.func.attr in ("append", "extend", "insert", "appendleft", "put", "add") \
                    and isinstance(c.func.value, ast.Attribute) and isinstance(c.func.value.value, ast.Name) and c.func.value.value.id == "self":
                filled.add(c.func.value.attr)
            if isinstance(c, ast.AugAssign) and isinstance(c.target, ast.Attribute) and isinstance(c.target.value, ast.Name) and c.target.value.id == "self":
                filled.add(c.target.attr)
        emptied = set()
        for c in ast.walk(clr):
            if isinstance(c, ast.Call) and isinstance(c.func, ast.Attribute) and c.func.attr == "clear" \
                    and isinstance(c.func.value, ast.Attribute) and isinstance(c.func.value.value, ast.Name) and c.func.value.value.id == "self":
                emptied.add(c.func.value.attr)
            if isinstance(c, ast.Assign):
                for t in c.targets:
                    if isinstance(t, ast.Attribute) and isinstance(t.value, ast.Name) and t.value.id == "self" \
                            and (isinstance(c.value, (ast.List, ast.Tuple)) and not c.value.elts or isinstance(c.value, ast.Call) and not c.value.args):
                        emptied.add(t.attr)
            if isinstance(c, ast.Delete):
                for t in c.targets:
                    if isinstance(t, ast.Subscript) and isinstance(t.slice, ast.Slice) and t.slice.lower is None and t.slice.upper is None \
                            and isinstance(t.value, ast.Attribute):
                        emptied.add(t.value.attr)
        L.fn(F, "Transceiver.tx_queue_clear")
        L.floor("C12.R2", "containers the arrival path fills", len(filled), 1)
        L.ob("C12.R2", F, "Transceiver.tx_queue_clear", "every container tx_queue_append() fills is emptied by tx_queue_clear() (power-off forgets all queued bursts)",
             sorted(filled), sorted(emptied & filled), filled <= emptied, clr.lineno)
    # disable_fh really forgets the hopping configuration
    ci2, dfh = repo.need_method("transceiver", "Transceiver", "disable_fh")
    st = [n for n in ast.walk(dfh) if isinstance(n, ast.Assign) and canon(n.targets[0]) == "self.fh"]
    ok = len(st) == 1 and canon(st[0].value) == "None"
    if ok:
        cfg2 = CFG(dfh)
        lits = guard_literals(cfg2, cfg2.node_of(st[0]))
        ok = lits <= {("None is self.fh", False)}
    L.ob("C12.R2", F, "Transceiver.disable_fh", "disable_fh() sets fh = None whenever hopping is configured",
         "self.fh = None under (fh is not None) or unconditionally", [canon(s) for s in st], ok)
    return loop


def _r3_fold(L, repo):
    """Clock section of power_event_handler (everything from the first statement that mentions the clock generator)
    folded over its complete decision space: has a generator or not x own running state x own link in the list or
    not x another link in the list or not x generator running or not.  Required: the own link is in the list afterwards
    iff running (other links untouched), then start iff the generator is idle and the UPDATED list is not empty, stop
    iff it runs and the list is empty; nothing else happens to the generator.  -> number of rows, None = does not fold"""
    from consteval import Ev, Unknown, Raised, Opaque
    import itertools
    ci, fd = repo.need_method("transceiver", "Transceiver", "power_event_handler")
    fn = "Transceiver.power_event_handler"
    first = next((i for i, st in enumerate(fd.body) if "clck_gen" in canon(st)), None)
    if first is None:
        return None
    body = fd.body[first:]
    P = params(fd)[1]
    rows = []
    for has_gen, running, linked, other, gen_running in itertools.product((False, True), repeat=5):
        if not has_gen and (linked or other or gen_running):
            continue
        links = (["IF"] if linked else []) + (["OTHER"] if other else [])
        acts = []
        env = {P: running, "self.running": running, "self.clck_if": "IF",
               "self.clck_gen": Opaque("clck_gen") if has_gen else None}
        if has_gen:
            env["self.clck_gen.clck_links"] = links
            env["self.clck_gen.running"] = gen_running
        e = Ev(repo, ci.mod, env=env, self_cls=ci)
        e.ignore_calls = ("log.", "logging.")
        e.hooks = {"self.clck_gen.start": lambda a: acts.append("start"), "self.clck_gen.stop": lambda a: acts.append("stop")}
        try:
            r = e.run_block(body)
        except (Unknown, Raised):
            return None
        if isinstance(r, tuple) and r[1] is not None:
            return None
        want_links = ([x for x in links if x != "IF"] + ["IF"]) if running else [x for x in links if x != "IF"]
        want_acts = []
        if has_gen:
            if not gen_running and want_links:
                want_acts = ["start"]
            elif gen_running and not want_links:
                want_acts = ["stop"]
        rows.append((has_gen, running, linked, other, gen_running, sorted(links) if has_gen else None, acts,
                     sorted(want_links) if has_gen else None, want_acts))
    for has_gen, running, linked, other, gen_running, got_links, acts, want_links, want_acts in rows:
        L.require("C12.R3", F, fn, "clock links and generator after a power event [has generator=%d running=%d own link listed=%d "
                  "another link listed=%d generator running=%d]" % (has_gen, running, linked, other, gen_running),
                  (want_links, want_acts), (got_links, acts), line=fd.lineno)
    return len(rows)


def r3_clock_table(L, repo, force_shape=False):
    if not force_shape:
        n_ = _r3_fold(L, repo)
        if n_ is not None:
            L.floor("C12.R3", "decision-space rows of the clock section (fold)", n_, 18)
            L.extra["c12_r3_fold"] = n_
            L.structural("C12.R3 decision table of the clock section over the handler's branch atoms", r3_clock_table, L, repo, True)
            return
    ci, fd = repo.need_method("transceiver", "Transceiver", "power_event_handler")
    fn = "Transceiver.power_event_handler"
    subst = deep_subst(fd)

    def event(st):
        if isinstance(st, ast.Expr) and isinstance(st.value, ast.Call):
            t = canon(st.value, subst)
            for pat, name in (("self.clck_gen.clck_links.remove(self.clck_if)", "remove"),
                              ("self.clck_gen.clck_links.append(self.clck_if)", "append"),
                              ("self.clck_gen.start()", "start"), ("self.clck_gen.stop()", "stop")):
                if t == pat:
                    return name
            if "clck_links" in t or "clck_gen" in t:
                return ("other", t[:50])
            return None
        return None

    # decision table of the whole handler, restricted to clock actions
    W = Walker(event, subst)
    A_R, A_I, A_G, A_N, A_C = "self.running", "self.clck_if in self.clck_gen.clck_links", \
        "self.clck_gen.running", "self.clck_gen.clck_links", "None is self.clck_gen"
    known = (A_R, A_I, A_G, A_N, A_C)
    atoms = W.atoms(fd.body)
    unknown = [a for a in atoms if a not in known]
    for a in known:
        if a not in atoms:
            atoms.append(a)
    if len(atoms) > 10:
        raise AnalysisError("power_event_handler: too many branch atoms: %s" % atoms)
    atoms, rows = W.table(fd.body, atoms)
    n = 0
    from pyutil import ctor_invariants
    invs = ctor_invariants(repo, ci)
    for vals, ev in sorted(rows.items()):
        a = dict(zip(atoms, vals))
        # rows that contradict what the constructor guarantees (e.g. a child never owns a clock generator) cannot occur
        if any(all(t in a and a[t] == p for t, p in inv) for inv in invs):
            continue
        want = []
        if not a[A_C]:
            # link update first ...
            if not a[A_R] and a[A_I]:
                want.append("remove")
            elif a[A_R] and not a[A_I]:
                want.append("append")
            # ... then start/stop on the *updated* list (A_N = the list's truthiness at that point)
            if not a[A_G] and a[A_N]:
                want.append("start")
            elif a[A_G] and not a[A_N]:
                want.append("stop")
        n += 1
        extra = "".join(" %s=%d" % (u[:40], a[u]) for u in unknown)
        L.require("C12.R3", F, fn, "clock decision row has_clock=%d running=%d linked=%d gen_running=%d links_nonempty=%d%s" % (
            not a[A_C], a[A_R], a[A_I], a[A_G], a[A_N], extra), want, list(ev))
    L.floor("C12.R3", "decision-table rows", n, 32)
    # order: the clock section runs after the power state was propagated (self.running already updated)
    stores = [x for x in ast.walk(fd) if isinstance(x, ast.Attribute) and x.attr == "running" and isinstance(x.ctx, ast.Store)]
    acts = [c for c in calls_in(fd) if event(ast.Expr(value=c)) in ("remove", "append", "start", "stop")]
    cfg = CFG(fd)
    for c in acts:
        for st_ in stores:
            L.ob("C12.R3", F, fn, "clock action `%s` is decided after the power state was propagated" % canon(c, subst)[:50],
                 "not followed by a store to running", "", not cfg.reachable(cfg.node_of(c), cfg.node_of(st_)), c.lineno)
    L.floor("C12.R3", "clock actions", len(acts), 4)


def r3b_clckgen_running(L, repo):
    """CLCKGen.running / stop consistent: running iff a thread exists and is alive; stop joins and resets."""
    from dtable import eval_bool, collect_atoms
    FC = rel("clck_gen")
    L.unit(FC)
    ci, run = repo.need_method("clck_gen", "CLCKGen", "running")
    A_T, A_L = "None is self._thread", "self._thread.is_alive()"
    rets = []

    def evr(st):
        if isinstance(st, ast.Return):
            rets.append(st.value)
            return ("ret",)
        return None
    W = Walker(evr)
    atoms = W.atoms(run.body)
    for r_ in [x.value for x in ast.walk(run) if isinstance(x, ast.Return) and x.value is not None]:
        collect_atoms(r_, None, W.norm, atoms)
    unknown = [a for a in atoms if a not in (A_T, A_L)]
    for a in (A_T, A_L):
        if a not in atoms:
            atoms.append(a)
    import itertools
    for vals in itertools.product([False, True], repeat=len(atoms)):
        a = dict(zip(atoms, vals))
        del rets[:]
        W.locals = {}
        W.walk(run.body, dict(a), [])
        if len(rets) != 1:
            raise AnalysisError("CLCKGen.running: no single return on a path")
        try:
            got = bool(eval_bool(rets[0], a, None, W.norm))
        except AnalysisError:
            raise AnalysisError("CLCKGen.running: return value unclassifiable: %s" % canon(rets[0]))
        want = (not a[A_T]) and a[A_L]
        extra = "".join(" %s=%d" % (u[:40], a[u]) for u in unknown)
        L.require("C12.R3", FC, "CLCKGen.running", "running iff a thread exists and is alive [no_thread=%d alive=%d%s]" % (a[A_T], a[A_L], extra),
                  want, got)
    ci, stop = repo.need_method("clck_gen", "CLCKGen", "stop")
    if _r3b_fold_stop(L, repo, ci, stop, FC):
        L.structural("C12.R3 decision table of CLCKGen.stop over its branch atoms", _r3b_stop_table, L, repo, ci, stop, FC, A_T)
    else:
        _r3b_stop_table(L, repo, ci, stop, FC, A_T)


def _r3b_fold_stop(L, repo, ci, stop, FC):
    """stop() folded for its two states (no thread / a thread other than the caller's): without a thread nothing
    happens; with one the breaker is set, the thread joined, then the breaker cleared, and the thread is forgotten.
    The calling thread is a thread of its own (`threading.current_thread()` is never the generator's thread on the
    paths that may call stop(): C12.R10 / the escape analysis own that question)."""
    from consteval import Ev, Unknown, Raised, Opaque
    rows = []
    for has_thread in (False, True):
        acts = []
        env = {"self._thread": Opaque("clock thread") if has_thread else None, "self._breaker": Opaque("breaker")}
        e = Ev(repo, ci.mod, env=env, self_cls=ci)
        e.ignore_calls = ("log.", "logging.")
        e.hooks = {"self._breaker.set": lambda a: acts.append("set"), "self._breaker.clear": lambda a: acts.append("clear"),
                   "self._thread.join": lambda a: acts.append("join" if not a else "join(timeout)"),
                   "self._thread.is_alive": lambda a: False,
                   "threading.current_thread": lambda a: Opaque("calling thread")}
        try:
            r = e.run_block(stop.body)
        except (Unknown, Raised):
            return False
        rows.append((has_thread, acts, e.env.get("self._thread")))
    for has_thread, acts, left in rows:
        L.require("C12.R3", FC, "CLCKGen.stop", "stop() %s" % ("with a clock thread: breaker set, thread joined, breaker cleared - in this order - and the thread forgotten"
                                                           if has_thread else "without a thread does nothing"),
                  (["set", "join", "clear"], None) if has_thread else ([], None), (acts, left), line=stop.lineno)
    return True


def _r3b_stop_table(L, repo, ci, stop, FC, A_T):
    def evs(st):
        if isinstance(st, ast.Expr) and isinstance(st.value, ast.Call):
            t = canon(st.value)
            return None if t.startswith("log.") else t
        if isinstance(st, ast.Assign) and len(st.targets) == 1 and not isinstance(st.targets[0], ast.Name):
            return canon(st)
        return None
    W2 = Walker(evs)
    atoms = W2.atoms(stop.body)
    unknown = [a for a in atoms if a != A_T]
    if A_T not in atoms:
        atoms.append(A_T)
    atoms, rows = W2.table(stop.body, atoms)
    need = ["self._breaker.set()", "self._thread.join()", "self._thread = None", "self._breaker.clear()"]
    # `t.is_alive()` tested after an unconditional `t.join()` without a timeout is False: such rows cannot occur
    joins_plain = any(isinstance(c, ast.Call) and isinstance(c.func, ast.Attribute) and c.func.attr == "join" and not c.args and not c.keywords
                      for c in ast.walk(stop))
    joins_timed = any(isinstance(c, ast.Call) and isinstance(c.func, ast.Attribute) and c.func.attr == "join" and (c.args or c.keywords)
                      for c in ast.walk(stop))
    for vals, evs_ in sorted(rows.items()):
        a = dict(zip(atoms, vals))
        if joins_plain and not joins_timed and any(k.endswith(".is_alive()") and v for k, v in a.items()):
            continue
        got = [e for e in evs_ if e in need or "join" in str(e) or "_breaker" in str(e)]
        want = [] if a[A_T] else need
        extra = "".join(" %s=%d" % (u[:40], a[u]) for u in unknown)
        L.require("C12.R3", FC, "CLCKGen.stop", "stop(): set breaker, join, forget thread, clear breaker in this order; nothing without a thread [no_thread=%d%s]" % (
            a[A_T], extra), want, got)


def r4_power_cmds(L, repo, force_shape=False):
    ci, fd = repo.need_method("ctrl_if_trx", "CTRLInterfaceTRX", "parse_cmd")
    FT = rel("ctrl_if_trx")
    fn = "CTRLInterfaceTRX.parse_cmd"
    L.unit(FT)
    L.fn(FT, fn)
    REQ = params(fd)[1]
    # (a) the complete decision table of the two power commands over the flags the handler may test, obtained by
    # folding the handler's source (helpers included) for every flag combination
    folded = True
    try:
        if force_shape:
            raise AnalysisError("structural attempt")
        from cmdfold import fold_parse_cmd
        import itertools
        nrow = 0
        for running, ready in itertools.product((False, True), repeat=2):
            f = fold_parse_cmd(repo, ["POWERON"], {"running": running, "ready": ready})
            ok_ = (not running) and ready
            want = (0, [("power_event_handler", (), (("poweron", True),))]) if ok_ else (-1, [])
            got = (f.ret if f.raised is None else "raises %s" % f.raised,
                   [c_ for c_ in f.calls if c_[0] == "power_event_handler"] if not (len(f.calls) and any(
                       c_[0] == "power_event_handler" and c_[1] == (True,) for c_ in f.calls)) else
                   [("power_event_handler", (), (("poweron", True),))])
            L.require("C12.R4", FT, fn, "POWERON with running=%d ready=%d: status and power event" % (running, ready), want, got, line=fd.lineno)
            f = fold_parse_cmd(repo, ["POWEROFF"], {"running": running, "ready": ready})
            got = (f.ret if f.raised is None else "raises %s" % f.raised,
                   [("power_event_handler", (), (("poweron", False),))] if any(
                       c_[0] == "power_event_handler" and (c_[1] == (False,) or c_[2] == (("poweron", False),)) for c_ in f.calls) and
                   sum(1 for c_ in f.calls if c_[0] == "power_event_handler") == 1 else
                   [c_ for c_ in f.calls if c_[0] == "power_event_handler"])
            L.require("C12.R4", FT, fn, "POWEROFF with running=%d ready=%d: always succeeds with one power-off event" % (running, ready),
                      (0, [("power_event_handler", (), (("poweron", False),))]), got, line=fd.lineno)
            nrow += 2
        # a command with arguments is not a power command
        f = fold_parse_cmd(repo, ["POWERON", "1"], {"running": False, "ready": True})
        L.require("C12.R4", FT, fn, "POWERON with an argument triggers no power event", [], [c_ for c_ in f.calls if c_[0] == "power_event_handler"])
        L.floor("C12.R4", "power command rows folded", nrow, 8)
    except AnalysisError as e:
        folded = False
        if not force_shape:
            L.extra["c12_r4_fold"] = "not folded: %s" % str(e)[:100]
    cfg = CFG(fd)
    calls = find_calls(fd, attr="power_event_handler")
    seen = {}
    if folded:
        calls = []          # the shape rules below are the fallback for code the evaluator cannot fold
    for c in calls:
        arg = kwarg(c, "poweron", 0)
        val = canon(arg) if arg is not None else None
        lits = guard_literals(cfg, cfg.node_of(c))
        pos = {l for l in lits if not (l[0].startswith("self.verify_cmd(") and not l[1])}
        pos -= {("None is res", True)}
        # `res` = custom handler result; accept any name for it
        pos = {l for l in pos if not (l[0].startswith("None is ") and l[1])}
        if val == "True":
            want = {("self.verify_cmd(%s, 'POWERON', 0)" % REQ, True), ("self.trx.running", False),
                    ("self.trx.ready", True)}
        elif val == "False":
            want = {("self.verify_cmd(%s, 'POWEROFF', 0)" % REQ, True)}
        else:
            want = None
        seen[val] = seen.get(val, 0) + 1
        L.ob("C12.R4", FT, fn, "power_event_handler(%s) preconditions" % val,
             lit_fmt(want) if want else "constant True/False", lit_fmt(pos), want is not None and pos == want, c.lineno)
        L.require("C12.R4", FT, fn, "power event goes to the transceiver owning the control interface",
                  "self.trx", canon(c.func.value), line=c.lineno)
    if not folded:
        L.require("C12.R4", FT, fn, "one POWERON and one POWEROFF power event", {"True": 1, "False": 1}, seen)
    # decision table of the POWERON branch: status as function of (running, ready)
    br = [n for n in ast.walk(fd) if isinstance(n, ast.If) and
          literals(n.test, True) == {("self.verify_cmd(%s, 'POWERON', 0)" % REQ, True)}]
    if folded:
        pass
    elif len(br) == 1:
        def ev(st):
            if isinstance(st, ast.Return):
                return ("ret", canon(st.value))
            if isinstance(st, ast.Expr) and isinstance(st.value, ast.Call) and \
                    canon(st.value.func).endswith("power_event_handler"):
                return "poweron"
            return None
        W = Walker(ev)
        want_atoms = ["self.trx.ready", "self.trx.running"]
        atoms = W.atoms(br[0].body)
        unknown = [a for a in atoms if a not in want_atoms]
        for a in want_atoms:
            if a not in atoms:
                atoms.append(a)
        atoms, rows = W.table(br[0].body, atoms)
        for vals, evs in sorted(rows.items()):
            a = dict(zip(atoms, vals))
            if not a["self.trx.running"] and a["self.trx.ready"]:
                want = ("poweron", ("ret", "0"))
            else:
                want = (("ret", "-1"),)
            extra = "".join(" %s=%d" % (u[:40], a[u]) for u in unknown)
            L.require("C12.R4", FT, fn, "POWERON with running=%d ready=%d%s" % (a["self.trx.running"], a["self.trx.ready"], extra),
                      want, evs)
    else:
        L.require("C12.R4", FT, fn, "POWERON branch found", 1, len(br))
    # ready: folded over the complete abstraction {unset, set} of (Rx frequency, Tx frequency, hopping parameters)
    ci2, rd = repo.need_method("transceiver", "Transceiver", "ready")
    if not force_shape:
        from consteval import Ev, Unknown, Raised, Opaque
        import itertools
        ok_fold = True
        for rx, tx, fh in itertools.product((None, 935800000), (None, 890800000), (None, Opaque("HoppingParams"))):
            e_ = Ev(repo, ci2.mod, env={"self._rx_freq": rx, "self._tx_freq": tx, "self.fh": fh}, self_cls=ci2)
            try:
                r_ = e_.run_block(rd.body)
            except (Unknown, Raised):
                ok_fold = False
                break
            got_ = r_[1] if isinstance(r_, tuple) else None
            want_ = (rx is not None and tx is not None) or fh is not None
            L.require("C12.R4", F, "Transceiver.ready", "ready with rx_unset=%d tx_unset=%d fh_unset=%d" % (rx is None, tx is None, fh is None),
                      want_, bool(got_) if got_ is not None else None, line=rd.lineno)
        if ok_fold:
            return
    W = Walker(lambda st: ("ret", canon(st.value)) if isinstance(st, ast.Return) else None)
    want_atoms = ["None is self._rx_freq", "None is self._tx_freq", "None is self.fh"]
    atoms = W.atoms(rd.body)
    unknown = [a for a in atoms if a not in want_atoms]
    for a in want_atoms:
        if a not in atoms:
            atoms.append(a)
    atoms, rows = W.table(rd.body, atoms)
    for vals, evs in sorted(rows.items()):
        a = dict(zip(atoms, vals))
        tuned = not a["None is self._rx_freq"] and not a["None is self._tx_freq"]
        hop = not a["None is self.fh"]
        want = (("ret", "True" if (tuned or hop) else "False"),)
        extra = "".join(" %s=%d" % (u[:40], a[u]) for u in unknown)
        L.require("C12.R4", F, "Transceiver.ready", "ready with rx_unset=%d tx_unset=%d fh_unset=%d%s" % (
            a["None is self._rx_freq"], a["None is self._tx_freq"], a["None is self.fh"], extra), want, evs)


def lin(e, env=None):
    return X.linear(X.PyLower(env=env).lower(e))


def _fold_ports(L, repo, ci, init, fn):
    from consteval import Ev, Unknown, Raised, Opaque, Instance
    GEN = Opaque("clock generator")
    n = 0
    for base in (5700, 6700, 5800, 1024):
        for idx in (0, 1, 2, 7, 12):
            for gen in (None, GEN):
                kw = {}
                if idx:
                    kw["child_idx"] = idx
                if gen is not None:
                    kw["clck_gen"] = gen
                made = []

                def mk(name, made=made):
                    def h(a):
                        made.append((name, tuple(a)))
                        return Opaque(name)
                    return h
                e = Ev(repo, ci.mod, env={}, self_cls=ci)
                e.hooks = {"DATAInterface": mk("DATA"), "CTRLInterfaceTRX": mk("CTRL"), "UDPLink": mk("CLCK"),
                           "TRXList": lambda a: Opaque("TRXList"), "threading.Lock": lambda a: Opaque("lock"),
                           "threading.RLock": lambda a: Opaque("lock"), "Lock": lambda a: Opaque("lock")}
                e.ignore_calls = ("log.", "logging.")
                try:
                    # (the options arrive as keywords: bound to **kwargs or to keyword parameters, whichever the
                    # constructor declares)
                    for k_, v_ in e._bindargs(init, ["<self>", "BIND", "REMOTE", base], dict(kw)):
                        if k_ != "self":
                            e.env[k_] = v_
                    e.run_block(init.body)
                    got = sorted(made)
                except Unknown:
                    return False
                except Raised as ex:
                    got = "raises %s" % ex.cls
                n += 1
                cfgtxt = "base port %d, child index %d, %s clock generator" % (base, idx, "with" if gen is not None else "without")
                if gen is not None and idx > 0:
                    L.ob("C12.R5", F, fn, "%s: a child transceiver with its own clock is refused" % cfgtxt, "raises", got,
                         isinstance(got, str) and got.startswith("raises"), init.lineno)
                    continue
                want = [("CTRL", ("<self>", "REMOTE", base + 2 * idx + 101, "BIND", base + 2 * idx + 1)),
                        ("DATA", ("REMOTE", base + 2 * idx + 102, "BIND", base + 2 * idx + 2))]
                if gen is not None:
                    want = [("CLCK", ("REMOTE", base + 100, "BIND", base))] + want
                norm = got
                if isinstance(got, list):
                    norm = [(k, tuple("<self>" if isinstance(x, Instance) else x for x in a)) for k, a in got]
                L.require("C12.R5", F, fn, "%s: interfaces created as (remote address, remote port, bind address, bind port)" % cfgtxt,
                          sorted(want), norm, line=init.lineno)
                if isinstance(got, list):
                    L.require("C12.R5", F, fn, "%s: a new transceiver is not running" % cfgtxt, False, e.env.get("self.running"), line=init.lineno)
                    L.require("C12.R5", F, fn, "%s: child index, child management (default: managing) and clock generator as given" % cfgtxt,
                              (idx, True, gen), (e.env.get("self.child_idx"), e.env.get("self.child_mgt"), e.env.get("self.clck_gen")), line=init.lineno)
    L.floor("C12.R5", "constructor configurations folded", n, 30)
    return True


def _r5_links_shape(L, repo, FU):
    ci3, snd = repo.need_method("udp_link", "UDPLink", "send")
    dst = [canon(c.args[1]) for c in calls_in(snd) if canon(c.func).endswith("sock.sendto") and len(c.args) > 1]
    L.require("C12.R5", FU, "UDPLink.send", "send() goes to the stored remote endpoint",
              ["(self.remote_addr, self.remote_port)"], sorted(set(dst)))
    # interface wrappers pass their arguments through unchanged
    for modn, cls, skip in (("data_if", "DATAInterface", 0), ("ctrl_if", "CTRLInterface", 0), ("ctrl_if_trx", "CTRLInterfaceTRX", 1)):
        c4, m4 = repo.need_method(modn, cls, "__init__")
        L.unit(rel(modn))
        va = m4.args.vararg.arg if m4.args.vararg else None
        base = [c for c in calls_in(m4) if canon(c.func).endswith(".__init__")]
        ok = va is not None and len(base) == 1 and [canon(a) for a in base[0].args] == ["self", "*" + va] \
            and len(params(m4)) == 1 + skip
        L.ob("C12.R5", rel(modn), cls + ".__init__", "link arguments are passed through to the base constructor unchanged",
             "Base.__init__(self, *args)", [canon(c) for c in base], ok, m4.lineno)


def _r5_links(L, repo, FU):
    """send() goes to the stored remote endpoint, and the interface wrappers hand their link arguments to the base
    constructor unchanged - decided by folding: UDPLink.send(b"x") with the socket's sendto as recording oracle,
    and every wrapper constructor with the base constructor as recording oracle (positional call with distinct
    witnesses for remote address / port / bind address / port)."""
    from consteval import Ev, Unknown, Raised, Opaque
    try:
        ci3, snd = repo.need_method("udp_link", "UDPLink", "send")
        sent = []
        e = Ev(repo, ci3.mod, env={params(snd)[1]: b"x", "self.remote_addr": "RADDR", "self.remote_port": 4711}, self_cls=ci3)
        e.hooks = {"self.sock.sendto": lambda a: sent.append(tuple(a))}
        e.run_block(snd.body)
        L.require("C12.R5", FU, "UDPLink.send", "send() hands the datagram to the socket for the stored remote endpoint",
                  [(b"x", ("RADDR", 4711))], sent, line=snd.lineno)
        for modn, cls, skip in (("data_if", "DATAInterface", 0), ("ctrl_if", "CTRLInterface", 0), ("ctrl_if_trx", "CTRLInterfaceTRX", 1)):
            c4, m4 = repo.need_method(modn, cls, "__init__")
            L.unit(rel(modn))
            got = []
            e = Ev(repo, c4.mod, env={}, self_cls=c4)
            e.ignore_calls = ("log.", "logging.")
            hooks = {}
            for b_ in repo.mro(c4)[1:]:
                hooks["%s.__init__" % b_.name] = (lambda a, nm=b_.name: got.append((nm, tuple(a))))
            e.hooks = hooks
            args = ["<self>"] + ([Opaque("TRX")] if skip else []) + ["RADDR", 5802, "BADDR", 5702]
            for k_, v_ in e._bindargs(m4, args, {}):
                if k_ != "self":
                    e.env[k_] = v_
            e.env["self"] = "<self>"
            e.run_block(m4.body)
            base_name = repo.mro(c4)[1].name if len(repo.mro(c4)) > 1 else None
            norm = [(nm, tuple(x for x in a if x != "<self>")) for nm, a in got]
            L.require("C12.R5", rel(modn), cls + ".__init__", "link arguments (remote address, remote port, bind address, bind port) reach the base constructor unchanged",
                      [(base_name, ("RADDR", 5802, "BADDR", 5702))], norm, line=m4.lineno)
    except (Unknown, Raised):
        _r5_links_shape(L, repo, FU)
        return
    L.structural("C12.R5 shape of UDPLink.send and of the interface constructors", _r5_links_shape, L, repo, FU)


def r5_ports(L, repo, force_shape=False):
    ci, init = repo.need_method("transceiver", "Transceiver", "__init__")
    fn = "Transceiver.__init__"
    L.fn(F, fn)
    ps = params(init)
    if ps[:4] != ["self", "bind_addr", "remote_addr", "base_port"]:
        raise AnalysisError("Transceiver.__init__ signature changed: %s" % ps)
    cfg = CFG(init)
    # UDPLink parameter order
    ci2, ul = repo.need_method("udp_link", "UDPLink", "__init__")
    FU = rel("udp_link")
    L.unit(FU)
    ups = params(ul)
    L.require("C12.R5", FU, "UDPLink.__init__", "parameter order (remote_addr, remote_port, bind_addr, bind_port)",
              ["self", "remote_addr", "remote_port", "bind_addr", "bind_port"], ups)
    binds = [c for c in calls_in(ul) if canon(c.func).endswith(".bind")]
    L.require("C12.R5", FU, "UDPLink.__init__", "socket is bound to (bind_addr, bind_port)",
              ["(bind_addr, bind_port)"], [canon(c.args[0]) for c in binds if c.args])
    st = {canon(n.targets[0]): canon(n.value) for n in ast.walk(ul) if isinstance(n, ast.Assign)}
    L.require("C12.R5", FU, "UDPLink.__init__", "remote endpoint stored", ("remote_addr", "remote_port"),
              (st.get("self.remote_addr"), st.get("self.remote_port")))
    _r5_links(L, repo, FU)
    # (a) the port plan decided by folding the constructor for witness configurations (base ports, child indexes,
    # with / without a clock generator), interface constructors as capturing oracles
    folded = False if force_shape else _fold_ports(L, repo, ci, init, fn)
    if not force_shape:
        L.extra["c12_port_plan_folded"] = folded
    if folded:
        return
    # (b) fallback: structural rules on the constructor's source
    # the constructor refuses invalid configurations by raising; what follows is
    # guarded by the negation of those tests, which is not a condition on creation
    refuse = set()
    for n in ast.walk(init):
        if isinstance(n, ast.If) and n.body and isinstance(n.body[-1], ast.Raise) and not n.orelse:
            refuse |= literals(n.test, False)
    env = {"self.child_idx": X.V("c"), "base_port": X.V("b")}
    plan = {
        "DATAInterface": (0, ({"b": 1, "c": 2}, 102), ({"b": 1, "c": 2}, 2)),
        "CTRLInterfaceTRX": (1, ({"b": 1, "c": 2}, 101), ({"b": 1, "c": 2}, 1)),
        "UDPLink": (0, ({"b": 1}, 100), ({"b": 1}, 0)),
    }
    for cls, (off, rwant, bwant) in plan.items():
        calls = find_calls(init, name=cls)
        L.require("C12.R5", F, fn, "number of %s constructions" % cls, 1, len(calls))
        for c in calls:
            a = c.args[off:]
            if len(a) != 4:
                raise AnalysisError("%s(...) argument shape changed" % cls)
            L.require("C12.R5", F, fn, "%s: address arguments (remote, bind)" % cls, ["remote_addr", "bind_addr"],
                      [canon(a[0]), canon(a[2])], line=c.lineno)
            L.require("C12.R5", F, fn, "%s: remote port = %s" % (cls, rwant), rwant, lin(a[1], env), line=c.lineno)
            L.require("C12.R5", F, fn, "%s: bind port = %s" % (cls, bwant), bwant, lin(a[3], env), line=c.lineno)
            if off:
                L.require("C12.R5", F, fn, "%s: owning transceiver" % cls, "self", canon(c.args[0]), line=c.lineno)
            lits = guard_literals(cfg, cfg.node_of(c)) - refuse
            want = {("None is self.clck_gen", False)} if cls == "UDPLink" else set()
            L.require("C12.R5", F, fn, "%s is created %s" % (cls, "only with a clock generator" if want else "unconditionally"),
                      lit_fmt(want), lit_fmt(lits), line=c.lineno)
    # child_idx / clck_gen taken from kwargs; child with own clock raises
    st = {canon(n.targets[0]): canon(n.value) for n in ast.walk(init) if isinstance(n, ast.Assign)}
    L.require("C12.R5", F, fn, "child index default", "kwargs.get('child_idx', 0)", st.get("self.child_idx"))
    L.require("C12.R5", F, fn, "child management default", "kwargs.get('child_mgt', True)", st.get("self.child_mgt"))
    L.require("C12.R5", F, fn, "clock generator default", "kwargs.get('clck_gen', None)", st.get("self.clck_gen"))
    raises = [n for n in cfg.nodes if isinstance(n.ast, ast.Raise)]
    ok = False
    for r in raises:
        if guard_literals(cfg, r) == {("None is self.clck_gen", False), ("0 < self.child_idx", True)}:
            ok = True
    L.ob("C12.R5", F, fn, "a child transceiver with its own clock is refused", "raise under clck_gen and child_idx > 0",
         [lit_fmt(guard_literals(cfg, r)) for r in raises], ok)


def _r6_fold(L, repo):
    """Application.append_trx / append_child_trx folded with the FakeTRX constructor and the transceiver lists as
    recording oracles, for the keyword sets the application itself uses (BTS, MS with child_mgt=False, --trx
    definitions with and without a child index): every keyword given to the helper reaches the constructor unchanged,
    parents get the shared clock generator, children none, and the new transceiver is registered in the global list
    (children also in their parent's).  -> False when the code leaves the evaluator's vocabulary"""
    from consteval import Ev, Unknown, Raised, Opaque
    FF = rel("fake_trx")
    ci = repo.need_class("fake_trx", "Application")
    c1, at = repo.need_method("fake_trx", "Application", "append_trx")
    c2, act = repo.need_method("fake_trx", "Application", "append_child_trx")
    R, P = Opaque("REMOTE"), 5700
    rows = []

    def run(fd, kw, parent_found=True):
        made, adds = [], []

        def mk(a, k):
            made.append((tuple(a), dict(k)))
            return Opaque("TRX%d" % len(made))
        mk.wants_kw = True
        env = {"self.argv.trx_bind_addr": Opaque("BIND"), "self.clck_gen": Opaque("CLCK"), "self.fake_pm": Opaque("PM")}
        e = Ev(repo, ci.mod, env=env, self_cls=ci)
        e.ignore_calls = ("log.", "logging.")
        e.hooks = {"FakeTRX": mk,
                   "self.trx_list.add_trx": lambda a: adds.append(("global", tuple(a))),
                   "PARENT.child_trx_list.add_trx": lambda a: adds.append(("parent", tuple(a))),
                   "self.trx_list.find_trx": lambda a: (Opaque("PARENT") if parent_found and tuple(a) == (R, P) else None)}
        raised = None
        try:
            e.call_func(fd, ci.mod, e._bindargs(fd, ["<self>", R, P], dict(kw)), self_cls=ci)
        except Raised as ex:
            raised = ex.cls
        return made, adds, raised
    try:
        for kw in ({"name": "BTS"}, {"name": "MS", "child_mgt": False}, {}, {"name": None, "child_idx": 0}):
            rows.append(("append_trx", kw, run(at, kw),
                         ([((Opaque("BIND"), R, P), dict(kw, clck_gen=Opaque("CLCK"), pwr_meas=Opaque("PM")))], [("global", (Opaque("TRX1"),))], None)))
        for kw in ({"name": "X", "child_idx": 2}, {"child_idx": 1}):
            rows.append(("append_child_trx", kw, run(act, kw),
                         ([((Opaque("BIND"), R, P), dict(kw, pwr_meas=Opaque("PM")))], sorted([("global", (Opaque("TRX1"),)), ("parent", (Opaque("TRX1"),))]), None)))
        if not L.extra.get("c12_init_folded"):
            # (who turns index 0 into a parent - the helper or its caller - is decided end to end by the start-up fold)
            kw = {"name": "Y", "child_idx": 0}
            rows.append(("append_child_trx", kw, run(act, kw),
                         ([((Opaque("BIND"), R, P), dict(kw, clck_gen=Opaque("CLCK"), pwr_meas=Opaque("PM")))], [("global", (Opaque("TRX1"),))], None)))
        kw = {"child_idx": 3}
        rows.append(("append_child_trx (no parent)", kw, run(act, kw, parent_found=False), ([], [], "IndexError")))
    except Unknown:
        return False
    # keywords spelled out with the value the transceiver's constructor would default to are no keywords at all
    dflt = {}
    for modn, cn in (("transceiver", "Transceiver"), ("fake_trx", "FakeTRX")):
        cc, ii = repo.need_method(modn, cn, "__init__")
        for c in calls_in(ii):
            if canon(c.func) == "kwargs.get" and len(c.args) == 2 and isinstance(c.args[0], ast.Constant) and isinstance(c.args[1], ast.Constant):
                dflt.setdefault(c.args[0].value, c.args[1].value)

    def norm(made):
        return [(a, {k: v for k, v in kw_.items() if not (k in dflt and v == dflt[k] and type(v) is type(dflt[k]))}) for a, kw_ in made]
    for title, kw, got, want in rows:
        got = (norm(got[0]), sorted(got[1]), got[2])
        want = (norm(want[0]), want[1], want[2])
        L.require("C12.R6", FF, "Application." + title.split(" ")[0], "%s(remote, port, %s): constructor arguments, registrations, outcome" % (
            title, ", ".join("%s=%r" % kv for kv in sorted(kw.items()))), (want[0], sorted(want[1]), want[2]), got)
    return True


def _r6_init_fold(L, repo):
    """Application.__init__ folded END TO END for witness command lines (no --trx; a --trx definition with child index 0;
    with child index 2; a child whose parent does not exist): the FakeTRX constructor, the lists, the clock generator, the
    power meter and the forwarder are recording oracles.  Required: BTS and MS are created as clock-owning parents (the MS
    with child_mgt=False), a definition with index 0 creates another clock-owning parent, one with index k > 0 a child
    with that index, without clock, registered globally and with the parent found by (address, port); a missing parent
    raises.  However the work is split between __init__, append_trx and append_child_trx.  -> False: does not fold"""
    from consteval import Ev, Unknown, Raised, Opaque
    FF = rel("fake_trx")
    ci, init = repo.need_method("fake_trx", "Application", "__init__")
    A, P = Opaque("ADDR"), 6700
    rows = []

    def run(trx_defs, parent_found=True):
        made, adds = [], []

        def mk(a, k):
            made.append((tuple(a), dict(k)))
            return Opaque("TRX%d" % len(made))
        mk.wants_kw = True
        argv = {"sched_rr_prio": None, "bts_addr": Opaque("BTS_ADDR"), "bts_base_port": 5700, "bb_addr": Opaque("BB_ADDR"), "bb_base_port": 6700,
                "trx_bind_addr": Opaque("BIND"), "trx_list": trx_defs}
        e = Ev(repo, ci.mod, env={}, self_cls=ci)
        e.ignore_calls = ("log.", "logging.", "signal.", "self.app_print_copyright", "self.app_init_logging")

        def clck(a, k):
            return {"kind": "CLCK", "links": a[0] if a else None}
        clck.wants_kw = True

        def opq(name):
            def h(a, k=None):
                return Opaque(name)
            h.wants_kw = True
            return h
        e.hooks = {"FakeTRX": mk, "self.parse_argv": lambda a: argv, "CLCKGen": clck, "FakePM": lambda a: {"kind": "PM"},
                   "TRXList": lambda a: {"kind": "LIST", "trx_list": []}, "BurstForwarder": lambda a: Opaque("FWD"),
                   "self.trx_list.add_trx": lambda a: adds.append(("global", tuple(a))),
                   "PARENT.child_trx_list.add_trx": lambda a: adds.append(("parent", tuple(a))),
                   "self.trx_list.find_trx": lambda a: (Opaque("PARENT") if parent_found and tuple(a) == (A, P) else None)}
        raised = None
        try:
            e.run_block(init.body)
        except Raised as ex:
            raised = ex.cls
        clk = e.env.get("self.clck_gen")
        pm = e.env.get("self.fake_pm")
        out = []
        for a, k in made:
            k = dict(k)
            k["clck_gen"] = "the shared clock" if k.get("clck_gen") is clk and clk is not None else ("none" if "clck_gen" not in k else "another object")
            k["pwr_meas"] = "the power meter" if k.get("pwr_meas") is pm and pm is not None else ("none" if "pwr_meas" not in k else "another object")
            out.append((a, k))
        return out, sorted(adds, key=repr), raised
    B = (Opaque("BIND"),)
    bts = (B + (Opaque("BTS_ADDR"), 5700), {"name": "BTS", "clck_gen": "the shared clock", "pwr_meas": "the power meter"})
    ms = (B + (Opaque("BB_ADDR"), 6700), {"name": "MS", "child_mgt": False, "clck_gen": "the shared clock", "pwr_meas": "the power meter"})
    g = lambda n: ("global", (Opaque("TRX%d" % n),))
    try:
        rows.append(("no --trx definitions", run(None), ([bts, ms], [g(1), g(2)], None)))
        rows.append(("--trx definition with child index 0", run([("Y", A, P, 0)]),
                     ([bts, ms, (B + (A, P), {"name": "Y", "child_idx": 0, "clck_gen": "the shared clock", "pwr_meas": "the power meter"})], [g(1), g(2), g(3)], None)))
        rows.append(("--trx definition with child index 2", run([("X", A, P, 2)]),
                     ([bts, ms, (B + (A, P), {"name": "X", "child_idx": 2, "clck_gen": "none", "pwr_meas": "the power meter"})],
                      sorted([g(1), g(2), g(3), ("parent", (Opaque("TRX3"),))], key=repr), None)))
        rows.append(("--trx definitions with child indexes 0 and 1", run([("Y", A, P, 0), (None, A, P, 1)]),
                     ([bts, ms, (B + (A, P), {"name": "Y", "child_idx": 0, "clck_gen": "the shared clock", "pwr_meas": "the power meter"}),
                       (B + (A, P), {"name": None, "child_idx": 1, "clck_gen": "none", "pwr_meas": "the power meter"})],
                      sorted([g(1), g(2), g(3), g(4), ("parent", (Opaque("TRX4"),))], key=repr), None)))
        rows.append(("--trx definition of a child whose parent does not exist", run([("X", A, P, 3)], parent_found=False), ([bts, ms], [g(1), g(2)], "IndexError")))
    except Unknown:
        return False
    dflt = {}
    for modn, cn in (("transceiver", "Transceiver"), ("fake_trx", "FakeTRX")):
        cc, ii = repo.need_method(modn, cn, "__init__")
        for c in calls_in(ii):
            if canon(c.func) == "kwargs.get" and len(c.args) == 2 and isinstance(c.args[0], ast.Constant) and isinstance(c.args[1], ast.Constant):
                dflt.setdefault(c.args[0].value, c.args[1].value)

    def norm(made):
        return [(a, {k: v for k, v in kw_.items() if not (k in dflt and v == dflt[k] and type(v) is type(dflt[k]))}) for a, kw_ in made]
    L.fn(FF, "Application.__init__")
    for title, got, want in rows:
        L.require("C12.R6", FF, "Application.__init__", "application start-up, %s: transceivers constructed (arguments), registrations, outcome" % title,
                  (norm(want[0]), want[1], want[2]), (norm(got[0]), got[1], got[2]), line=init.lineno)
    return True


def _r6_init_shape(L, repo):
    FF = rel("fake_trx")
    ci, init = repo.need_method("fake_trx", "Application", "__init__")
    fn = "Application.__init__"
    cfg = CFG(init)
    calls = find_calls(init, attr="append_trx")
    descs = []
    for c in calls:
        kws = {k.arg: canon(k.value) for k in c.keywords}
        descs.append(((canon(c.args[0]), canon(c.args[1])), kws, lit_fmt(guard_literals(cfg, cfg.node_of(c)))))
    want = [(("self.argv.bts_addr", "self.argv.bts_base_port"), {"name": "'BTS'"}, []),
            (("self.argv.bb_addr", "self.argv.bb_base_port"), {"name": "'MS'", "child_mgt": "False"}, [])]
    L.require("C12.R6", FF, fn, "BTS (managing its children) and MS (child_mgt=False) transceivers are created", want, descs)


def r6_wiring(L, repo):
    FF = rel("fake_trx")
    L.unit(FF)
    ci, init = repo.need_method("fake_trx", "Application", "__init__")
    fn = "Application.__init__"
    cfg = CFG(init)
    init_folded = _r6_init_fold(L, repo)
    L.extra["c12_init_folded"] = bool(init_folded)
    if init_folded:
        L.structural("C12.R6 shape of the BTS / MS creation in Application.__init__", _r6_init_shape, L, repo)
    else:
        _r6_init_shape(L, repo)
    st = {canon(n.targets[0]): canon(n.value) for n in ast.walk(init) if isinstance(n, ast.Assign)}
    L.require("C12.R6", FF, fn, "shared clock calls the application's tick handler", "self.clck_handler",
              st.get("self.clck_gen.clck_handler"))
    cg = st.get("self.clck_gen", "")
    L.ob("C12.R6", FF, fn, "shared clock generator starts with an empty link list", "CLCKGen([], ...)", cg,
         cg.startswith("CLCKGen([]"))
    # append_trx: shared clock; append_child_trx: no clock, both lists - decided by folding both helpers; the shape rules
    # below are the structural record (or the deciding rules when the helpers do not fold)
    if _r6_fold(L, repo):
        L.structural("C12.R6 shape of append_trx / append_child_trx", _r6_shape, L, repo)
    else:
        _r6_shape(L, repo)


def _r6_shape(L, repo):
    FF = rel("fake_trx")
    ci, at = repo.need_method("fake_trx", "Application", "append_trx")
    ctor = find_calls(at, name="FakeTRX")
    L.require("C12.R6", FF, "Application.append_trx", "FakeTRX constructions", 1, len(ctor))
    for c in ctor:
        kws = {k.arg: canon(k.value) for k in c.keywords}
        L.require("C12.R6", FF, "Application.append_trx", "parent transceivers share the application's clock generator",
                  "self.clck_gen", kws.get("clck_gen"), line=c.lineno)
        L.require("C12.R6", FF, "Application.append_trx", "constructor arguments (bind, remote, base_port)",
                  ["self.argv.trx_bind_addr", "remote_addr", "base_port"], [canon(a) for a in c.args], line=c.lineno)
    adds = [canon(c) for c in find_calls(at, attr="add_trx")]
    L.require("C12.R6", FF, "Application.append_trx", "registered in the global list", ["self.trx_list.add_trx(trx)"], adds)
    ci, act = repo.need_method("fake_trx", "Application", "append_child_trx")
    cfg2 = CFG(act)
    ctor = find_calls(act, name="FakeTRX")
    L.require("C12.R6", FF, "Application.append_child_trx", "FakeTRX constructions", 1, len(ctor))
    for c in ctor:
        kws = {k.arg: canon(k.value) for k in c.keywords}
        L.ob("C12.R6", FF, "Application.append_child_trx", "children are created without an own clock generator",
             "no clck_gen keyword", sorted(k for k in kws if k), "clck_gen" not in kws, c.lineno)
        var = canon(c._parent.targets[0]) if isinstance(c._parent, ast.Assign) else None
        adds = sorted(canon(x) for x in find_calls(act, attr="add_trx"))
        parent_def = [canon(n.value) for n in ast.walk(act) if isinstance(n, ast.Assign) and canon(n.targets[0]) == "trx_parent"]
        L.require("C12.R6", FF, "Application.append_child_trx", "child registered in the global list and in its parent's child list",
                  sorted(["self.trx_list.add_trx(%s)" % var, "trx_parent.child_trx_list.add_trx(%s)" % var]), adds, line=c.lineno)
        L.require("C12.R6", FF, "Application.append_child_trx", "parent looked up by (remote_addr, base_port), child index 0",
                  ["self.trx_list.find_trx(remote_addr, base_port)"], parent_def, line=c.lineno)


def _r9_fold(L, repo, run_):
    """Application.run folded for two rounds of its main loop with three registered transceivers (dict-shaped
    stand-ins carrying their two sockets), select() as a recording oracle that reports a chosen ready set in the first
    round and stops the loop in the second, and the two receive entry points as recording oracles: the set waited
    on is exactly the six sockets, and exactly the transceivers whose socket was reported ready are served, DATA by
    recv_data_msg and CTRL by ctrl_if.handle_rx.  -> False when the code leaves the evaluator's vocabulary"""
    from consteval import Ev, Unknown, Raised
    FF = rel("fake_trx")
    ci = repo.need_class("fake_trx", "Application")
    trxs = [{"name": "T%d" % i, "ctrl_if": {"sock": "C%d" % i, "owner": "T%d" % i}, "data_if": {"sock": "D%d" % i, "owner": "T%d" % i}} for i in (1, 2, 3)]
    recv_sites = {}
    for c in calls_in(run_):
        if isinstance(c.func, ast.Attribute) and c.func.attr in ("recv_data_msg", "handle_rx"):
            recv_sites[ast.unparse(c.func)] = (c.func.attr, c.func.value)
    if not recv_sites:
        return False
    rows = []
    for ready in (["D1", "C3"], ["C1", "D1", "C2", "D2", "C3", "D3"], ["C2"], []):
        waited, served, rounds = [], [], [0]
        e = Ev(repo, ci.mod, env={"self.trx_list.trx_list": trxs, "self.argv.sched_rr_prio": None}, self_cls=ci)
        e.ignore_calls = ("log.", "logging.")

        def sel(a, ready=ready, waited=waited, rounds=rounds):
            rounds[0] += 1
            if rounds[0] > 1:
                raise Raised("<stop>")
            waited.append(list(a[0]) if a else None)
            return (list(ready), [], [])
        hooks = {"select.select": sel, "select": sel}
        for txt, (kind, recv) in recv_sites.items():
            def h(a, kind=kind, recv=recv, served=served):
                o = e.ev(recv)
                if kind == "recv_data_msg":
                    served.append(("data", o.get("name") if isinstance(o, dict) else repr(o)))
                else:
                    served.append(("ctrl", o.get("owner") if isinstance(o, dict) else repr(o)))
                return None
            hooks[txt] = h
        e.hooks = hooks
        try:
            e.run_block(run_.body)
            return False            # the loop ended by itself: not the main loop we model
        except Raised as ex:
            if ex.cls != "<stop>":
                return False
        except Unknown:
            return False
        want_served = sorted(("data" if s_[0] == "D" else "ctrl", "T" + s_[1]) for s_ in ready)
        rows.append((ready, (sorted(waited[0]) if waited and waited[0] is not None else None, sorted(served)),
                     (["C1", "C2", "C3", "D1", "D2", "D3"], want_served)))
    for ready, got, want in rows:
        L.require("C12.R9", FF, "Application.run", "main loop with three transceivers, select() reporting %s ready: sockets waited on, transceivers served" % (ready or "nothing"),
                  want, got, line=run_.lineno)
    return True


def r9_served(L, repo):
    """R9 (every transceiver listens on its control / data ports): the main loop waits on the CTRL and DATA socket of EVERY
    registered transceiver.  The socket set handed to select() is either built in run() by walking the registration
    list, or kept in an attribute - then every function that registers a transceiver (calls trx_list.add_trx) must add
    that transceiver's two sockets to it; and whatever select() reports is dispatched by walking the full list."""
    FF = rel("fake_trx")
    ci, run_ = repo.need_method("fake_trx", "Application", "run")
    fn = "Application.run"
    L.fn(FF, fn)
    if _r9_fold(L, repo, run_):
        L.structural("C12.R9 shape of Application.run (socket set, dispatch loop)", _r9_shape, L, repo, run_, ci)
        return
    _r9_shape(L, repo, run_, ci)


def _r9_shape(L, repo, run_, ci):
    FF = rel("fake_trx")
    fn = "Application.run"
    sel = [c for c in calls_in(run_) if canon(c.func) in ("select.select", "select")]
    L.require("C12.R9", FF, fn, "one select() call in the main loop", 1, len(sel))
    if len(sel) != 1 or not sel[0].args:
        return
    S = sel[0].args[0]

    def socks_added(scope, target_txt):
        """{(variable, 'ctrl'|'data')} of sockets added to the set `target_txt` inside `scope`"""
        out = set()
        for n in ast.walk(scope):
            vals = []
            if isinstance(n, ast.Call) and isinstance(n.func, ast.Attribute) and canon(n.func.value) == target_txt \
                    and n.func.attr in ("append", "extend", "add", "insert"):
                for a in n.args:
                    vals += list(a.elts) if isinstance(a, (ast.List, ast.Tuple, ast.Set)) else [a]
            elif isinstance(n, ast.AugAssign) and canon(n.target) == target_txt and isinstance(n.op, ast.Add):
                vals += list(n.value.elts) if isinstance(n.value, (ast.List, ast.Tuple)) else [n.value]
            for v in vals:
                t = canon(v)
                for kind, suffix in (("ctrl", ".ctrl_if.sock"), ("data", ".data_if.sock")):
                    if t.endswith(suffix):
                        out.add((t[:-len(suffix)], kind))
        return out
    if isinstance(S, ast.Name):
        loops = [n for n in ast.walk(run_) if isinstance(n, ast.For) and canon(n.iter) == "self.trx_list.trx_list" and isinstance(n.target, ast.Name)]
        got = set()
        for lp in loops:
            got |= {k for v, k in socks_added(lp, S.id) if v == lp.target.id}
        if not got:
            raise AnalysisError("Application.run: how the socket set `%s` of select() is built is not recognised" % S.id)
        L.ob("C12.R9", FF, fn, "the socket set of select() holds the CTRL and the DATA socket of every registered transceiver",
             ["ctrl", "data"], sorted(got), got == {"ctrl", "data"}, sel[0].lineno)
    elif isinstance(S, ast.Attribute) and isinstance(S.value, ast.Name) and S.value.id == "self":
        txt = canon(S)
        n_reg = 0
        for mname, m in sorted(ci.methods.items()):
            for c in calls_in(m):
                if canon(c.func) == "self.trx_list.add_trx" and c.args:
                    n_reg += 1
                    v = canon(c.args[0])
                    got = {k for v2, k in socks_added(m, txt) if v2 == v}
                    L.ob("C12.R9", FF, "Application." + mname, "`%s` registers a transceiver: its CTRL and DATA sockets join the set select() waits on (%s)" % (canon(c)[:50], txt),
                         ["ctrl", "data"], sorted(got), got == {"ctrl", "data"}, c.lineno)
        L.floor("C12.R9", "registration sites", n_reg, 1)
    else:
        raise AnalysisError("Application.run: socket set of select() `%s` is neither a local list nor an attribute" % canon(S))
    # dispatch
    loops = [n for n in ast.walk(run_) if isinstance(n, ast.For) and canon(n.iter) == "self.trx_list.trx_list" and isinstance(n.target, ast.Name)]
    served = set()
    for lp in loops:
        v = lp.target.id
        for c in calls_in(lp):
            t = canon(c.func)
            if t == "%s.recv_data_msg" % v:
                served.add("data")
            if t == "%s.ctrl_if.handle_rx" % v:
                served.add("ctrl")
    if not served:
        raise AnalysisError("Application.run: the dispatch of ready sockets is not recognised")
    L.ob("C12.R9", FF, fn, "ready sockets are dispatched by walking the full registration list (DATA -> recv_data_msg, CTRL -> handle_rx)",
         ["ctrl", "data"], sorted(served), served == {"ctrl", "data"}, run_.lineno)


def r7_trx_def(L, repo):
    """R7 (port plan of transceivers from --trx definitions): the child index that shifts the control/data ports by
    2 per child is the whole decimal number after '/', the port the whole number after ':' (documented form
    [NAME@]ADDR:PORT[/IDX]). Application.trx_def is folded (regular expression included: constant pattern, constant
    subject) for witness definitions with 0-, 1-, 2- and 3-digit indexes and with/without a name."""
    from consteval import Ev, Unknown, Raised
    FA = rel("fake_trx")
    ci = repo.need_class("fake_trx", "Application")
    fd = ci.methods.get("trx_def")
    if fd is None:
        raise AnalysisError("Application.trx_def vanished")
    L.unit(FA)
    L.fn(FA, "Application.trx_def")
    ps = [p_ for p_ in params(fd) if p_ not in ("self", "cls")]
    if len(ps) != 1:
        raise AnalysisError("Application.trx_def signature changed")
    W = [("127.0.0.1:5700", (None, "127.0.0.1", 5700, 0)),
         ("127.0.0.1:5700/1", (None, "127.0.0.1", 5700, 1)),
         ("127.0.0.1:5700/9", (None, "127.0.0.1", 5700, 9)),
         ("127.0.0.1:5700/10", (None, "127.0.0.1", 5700, 10)),
         ("bts@127.0.0.1:5700/12", ("bts", "127.0.0.1", 5700, 12)),
         ("x@h:65000/123", ("x", "h", 65000, 123)),
         ("ms2@10.0.0.2:6700", ("ms2", "10.0.0.2", 6700, 0)),
         ("h:6700/0", (None, "h", 6700, 0))]
    n = 0
    for w, want in W:
        try:
            got = Ev(repo, ci.mod, self_cls=ci).call_func(fd, ci.mod, [(ps[0], w)])
            got = tuple(got) if isinstance(got, (list, tuple)) else got
        except Raised as e:
            got = "raises %s" % e.cls
        except Unknown as e:
            raise AnalysisError("Application.trx_def does not fold for %r: %s" % (w, e))
        n += 1
        L.require("C12.R7", FA, "Application.trx_def", "--trx %s is read as (name, address, base port, child index)" % w,
                  want, got, line=fd.lineno)
    L.floor("C12.R7", "--trx witness definitions folded", n, 8)


def run(L, tier):
    repo = Repo(L.repo)
    L.unit(F)
    L.stage(r1_writers, L, repo)
    L.stage(r2_propagation, L, repo)
    L.stage(r3_clock_table, L, repo)
    L.stage(r3b_clckgen_running, L, repo)
    L.stage(r4_power_cmds, L, repo)
    L.stage(r5_ports, L, repo)
    if "c12_r4_fold" not in L.extra:
        L.structural("C12.R4 guard sets and decision table of the POWERON / POWEROFF branches", r4_power_cmds, L, repo, True)
    if L.extra.get("c12_port_plan_folded"):
        L.structural("C12.R5 linear normal forms of the port expressions in Transceiver.__init__", r5_ports, L, repo, True)
    L.stage(r6_wiring, L, repo)
    L.stage(r7_trx_def, L, repo)
    L.stage(r9_served, L, repo)
    from pyutil import instance_state
    L.stage(instance_state, L, repo, "C12.R8", "transceiver", "Transceiver", "each transceiver manages its own children / queue")
    from pyutil import lock_join_order
    L.stage(lock_join_order, L, repo, "C12.R10")
