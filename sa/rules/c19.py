# C19 -- GSM time arithmetic is consistent across the code base.
#
# Also hosts the small term-level machinery shared with C07 (rules/c07.py
# imports it): forward substitution of tiny straight-line/if-else functions
# (Python `ast` and clang JSON) into exprnf terms, a canonical form for
# conditional terms, decision-table comparison of two conditional terms,
# minimal differing sub-terms, and an interval evaluation on terms.
# Nothing is executed: terms are syntactic normal forms over symbols.

import ast
import itertools
import math
import os
import re
import shutil
import tempfile

from report import AnalysisError, STAGE_FAILED
from pyfront import Repo, CFG, canon
from pyutil import rel
from consteval import Ev, Unknown, Raised
import exprnf as X
from exprnf import C, V
from cfront import TU, kids, kind, strip, walk, ctext, CLower, fold_env, wrap_int, calls_to, call_args

EXPLANATION = (
    "Forward substitution (no execution) of gsm_fn2gsmtime / gsm_gsmtime2fn (bundled libosmocore), l1s_time_inc "
    "(firmware, ADD_MODULO macro-expanded by clang) and HoppingParams.fn2gsm_time (Python ast) into the shared "
    "expression normal form; each component is compared with the TS 45.002 4.3.3 terms (T1 = FN div 1326, "
    "T2 = FN mod 26, T3 = FN mod 51, TC = (FN div 51) mod 8; FN = 51*((T3-T2) mod 26) + T3 + 1326*T1). C remainders "
    "are accepted only with an interval proof that the dividend is non-negative in the promoted type (the +26 bias). "
    "The incremental update is reduced to a complete decision table over its carry conditions {delta == 1, new T3 == 0, "
    "new T2 == 0} whose leaves are modular increments; moduli, GSM_MAX_FN == 2715648 == Python GSM_HYPERFRAME == "
    "2048*26*51 and gcd(26,51) == 1 are folded constants. The quantifier over all frame numbers is covered because "
    "the compared objects are the formulas themselves, not their values. A local helper that is handed the caller's own "
    "struct gsm_time pointer is substituted (fields renamed, early returns kept as conditions), Python assertions / defensive "
    "raises are conditional arms decided exactly over FN in 0..2715647 (interval solution of the guard -- comparisons, chained comparisons, "
    "`in range(a, b)` alike -- else a fold over every frame number): a guard no frame number of the hyperframe satisfies is dropped, a frame "
    "number that reaches a raise is reported with it; every rule group is a deferred stage. The normal form "
    "includes the division identities a - c*(a div c) == a mod c, (x mod (m*b)) div b == (x div b) mod m, (x div a) div b == "
    "x div (a*b), m*(x div (m*b)) + (x div b) mod m == x div b (a decomposition from the position inside the superframe); the "
    "dividend intervals are intersected with the interval of the expression's normal form (fn - (fn / c) * c is in 0..c-1). A "
    "component whose normal form still differs from its specification term is folded, together with that term, for each of the "
    "2715648 frame numbers: only a frame number on which they differ is a violation (reported with it). The same holds for the "
    "other two functions: a recomposition that is not in the recognised normal form (or has a C dividend the intervals do not prove "
    "non-negative, dividends of value-only helpers included) is folded in C integer semantics by the checker's own evaluator for every "
    "(T2, T3) pair of 0..25 x 0..50 (complete once T1 is shown to enter only as 1326*T1; a summand looked up in a table nobody writes is folded with the "
    "table read from its initialiser list, an offending element is named); an incremental update that is not in the "
    "recognised carry-chain shape is decided on its terms under the entry invariant -- fields replaced by the decomposition of fn, the "
    "effect of gsm_fn2gsmtime by the decomposition of its argument -- against the decomposition of (fn + delta) mod 2715648: each of the "
    "2715648 frame numbers for delta == 1, frame numbers around every carry point for the other deltas of the property; the moduli / "
    "carry-table obligations are then recorded as an open structural proof. Every value stored into a field of the running time fits "
    "the field (bit-field widths included), so the mathematical terms are what the C code computes. "
    "The Python builtin divmod(a, b) is the pair (a div b, a mod b) of the normal form (projections and tuple unpacking resolved). "
    "R4: the decomposition is a function of the frame number, not of the call history -- objects of static storage duration that "
    "gsm_fn2gsmtime() names and somebody writes are found from the AST; when a stored component reads one, the function is folded in C "
    "integer semantics by the checker's own evaluator on witness call sequences (forward and back, across superframe boundaries and "
    "the hyperframe wrap, the steps of every delta of the property) with the kept objects carried from call to call, and a call that "
    "stores another value than the decomposition of its own argument is reported; R1 then judges the first call (static initialisers).")
ASSUMPTIONS = [
    "arithmetic consequences of the verified formulas (round trip for each of the 2715648 frame numbers, agreement of the "
    "incremental and the recomputed time at every carry point) follow by the Chinese remainder argument from the checked "
    "moduli / carry conditions / gcd(26,51) == 1 and are not enumerated while the code has the recognised shape; an update in another "
    "shape is folded (delta == 1 completely, the other deltas on boundary witnesses: structural proof open in the evidence)",
    "inductive hypothesis of l1s_time_inc: on entry fn < 2715648, t1 < 2048, t2 < 26, t3 < 51, tc < 8 and delta_fn <= 2715648 "
    "(ADD_MODULO performs one conditional subtraction, a full reduction only for delta <= modulus)",
    "struct gsm_time is reached through one pointer only (no aliasing of its fields inside the analysed functions)",
    "state kept by gsm_fn2gsmtime() between calls is refuted on witness call sequences only (C19.R4): state they do not refute gives no "
    "verdict, it is never accepted",
]

F_UTILS = "src/shared/libosmocore/src/gsm/gsm_utils.c"
F_UTILS_H = "src/shared/libosmocore/include/osmocom/gsm/gsm_utils.h"
F_SYNC = "src/target/firmware/layer1/sync.c"
F_GSM = rel("gsm_shared")

HYPERFRAME = 2715648          # TS 45.002 4.3.3: 2048 * 26 * 51
INF = math.inf


# ------------------------------------------------------------------------------
# canonical conditional terms

def truth(t):
    """condition term -> canonical boolean term over `cmp` atoms"""
    k = t[0]
    if k == "cmp":
        return t
    if k == "not":
        u = truth(t[1])
        return u[1] if u[0] == "not" else ("not", u)
    if k in ("and", "or"):
        parts = []
        for x in t[1:]:
            u = truth(x)
            if u[0] == k:
                parts.extend(u[1:])
            else:
                parts.append(u)
        parts = sorted(set(parts), key=repr)
        return parts[0] if len(parts) == 1 else (k,) + tuple(parts)
    if k == "c":
        return C(1 if t[1] else 0)
    return ("not", X.cmp_("==", t, C(0)))


def ite_(c, a, b):
    c = truth(c)
    if c[0] == "c":
        return a if c[1] else b
    if c[0] == "not":
        c, a, b = c[1], b, a
    if a == b:
        return a
    if c[0] == "cmp" and c[1] == "<" and a == c[2] and b == X.sub(c[2], c[3]):
        # (S < m ? S : S - m): one conditional subtraction (ADD_MODULO)
        return ("red", c[2], c[3])
    return ("ite", c, a, b)


_NARY = ("+", "*", "&", "|", "^", "and", "or")


def mod_(a, n):
    """X.mod plus (x mod a) mod b == x mod b when b divides a (constants)"""
    if n[0] == "c" and n[1] > 0 and a[0] == "mod" and a[2][0] == "c" and a[2][1] > 0 and a[2][1] % n[1] == 0:
        return mod_(a[1], n)
    return X.mod(a, n)


def build(t, band=None):
    """re-apply the smart constructor of the head of t (children already normal)"""
    k = t[0]
    a = t[1:]
    if k in ("c", "v", "none", "raise", "post"):
        return t
    if k == "+":
        return X.add(*a)
    if k == "*":
        return X.mul(*a)
    if k == "mod":
        return mod_(a[0], a[1])
    if k == "div":
        return X.div(a[0], a[1])
    if k == "&":
        return (band or X.band)(*a)
    if k == "|":
        return X.bor(*a)
    if k == "^":
        return X.bxor(*a)
    if k == "<<":
        return X.shl(a[0], a[1])
    if k == ">>":
        return X.shr(a[0], a[1])
    if k == "neg":
        return X.neg(a[0])
    if k == "ite":
        return ite_(a[0], a[1], a[2])
    if k == "cmp":
        return X.cmp_(a[0], a[1], a[2])
    if k in ("not", "and", "or"):
        return truth(t)
    if k in ("idx", "call", "tuple", "red", "loop"):
        return t
    raise AnalysisError("term with unknown head %r" % (k,))


def renorm(t, leaf=None, band=None):
    """rebuild a term bottom-up through the smart constructors; `leaf(t)` may
    replace any sub-term (checked top-down, before descending)."""
    if leaf is not None:
        r = leaf(t)
        if r is not None:
            return r
    if t[0] in ("c", "v"):
        return t
    return build((t[0],) + tuple(renorm(x, leaf, band) if isinstance(x, tuple) else x for x in t[1:]), band)


def subterms(t):
    yield t
    for x in t[1:]:
        if isinstance(x, tuple):
            for y in subterms(x):
                yield y


def heads(t):
    return {x[0] for x in subterms(t)}


def cond_atoms(c, out):
    if c[0] == "cmp":
        out.add(c)
    elif c[0] in ("not", "and", "or"):
        for x in c[1:]:
            cond_atoms(x, out)
    else:
        out.add(c)


def atoms_of(t):
    out = set()
    for x in subterms(t):
        if x[0] == "ite":
            cond_atoms(x[1], out)
    return out


def cond_val(c, asg):
    if c[0] == "not":
        return not cond_val(c[1], asg)
    if c[0] == "and":
        return all(cond_val(x, asg) for x in c[1:])
    if c[0] == "or":
        return any(cond_val(x, asg) for x in c[1:])
    if c[0] == "c":
        return bool(c[1])
    if c not in asg:
        raise AnalysisError("decision table: condition %s has no truth value" % show(c))
    return asg[c]


def decide(t, asg, band=None):
    """resolve every conditional of t under a truth assignment of its atoms"""
    if t[0] in ("c", "v"):
        return t
    if t[0] == "ite":
        return decide(t[2] if cond_val(t[1], asg) else t[3], asg, band)
    return build((t[0],) + tuple(decide(x, asg, band) if isinstance(x, tuple) else x for x in t[1:]), band)


def diff(f, w):
    """minimal pairs (found sub-term, wanted sub-term) in which f and w differ"""
    if f == w:
        return []
    if f[0] != w[0] or f[0] in ("c", "v"):
        return [(f, w)]
    if f[0] in _NARY:
        fa, wa = list(f[1:]), list(w[1:])
        for x in list(fa):
            if x in wa:
                fa.remove(x)
                wa.remove(x)
        if len(fa) == 1 and len(wa) == 1:
            return diff(fa[0], wa[0])
        return [(f, w)]
    if len(f) != len(w):
        return [(f, w)]
    out = []
    for x, y in zip(f[1:], w[1:]):
        if isinstance(x, tuple) and isinstance(y, tuple):
            out += diff(x, y)
        elif x != y:
            return [(f, w)]
    return out


def table_compare(found, want, band=None, limit=10):
    """Compare two conditional terms as decision tables over their atomic
    conditions.  Returns a list of (found sub-term, wanted sub-term) pairs,
    empty iff the tables agree on every row."""
    fa, wa = atoms_of(found), atoms_of(want)
    pairs = []
    xf, xw = fa - wa, wa - fa
    alias = {}
    if xf or xw:
        a, b = (list(xf)[0], list(xw)[0]) if len(xf) == 1 and len(xw) == 1 else (None, None)
        if a is not None and a[0] == b[0] == "cmp" and a[1] == b[1] and not (a[2] == b[3] and a[3] == b[2]):
            # the same test over a differing operand: name the operand, keep comparing the rows
            pairs += diff(a, b)
            alias[a] = b
        elif a is not None:
            return [(("cond", a), ("cond", b))]
        else:
            for a in sorted(xf, key=repr):
                pairs.append((("cond", a), ("v", "<no such condition>")))
            for b in sorted(xw, key=repr):
                pairs.append((("v", "<condition missing>"), ("cond", b)))
            return pairs
    atoms = sorted(wa, key=repr)
    if len(atoms) > limit:
        raise AnalysisError("decision table with %d conditions" % len(atoms))
    for row in range(1 << len(atoms)):
        asg = {a: bool(row >> i & 1) for i, a in enumerate(atoms)}
        for a, b in alias.items():
            asg[a] = asg[b]
        lf, lw = decide(found, asg, band), decide(want, asg, band)
        for p in diff(lf, lw):
            if p not in pairs:
                pairs.append(p)
    return pairs


# ------------------------------------------------------------------------------
# display

def show(t, names=None):
    if names and t in names:
        return names[t]
    k = t[0]
    s = lambda x: show(x, names)
    if k == "c":
        return str(t[1])
    if k == "v":
        return t[1]
    if k == "+":
        pos = [x for x in t[1:] if not (x[0] == "*" and x[1][0] == "c" and x[1][1] < 0) and not (x[0] == "c" and x[1] < 0)]
        negs = [x for x in t[1:] if x not in pos]
        out = " + ".join(s(x) for x in pos) if pos else "0"
        for x in negs:
            if x[0] == "c":
                out += " - %d" % -x[1]
            else:
                rest = x[2] if len(x) == 3 else ("*",) + x[2:]
                out += " - %s%s" % ("" if x[1][1] == -1 else "%d*" % -x[1][1], s(rest))
        return "(%s)" % out
    if k == "*":
        return "*".join(s(x) for x in t[1:])
    if k in ("&", "|", "^", "and", "or"):
        return "(" + (" %s " % k).join(s(x) for x in t[1:]) + ")"
    if k in ("mod", "div", "<<", ">>"):
        return "(%s %s %s)" % (s(t[1]), k, s(t[2]))
    if k == "idx":
        i = s(t[2])
        return "%s[%s]" % (s(t[1]), i[1:-1] if (t[2][0] == "+" and i.startswith("(") and i.endswith(")")) else i)
    if k == "cond":
        return "branch condition %s" % s(t[1])
    if k == "ite":
        return "(%s if %s else %s)" % (s(t[2]), s(t[1]), s(t[3]))
    if k == "cmp":
        return "(%s %s %s)" % (s(t[2]), t[1], s(t[3]))
    if k == "not":
        return "not %s" % s(t[1])
    if k == "call":
        return "%s(%s)" % (t[1], ", ".join(s(x) for x in t[2:]))
    if k == "tuple":
        return "(%s)" % ", ".join(s(x) for x in t[1:])
    if k == "red":
        return "reduce_once(%s, %s)" % (s(t[1]), s(t[2]))
    if k == "loop":
        return "<%s computed by a loop from %s>" % (t[1], ", ".join(s(x) for x in t[2:]) or "constants")
    if k == "post":
        return "%s'%s(%s)" % (t[1], t[2], ", ".join(s(x) for x in t[3:]))
    if k == "none":
        return "None"
    if k == "raise":
        return "raise %s" % t[1]
    return repr(t)


# ------------------------------------------------------------------------------
# intervals on terms

def _mulb(a, b):
    if a == 0 or b == 0:
        return 0
    return a * b


def interval(t, rng=None, tables=None):
    """(lo, hi) enclosure of an integer term; rng maps terms to (lo, hi)"""
    rng = rng or {}
    if t in rng:
        return rng[t]
    k = t[0]
    iv = lambda x: interval(x, rng, tables)
    if k == "c":
        return (t[1], t[1])
    if k == "+":
        lo = hi = 0
        for x in t[1:]:
            a, b = iv(x)
            lo, hi = lo + a, hi + b
        return (lo, hi)
    if k == "*":
        lo = hi = 1
        for x in t[1:]:
            a, b = iv(x)
            c = [_mulb(lo, a), _mulb(lo, b), _mulb(hi, a), _mulb(hi, b)]
            lo, hi = min(c), max(c)
        return (lo, hi)
    if k == "mod":
        a, n = iv(t[1]), iv(t[2])
        if n[0] > 0:
            if a[0] >= 0 and a[1] < n[0]:
                return a
            return (0, n[1] - 1)
        return (-INF, INF)
    if k == "div":
        a, n = iv(t[1]), iv(t[2])
        if n[0] == n[1] and n[0] > 0:
            f = lambda v: v if v in (INF, -INF) else v // n[0]
            return (f(a[0]), f(a[1]))
        return (-INF, INF)
    if k == "&":
        his = [iv(x) for x in t[1:]]
        nn = [h[1] for h in his if h[0] >= 0]
        return (0, min(nn)) if nn else (-INF, INF)
    if k in ("|", "^"):
        his = [iv(x) for x in t[1:]]
        if all(h[0] >= 0 and h[1] != INF for h in his):
            return (0, (1 << max(int(h[1]).bit_length() for h in his)) - 1)
        return (-INF, INF)
    if k == ">>":
        a, s = iv(t[1]), iv(t[2])
        if a[0] >= 0 and s[0] == s[1] and s[0] >= 0 and a[1] != INF:
            return (a[0] >> s[0], a[1] >> s[0])
        return (0, a[1]) if a[0] >= 0 else (-INF, INF)
    if k == "ite":
        a, b = iv(t[2]), iv(t[3])
        return (min(a[0], b[0]), max(a[1], b[1]))
    if k == "red":
        a, n = iv(t[1]), iv(t[2])
        return (min(a[0], a[0] - n[1]), max(a[1], a[1] - n[0]))
    if k in ("cmp", "not", "and", "or"):
        return (0, 1)
    if k == "idx" and tables and t[1] in tables:
        tb = tables[t[1]]
        a = iv(t[2])
        if a[0] >= 0 and a[1] < len(tb):
            sl = tb[int(a[0]):int(a[1]) + 1]
            return (min(sl), max(sl))
        return (min(tb), max(tb))
    return (-INF, INF)


def ivtxt(iv):
    f = lambda v: "-inf" if v == -INF else "inf" if v == INF else str(int(v))
    return "[%s, %s]" % (f(iv[0]), f(iv[1]))


def decide_cond(c, rng=None, tables=None):
    """truth value of a condition term for every valuation inside `rng` (intervals of its symbols): True / False,
    or None when the intervals do not decide it.  Sound: a verdict is given only when it holds on the whole box."""
    k = c[0]
    if k == "c":
        return bool(c[1])
    if k == "not":
        v = decide_cond(c[1], rng, tables)
        return None if v is None else not v
    if k in ("and", "or"):
        vs = [decide_cond(x, rng, tables) for x in c[1:]]
        if k == "and":
            return False if any(v is False for v in vs) else True if all(v is True for v in vs) else None
        return True if any(v is True for v in vs) else False if all(v is False for v in vs) else None
    if k == "cmp" and c[1] in ("<", "=="):
        a, b = c[2], c[3]
        ia, ib = interval(a, rng, tables), interval(b, rng, tables)
        if c[1] == "<":
            if ia[1] < ib[0]:
                return True
            if ia[0] >= ib[1]:
                return False
            if a[0] == "mod" and a[2] == b and ib[0] > 0:
                return True             # (x mod n) < n for n > 0
            return None
        if a == b and -INF < ia[0] and ia[1] < INF:
            return True
        if ia[1] < ib[0] or ib[1] < ia[0]:
            return False
        if ia[0] == ia[1] == ib[0] == ib[1]:
            return True
        return None
    return None


def _settle_operands(c, rng, tables, log):
    def go(x):
        if x[0] in ("and", "or", "not"):
            return (x[0],) + tuple(go(y) for y in x[1:])
        v = decide_cond(x, rng, tables)
        if v is None:
            return x
        if log is not None:
            log.append((x, v))
        return C(int(v))
    return _bool_simplify(go(c))


def prune(t, rng, tables=None, band=None, log=None):
    """drop the arms of conditionals that cannot be taken inside `rng` (defensive branches, assertions): a
    condition decided by decide_cond is folded, everything else is left alone.  `log` collects (condition, value).
    A reduction that is the identity on the whole box (`x mod n` / `x & (n - 1)` with 0 <= x < n for every valuation
    inside `rng`: a defensive mask of a value that is in range already) is dropped the same way."""
    def leaf(x):
        if x[0] == "ite":
            c = renorm(x[1], leaf, band)
            v = decide_cond(c, rng, tables)
            if v is not None:
                if log is not None:
                    log.append((c, v))
                return renorm(x[2] if v else x[3], leaf, band)
            if c[0] in ("and", "or", "not"):
                # operands of a composite condition that the box decides (`0 <= fn` of `0 <= fn < n`) are folded away
                c = _settle_operands(c, rng, tables, log)
            return ite_(c, renorm(x[2], leaf, band), renorm(x[3], leaf, band))
        if x[0] == "mod":
            a, n = renorm(x[1], leaf, band), renorm(x[2], leaf, band)
            ia, im = interval(a, rng, tables), interval(n, rng, tables)
            if im[0] > 0 and ia[0] >= 0 and ia[1] < im[0]:
                if log is not None:
                    log.append((X.cmp_("<", a, n), True))
                return a
            return mod_(a, n)
        return None
    return renorm(t, leaf, band)


# ------------------------------------------------------------------------------
# exact solution sets of guard conditions over one integer symbol (finite unions of closed intervals)

def _iv_and(a, b):
    out = []
    for (l1, h1) in a:
        for (l2, h2) in b:
            lo, hi = max(l1, l2), min(h1, h2)
            if lo <= hi:
                out.append((lo, hi))
    return sorted(out)


def _iv_not(a, lo, hi):
    out, cur = [], lo
    for (l, h) in sorted(a):
        if l > cur:
            out.append((cur, l - 1))
        cur = max(cur, h + 1)
    if cur <= hi:
        out.append((cur, hi))
    return out


def _iv_or(a, b, lo, hi):
    return _iv_not(_iv_and(_iv_not(a, lo, hi), _iv_not(b, lo, hi)), lo, hi)


def solve_cond(c, var, lo, hi):
    """The set of integers v in lo..hi on which condition term c holds, as a sorted list of disjoint closed intervals
    -- exact, no enumeration: every atom must be a linear comparison of `var` with a constant (k*var + c < 0 or == 0,
    which covers `<`, `<=`, `>`, `>=`, `==`, `!=`, chained comparisons and `in range(a, b)` after lowering); None when
    some atom is anything else (the caller then folds the condition over the whole finite domain)."""
    k = c[0]
    if k == "c":
        return [(lo, hi)] if c[1] else []
    if k == "not":
        s = solve_cond(c[1], var, lo, hi)
        return None if s is None else _iv_not(s, lo, hi)
    if k in ("and", "or"):
        acc = [(lo, hi)] if k == "and" else []
        for x in c[1:]:
            s = solve_cond(x, var, lo, hi)
            if s is None:
                return None
            acc = _iv_and(acc, s) if k == "and" else _iv_or(acc, s, lo, hi)
        return acc
    if k == "cmp" and c[1] in ("<", "=="):
        co, k0 = X.linear(X.sub(c[2], c[3]))
        if not co:
            return [(lo, hi)] if (k0 < 0 if c[1] == "<" else k0 == 0) else []
        if list(co) != [X.show(var)] or co[X.show(var)] == 0:
            return None
        q = co[X.show(var)]
        if c[1] == "==":
            s = [(-k0 // q, -k0 // q)] if -k0 % q == 0 else []
        elif q > 0:
            s = [(-INF, (-k0 - 1) // q)]                # q*v + k0 < 0  <=>  v <= floor((-k0 - 1) / q)
        else:
            s = [(k0 // -q + 1, INF)]                   # (-q)*v > k0   <=>  v >= floor(k0 / -q) + 1
        return _iv_and(s, [(lo, hi)])
    return None


def raise_cond(t):
    """condition term under which the conditional term t ends in a ('raise', ..) leaf; C(0) when it has none"""
    if t[0] == "raise":
        return C(1)
    if t[0] != "ite":
        return C(0)
    a, b = raise_cond(t[2]), raise_cond(t[3])
    return truth(("or", truth(("and", t[1], a)), truth(("and", ("not", t[1]), b))))


def _bool_simplify(c):
    """constant operands of and / or / not folded away"""
    k = c[0]
    if k == "not":
        u = _bool_simplify(c[1])
        return C(1 - u[1]) if u[0] == "c" else truth(("not", u))
    if k in ("and", "or"):
        absorbing = 0 if k == "and" else 1
        parts = []
        for x in c[1:]:
            u = _bool_simplify(x)
            if u[0] == "c":
                if bool(u[1]) == bool(absorbing):
                    return C(absorbing)
                continue
            parts.append(u)
        if not parts:
            return C(1 - absorbing)
        return truth((k,) + tuple(parts))
    return c


def drop_raises(t):
    """t on the inputs that do not raise: every conditional with a raising arm is replaced by its other arm"""
    if t[0] != "ite":
        return t
    a, b = drop_raises(t[2]), drop_raises(t[3])
    if a[0] == "raise":
        return b
    if b[0] == "raise":
        return a
    return ite_(t[1], a, b)


def first_true(c, sym, n):
    """smallest x in 0..n-1 on which the condition term c over `sym` holds, None when there is none: the condition is
    folded by the checker's own arithmetic for every value (one compiled loop).  AnalysisError outside that arithmetic."""
    src = "def _f():\n    for x in range(%d):\n        if %s:\n            return x\n    return None\n" % (n, term_src(c, {sym: "x"}))
    g = {"__builtins__": {}, "range": range, "_at": _at, "_red": _red}
    try:
        exec(compile(src, "<first_true>", "exec"), g)
        return g["_f"]()
    except (SyntaxError, RecursionError, MemoryError, ArithmeticError, _Outside, TypeError, ValueError) as e:
        raise AnalysisError("condition cannot be folded over 0..%d: %s" % (n - 1, e))


def raising_inputs(t, var, lo, hi):
    """(smallest value of `var` in lo..hi on which the conditional term t raises or None, how many such values or
    None when they were not counted, how it was decided).  Exact: the guard conditions are solved as interval sets
    when they are linear comparisons of `var` with constants, otherwise folded for every value of the finite domain."""
    rc = _bool_simplify(raise_cond(t))
    s = solve_cond(rc, var, lo, hi)
    if s is not None:
        return (s[0][0] if s else None), sum(h - l + 1 for l, h in s), "interval solution of the guard conditions"
    if lo != 0:
        raise AnalysisError("guard condition %s is not decided by intervals" % show(rc)[:120])
    return first_true(rc, var, hi + 1), None, "guard conditions folded for each of the %d values" % (hi + 1)


# ------------------------------------------------------------------------------
# division identities (floor semantics, positive constant divisors; each holds for every integer)

def _size(t):
    return sum(1 for _ in subterms(t))


def _coeffs(t):
    """sum term -> [(base term, integer coefficient)], constant"""
    out, c = [], 0
    for x in (t[1:] if t[0] == "+" else (t,)):
        if x[0] == "c":
            c += x[1]
        elif x[0] == "*" and len(x) == 3 and x[1][0] == "c":
            out.append((x[2], x[1][1]))
        else:
            out.append((x, 1))
    return out, c


def _posc(t):
    return t[0] == "c" and t[1] > 0


def div_(a, n):
    """X.div plus (x div a) div b == x div (a*b) and (x mod (m*b)) div b == (x div b) mod m"""
    if _posc(n):
        if a[0] == "div" and _posc(a[2]):
            return div_(a[1], C(a[2][1] * n[1]))
        if a[0] == "mod" and _posc(a[2]) and a[2][1] % n[1] == 0:
            m = a[2][1] // n[1]
            return C(0) if m == 1 else mod_(div_(a[1], n), C(m))
    return X.div(a, n)


def _euclid_sum(t):
    """k*y - k*m*(y div m) == k*(y mod m)   and   k*(y mod m) + k*m*(y div m) == k*y; a rewrite is kept only when it
    makes the term smaller (so the procedure terminates and never obscures a term it does not simplify)"""
    while t[0] == "+":
        bases, _ = _coeffs(t)
        best = None
        for d, q in bases:
            cands = []
            if d[0] == "div" and _posc(d[2]):
                c = d[2][1]
                # dividends y with (y div m) == d: the dividend itself, and every x div b of the sum with b * m == c
                ys = [(d[1], c)]
                for y, _k in bases:
                    if y[0] == "div" and _posc(y[2]) and y[1] == d[1] and y[2][1] < c and c % y[2][1] == 0:
                        ys.append((y, c // y[2][1]))
                for y, m in ys:
                    if q % m == 0:
                        k = -(q // m)
                        cands.append(X.add(t, X.mul(C(-q), d), X.mul(C(-k), y), X.mul(C(k), mod_(y, C(m)))))
            if d[0] == "mod" and _posc(d[2]):
                y, m = d[1], d[2][1]
                dv = div_(y, C(m))
                for e, qe in bases:
                    if e == dv and qe == q * m:
                        cands.append(X.add(t, X.mul(C(-q), d), X.mul(C(-qe), e), X.mul(C(q), y)))
            for cand in cands:
                if _size(cand) < _size(best if best is not None else t):
                    best = cand
        if best is None:
            return t
        t = best
    return t


def euclid(t, band=None):
    """normal form of a term under the division identities above, bottom-up"""
    if t[0] in ("c", "v"):
        return t
    t = build((t[0],) + tuple(euclid(x, band) if isinstance(x, tuple) else x for x in t[1:]), band)
    if t[0] == "div":
        t = div_(t[1], t[2])
    if t[0] == "+":
        t = _euclid_sum(t)
    return t


# ------------------------------------------------------------------------------
# terms as checker-side arithmetic: a term is turned into one Python expression over its symbols (floor
# semantics, like the normal form) so that it can be folded over a whole finite domain

class _Outside(Exception):
    pass


def _at(tab, i):
    if not 0 <= i < len(tab):
        raise _Outside("index %d outside a table of %d entries" % (i, len(tab)))
    return tab[i]


def _red(a, n):
    return a if a < n else a - n


def term_src(t, names):
    """Python source of term t; `names` maps symbol terms to identifiers.  AnalysisError outside the vocabulary."""
    k = t[0]
    s = lambda x: term_src(x, names)
    if k == "c":
        return "(%d)" % t[1]
    if t in names:
        return names[t]
    if k in ("+", "*", "&", "|", "^"):
        return "(" + (" %s " % k).join(s(x) for x in t[1:]) + ")"
    if k in ("mod", "div", "<<", ">>"):
        return "(%s %s %s)" % (s(t[1]), {"mod": "%", "div": "//"}.get(k, k), s(t[2]))
    if k == "ite":
        return "(%s if %s else %s)" % (s(t[2]), s(t[1]), s(t[3]))
    if k == "cmp" and t[1] in ("<", "=="):
        return "(%s %s %s)" % (s(t[2]), t[1], s(t[3]))
    if k == "not":
        return "(not %s)" % s(t[1])
    if k in ("and", "or"):
        return "(" + (" %s " % k).join(s(x) for x in t[1:]) + ")"
    if k == "idx":
        return "_at(%s, %s)" % (s(t[1]), s(t[2]))
    if k == "red":
        return "_red(%s, %s)" % (s(t[1]), s(t[2]))
    if k == "tuple":
        return "(" + "".join(s(x) + ", " for x in t[1:]) + ")"
    if k == "raise":
        return "(%r,)" % ("raise %s" % t[1])
    if k == "none":
        return "('None',)"
    raise AnalysisError("term cannot be folded, `%s` is outside the checker's arithmetic" % show(t)[:80])


def term_fn(t, names, params):
    """callable(params...) computing term t"""
    src = "lambda %s: %s" % (", ".join(params), term_src(t, names))
    try:
        return eval(compile(src, "<term>", "eval"), {"__builtins__": {}, "_at": _at, "_red": _red})
    except (SyntaxError, RecursionError, MemoryError) as e:
        raise AnalysisError("term cannot be folded: %s" % e)


def first_difference(a, b, sym=("v", "FN"), n=HYPERFRAME):
    """exhaustive fold of two terms over sym = 0..n-1: None when they agree everywhere, else (value, a(value),
    b(value)) for the first value where they differ.  AnalysisError when a term leaves the checker's arithmetic."""
    fa, fb = term_fn(a, {sym: "x"}, ["x"]), term_fn(b, {sym: "x"}, ["x"])
    try:
        w = next((x for x in range(n) if fa(x) != fb(x)), None)
        return None if w is None else (w, fa(w), fb(w))
    except (ArithmeticError, _Outside, TypeError, ValueError) as e:
        raise AnalysisError("term cannot be folded over 0..%d: %s" % (n - 1, e))


def evalnum(t, env):
    """value of a term under a valuation of its symbols (checker-side arithmetic on the normal form, Python/floor
    semantics, non-negative operands only where C and mathematics could differ); a ('raise', ..) / ('tuple', ..) /
    ('none',) leaf is returned as it stands; None when something is unbound or outside this small vocabulary"""
    k = t[0]
    if k == "c":
        return t[1]
    if k == "v":
        return env.get(t)
    if k in ("raise", "tuple", "none"):
        return t
    if k == "ite":
        c = evalnum(t[1], env)
        return None if not isinstance(c, int) else evalnum(t[2] if c else t[3], env)
    a = [evalnum(x, env) for x in t[1:] if isinstance(x, tuple)]
    if any(not isinstance(x, int) for x in a):
        return None
    if k == "+":
        return sum(a)
    if k == "*":
        v = 1
        for x in a:
            v *= x
        return v
    if k in ("mod", "div") and a[0] >= 0 and a[1] > 0:
        return a[0] % a[1] if k == "mod" else a[0] // a[1]
    if k == "cmp" and t[1] in ("<", "=="):
        return int(a[0] < a[1]) if t[1] == "<" else int(a[0] == a[1])
    if k == "not":
        return int(not a[0])
    if k in ("and", "or"):
        return int(all(a)) if k == "and" else int(any(a))
    return None


def boundary_witnesses(t, lo, hi, extra=()):
    """values of one symbol worth trying: the ends of its range, the given carry points and every constant that a
    condition of t compares with (and its neighbours)"""
    out = {lo, lo + 1, hi - 1, hi} | set(extra)
    for c in atoms_of(t):
        for x in subterms(c):
            if x[0] == "c":
                out |= {x[1] - 1, x[1], x[1] + 1}
    return sorted(v for v in out if lo <= v <= hi)


# ------------------------------------------------------------------------------
# forward substitution: Python

class _PL(X.PyLower):
    def __init__(self, sym, env):
        X.PyLower.__init__(self, env, sym.const, self._leaf)
        self.sym = sym

    def lower(self, e):
        if isinstance(e, ast.Call) and isinstance(e.func, ast.Name) and e.func.id == "divmod" and len(e.args) == 2 \
                and not e.keywords and not any(isinstance(a, ast.Starred) for a in e.args) \
                and "divmod" not in self.env and self.sym.is_builtin("divmod"):
            # the builtin on integers: divmod(a, b) == (a // b, a % b) (floor semantics, like the normal form)
            a, b = self.lower(e.args[0]), self.lower(e.args[1])
            return ("tuple", X.div(a, b), X.mod(a, b))
        if isinstance(e, ast.Subscript) and not isinstance(e.slice, ast.Slice):
            # a constant projection of a tuple that is known element by element (`divmod(a, b)[1]`, `(q, r)[0]`)
            v, i = self.lower(e.value), self.lower(e.slice)
            if v[0] == "tuple" and i[0] == "c" and -(len(v) - 1) <= i[1] < len(v) - 1:
                return v[1:][i[1]]
            return ("idx", v, i)
        if isinstance(e, ast.Call) and isinstance(e.func, ast.Attribute) and isinstance(e.func.value, ast.Name) \
                and e.func.value.id in ("self", "cls") and self.sym.ci is not None and not e.keywords:
            c, m = self.sym.repo.find_method(self.sym.ci, e.func.attr)
            if m is not None:
                return self.sym.inline(m, [self.lower(a) for a in e.args])
        if isinstance(e, ast.BinOp) and isinstance(e.op, ast.Pow):
            v = self.const(e) if self.const is not None else None
            return C(v) if isinstance(v, int) and not isinstance(v, bool) else ("call", "**", self.lower(e.left), self.lower(e.right))
        if isinstance(e, ast.Call) and isinstance(e.func, ast.Attribute) and not e.keywords:
            # method call on a value (a local, a parenthesised expression): keep the receiver as a term
            root = e.func.value
            while isinstance(root, ast.Attribute):
                root = root.value
            if not isinstance(root, ast.Name) or root.id in self.env:
                return ("call", "." + e.func.attr, self.lower(e.func.value)) + tuple(self.lower(a) for a in e.args)
        return X.PyLower.lower(self, e)

    def _in_range(self, x, rng):
        """`x in range(a, b, s)` (the builtin, constant step) on an integer x as arithmetic: a <= x < b and
        (x - a) mod s == 0 (mirrored for a negative step); None when `rng` is not such a call.  The values this
        machinery reasons about (frame numbers, hopping parameters) are integers."""
        if not (isinstance(rng, ast.Call) and isinstance(rng.func, ast.Name) and rng.func.id == "range"
                and 1 <= len(rng.args) <= 3 and not rng.keywords and not any(isinstance(a, ast.Starred) for a in rng.args)
                and "range" not in self.env and self.sym.is_builtin("range")):
            return None
        args = [self.lower(a) for a in rng.args]
        lo, hi = (C(0), args[0]) if len(args) == 1 else (args[0], args[1])
        step = args[2] if len(args) == 3 else C(1)
        if step[0] != "c" or step[1] == 0:
            return None
        v = self.lower(x)
        if step[1] > 0:
            parts, off = [X.cmp_(">=", v, lo), X.cmp_("<", v, hi)], X.sub(v, lo)
        else:
            parts, off = [X.cmp_("<=", v, lo), X.cmp_(">", v, hi)], X.sub(lo, v)
        if abs(step[1]) != 1:
            parts.append(X.cmp_("==", X.mod(off, C(abs(step[1]))), C(0)))
        return ("and",) + tuple(parts)

    def _leaf(self, e):
        if isinstance(e, ast.Constant) and e.value is None:
            # the same opaque symbol `x is None` is lowered with: equal to itself, never folded into arithmetic
            return V("None")
        if isinstance(e, (ast.Tuple, ast.List)) and not any(isinstance(x, ast.Starred) for x in e.elts):
            return ("tuple",) + tuple(self.lower(x) for x in e.elts)
        if isinstance(e, ast.BoolOp):
            return ("and" if isinstance(e.op, ast.And) else "or",) + tuple(self.lower(x) for x in e.values)
        if isinstance(e, ast.Compare) and len(e.ops) == 1 and isinstance(e.ops[0], (ast.In, ast.NotIn)):
            t = self._in_range(e.left, e.comparators[0])
            if t is None:
                t = ("cmp", "in", self.lower(e.left), self.lower(e.comparators[0]))
            return t if isinstance(e.ops[0], ast.In) else ("not", t)
        if isinstance(e, ast.Compare) and len(e.ops) > 1:
            parts, left = [], e.left
            for op, right in zip(e.ops, e.comparators):
                one = ast.Compare(left=left, ops=[op], comparators=[right])
                ast.copy_location(one, e)
                parts.append(self.lower(one))
                left = right
            return ("and",) + tuple(parts)
        if isinstance(e, ast.Compare) and len(e.ops) == 1 and isinstance(e.ops[0], (ast.Is, ast.IsNot)) \
                and isinstance(e.comparators[0], ast.Constant) and e.comparators[0].value is None:
            t = X.cmp_("==", self.lower(e.left), V("None"))
            return t if isinstance(e.ops[0], ast.Is) else ("not", t)
        if isinstance(e, ast.Compare) and len(e.ops) == 1 and isinstance(e.ops[0], (ast.Is, ast.IsNot)):
            # identity of two objects: an opaque atom (never folded, never equal to an arithmetic comparison)
            t = ("cmp", "is") + tuple(sorted([self.lower(e.left), self.lower(e.comparators[0])], key=repr))
            return t if isinstance(e.ops[0], ast.Is) else ("not", t)
        return None


class PySym:
    """Forward substitution of a small Python function into one conditional
    term.  Outcome trees: ('ret', term) | ('fall', env) | ('raise', cls) |
    ('br', cond, outcome, outcome)."""

    def __init__(self, repo, mod, ci=None, loops="error"):
        self.repo, self.mod, self.ci = repo, mod, ci
        self.depth = 0
        self.effects = []
        self.loops = loops       # "havoc": what a loop assigns becomes an opaque ('loop', name, inputs...) term

    def _havoc(self, st, env):
        """a loop whose only effect is to assign locals / attributes: each
        assigned target becomes an opaque term over what the loop reads"""
        targets, reads = [], []
        own = []
        if isinstance(st, ast.For):
            own = [x.id for x in ast.walk(st.target) if isinstance(x, ast.Name)]
        for n in ast.walk(st):
            if isinstance(n, (ast.Return, ast.Raise, ast.Yield, ast.YieldFrom, ast.Try, ast.With, ast.FunctionDef, ast.Lambda,
                              ast.Global, ast.Nonlocal, ast.Delete)):
                raise AnalysisError("forward substitution: loop with %s is outside the vocabulary (line %d)" % (
                    type(n).__name__, st.lineno))
            if isinstance(n, ast.Expr) and not isinstance(n.value, ast.Constant):
                raise AnalysisError("forward substitution: loop with an expression statement is outside the vocabulary: %s" % canon(n)[:60])
            if isinstance(n, (ast.Assign, ast.AugAssign)):
                for t in (n.targets if isinstance(n, ast.Assign) else [n.target]):
                    for x in ([t] if not isinstance(t, (ast.Tuple, ast.List)) else t.elts):
                        if not isinstance(x, (ast.Name, ast.Attribute)):
                            raise AnalysisError("forward substitution: loop stores through `%s`" % canon(x)[:60])
                        k = x.id if isinstance(x, ast.Name) else ast.unparse(x)
                        if k not in targets and k not in own:
                            targets.append(k)
        for n in ast.walk(st):
            if isinstance(n, (ast.Name, ast.Attribute)) and isinstance(n.ctx, ast.Load):
                k = n.id if isinstance(n, ast.Name) else ast.unparse(n)
                if k in own or k in reads:
                    continue
                if k in env or (isinstance(n, ast.Attribute) and isinstance(n.value, ast.Name) and n.value.id == "self"):
                    reads.append(k)
        ins = tuple(env.get(k, V(k)) for k in reads)
        for k in targets + own:
            env[k] = ("loop", "%s@%d" % (k, st.lineno)) + ins

    def is_builtin(self, name):
        """`name` is bound nowhere in the module (no def / class / assignment / import / parameter of that name, no
        star import that could bring one): a call of it is a call of the Python builtin"""
        cache = self.__dict__.setdefault("_builtin", {})
        if name not in cache:
            bound = False
            for n in ast.walk(self.mod.tree):
                if isinstance(n, (ast.FunctionDef, ast.AsyncFunctionDef, ast.ClassDef)) and n.name == name:
                    bound = True
                elif isinstance(n, ast.Name) and n.id == name and not isinstance(n.ctx, ast.Load):
                    bound = True
                elif isinstance(n, ast.arg) and n.arg == name:
                    bound = True
                elif isinstance(n, (ast.Import, ast.ImportFrom)) and any(
                        (a.asname or a.name).split(".")[0] == name or a.name == "*" and not (
                            isinstance(n, ast.ImportFrom) and n.module in ("enum", "typing")) for a in n.names):
                    bound = True
                elif isinstance(n, (ast.Global, ast.Nonlocal)) and name in n.names:
                    bound = True
            cache[name] = not bound
        return cache[name]

    def const(self, e):
        if isinstance(e, (ast.Name, ast.Attribute, ast.BinOp, ast.UnaryOp, ast.Constant)):
            try:
                v = Ev(self.repo, self.mod, self_cls=self.ci).ev(e)
            except (Unknown, Raised):
                return None
            except RecursionError:
                return None
            if isinstance(v, bool) or not isinstance(v, int):
                return None
            return v
        return None

    def lower(self, e, env):
        return renorm(_PL(self, env).lower(e))

    def inline(self, fd, args):
        if self.depth >= 3:
            raise AnalysisError("forward substitution: call depth exceeded at %s()" % fd.name)
        names = [a.arg for a in fd.args.args]
        static = any(isinstance(d, ast.Name) and d.id == "staticmethod" for d in fd.decorator_list)
        if not static:
            names = names[1:]
        if len(names) != len(args) or fd.args.vararg or fd.args.kwarg:
            raise AnalysisError("forward substitution: cannot bind the arguments of %s()" % fd.name)
        self.depth += 1
        try:
            out = self.block(fd.body, dict(zip(names, args)))
        finally:
            self.depth -= 1
        return self.result(out)

    def run(self, fd, env=None):
        return self.block(fd.body, dict(env or {}))

    def result(self, o):
        if o[0] == "ret":
            return o[1]
        if o[0] == "fall":
            return ("none",)
        if o[0] == "raise":
            return o
        return ite_(o[1], self.result(o[2]), self.result(o[3]))

    def _cont(self, o, rest):
        if o[0] == "fall":
            return self.block(rest, o[1])
        if o[0] == "br":
            return ("br", o[1], self._cont(o[2], rest), self._cont(o[3], rest))
        return o

    def block(self, stmts, env):
        env = dict(env)
        for i, st in enumerate(stmts):
            if isinstance(st, ast.Expr) and isinstance(st.value, ast.Constant):
                continue
            if isinstance(st, ast.Pass):
                continue
            if isinstance(st, (ast.Assign, ast.AugAssign)) and (
                    len(st.targets) == 1 if isinstance(st, ast.Assign) else isinstance(st.target, (ast.Name, ast.Attribute))):
                if isinstance(st, ast.Assign):
                    target, val = st.targets[0], st.value
                else:
                    target = st.target
                    val = ast.BinOp(left=st.target, op=st.op, right=st.value)
                    ast.copy_location(val, st)
                    ast.fix_missing_locations(val)
                v = self.lower(val, env)
                g = guarded_value(v)
                if g is None:
                    self._assign(target, v, env)
                    continue
                # the value is computed by an inlined method that raises under a guard: the statement raises under that
                # guard, the assignment takes place (with the value of the other arm) on the remaining inputs
                if g[0] == C(1):
                    return ("raise", g[1])
                env2 = dict(env)
                self._assign(target, g[2], env2)
                return ("br", g[0], ("raise", g[1]), self.block(stmts[i + 1:], env2))
            if isinstance(st, ast.Return):
                v = self.lower(st.value, env) if st.value is not None else ("none",)
                g = guarded_value(v) if not _raise_in_arms_only(v) else None
                if g is not None:
                    if g[0] == C(1):
                        return ("raise", g[1])
                    return ("br", g[0], ("raise", g[1]), ("ret", g[2], dict(env)))
                return ("ret", v, dict(env))
            if isinstance(st, ast.Raise):
                e = st.exc.func if isinstance(st.exc, ast.Call) else st.exc
                return ("raise", canon(e) if e is not None else "Exception")
            if isinstance(st, ast.If):
                c = truth(self.lower(st.test, env))
                oT = self.block(st.body, env)
                oF = self.block(st.orelse, env)
                if oT[0] == "fall" and oF[0] == "fall":
                    merged = {}
                    for k in set(oT[1]) | set(oF[1]):
                        merged[k] = ite_(c, oT[1].get(k, V(k)), oF[1].get(k, V(k)))
                    env = merged
                    continue
                rest = stmts[i + 1:]
                return ("br", c, self._cont(oT, rest), self._cont(oF, rest))
            if isinstance(st, ast.Expr):
                self.effects.append(self.lower(st.value, env))
                continue
            if isinstance(st, ast.Assert):
                # `assert c` is `if not c: raise AssertionError`; whether the raising arm can be reached is decided
                # on the term (prune) -- it is never ignored
                c = truth(self.lower(st.test, env))
                if c[0] == "c" and c[1]:
                    continue
                return ("br", c, self.block(stmts[i + 1:], env), ("raise", "AssertionError"))
            if isinstance(st, (ast.For, ast.While)) and self.loops == "havoc":
                self._havoc(st, env)
                continue
            raise AnalysisError("forward substitution: Python statement outside the vocabulary: %s" % canon(st)[:60])
        return ("fall", env)

    def _assign(self, t, v, env):
        if isinstance(t, ast.Name):
            env[t.id] = v
        elif isinstance(t, ast.Attribute):
            env[ast.unparse(t)] = v
        # `(a, self.b) = v`: t = v; a = t[0]; self.b = t[1] (v was evaluated before any element is stored)
        elif isinstance(t, (ast.Tuple, ast.List)) and all(isinstance(x, (ast.Name, ast.Attribute, ast.Tuple, ast.List)) for x in t.elts):
            # nested targets `(a, (b, c)) = v` are split element by element (each element is assigned recursively)
            if v[0] == "tuple":
                if len(v) - 1 != len(t.elts):
                    raise AnalysisError("forward substitution: tuple of %d values unpacked into %d names" % (
                        len(v) - 1, len(t.elts)))
                for x, y in zip(t.elts, v[1:]):
                    self._assign(x, y, env)
            elif v[0] == "ite" and v[2][0] == "tuple" and v[3][0] == "tuple" and len(v[2]) == len(v[3]) == len(t.elts) + 1:
                for i, x in enumerate(t.elts):
                    self._assign(x, ite_(v[1], v[2][i + 1], v[3][i + 1]), env)
            else:
                for i, x in enumerate(t.elts):
                    self._assign(x, ("idx", v, C(i)), env)
        else:
            raise AnalysisError("forward substitution: assignment target outside the vocabulary: %s" % canon(t)[:60])


def _has_raise(t):
    return any(x[0] == "raise" for x in subterms(t))


def _raise_in_arms_only(t):
    """every ('raise', ..) leaf of t is an arm of the conditionals at its root (the shape result() gives a function that
    raises on some paths) -- none sits below an operator"""
    if t[0] == "raise":
        return True
    if t[0] == "ite":
        return not _has_raise(t[1]) and _raise_in_arms_only(t[2]) and _raise_in_arms_only(t[3])
    return not _has_raise(t)


def strict_raise(t):
    """(condition under which evaluating t raises, exception class) for a term with ('raise', ..) leaves below operators
    (the value of an inlined method that raises under a guard, used in arithmetic / unpacked): a conditional raises
    when the arm taken does, every other operator is strict in its operands.  Python's short-circuit `and` / `or` and a
    raise inside a branch condition are outside the vocabulary."""
    if t[0] == "raise":
        return C(1), t[1]
    if t[0] in ("c", "v") or not _has_raise(t):
        return C(0), None
    if t[0] == "ite":
        if _has_raise(t[1]):
            raise AnalysisError("forward substitution: a branch condition can raise: %s" % show(t[1])[:80])
        (a, ca), (b, cb) = strict_raise(t[2]), strict_raise(t[3])
        return truth(("or", truth(("and", t[1], a)), truth(("and", ("not", t[1]), b)))), ca or cb
    if t[0] in ("and", "or"):
        raise AnalysisError("forward substitution: an operand of `%s` can raise: %s" % (t[0], show(t)[:80]))
    conds, cls = [], None
    for x in t[1:]:
        if isinstance(x, tuple) and _has_raise(x):
            c, k = strict_raise(x)
            conds.append(c)
            cls = cls or k
    return (conds[0] if len(conds) == 1 else truth(("or",) + tuple(conds))), cls


def drop_raises_deep(t):
    """t on the inputs on which it does not raise (strict_raise false): conditionals with a raising arm replaced by the
    other arm, everywhere in the term"""
    if t[0] in ("c", "v", "raise") or not _has_raise(t):
        return t
    ks = tuple(drop_raises_deep(x) if isinstance(x, tuple) else x for x in t[1:])
    if t[0] == "ite":
        c, a, b = ks
        if a[0] == "raise":
            return b
        if b[0] == "raise":
            return a
        return ite_(c, a, b)
    return build((t[0],) + ks)


def guarded_value(v):
    """None when the term v cannot raise; else (condition under which it raises, exception class, v on the other inputs)"""
    if not _has_raise(v):
        return None
    rc, cls = strict_raise(v)
    rc = _bool_simplify(rc)
    rest = drop_raises_deep(v)
    if _has_raise(rest):
        return C(1), cls, rest
    return rc, cls, rest


def leaves(o, conds=()):
    """(path conditions [(cond, polarity)], leaf outcome) of an outcome tree"""
    if o[0] == "br":
        for x in leaves(o[2], conds + ((o[1], True),)):
            yield x
        for x in leaves(o[3], conds + ((o[1], False),)):
            yield x
    else:
        yield conds, o


def ite_leaves(t):
    if t[0] == "ite":
        for x in ite_leaves(t[2]):
            yield x
        for x in ite_leaves(t[3]):
            yield x
    else:
        yield t


def refine(c, pol, var, iv=(-INF, INF)):
    """interval of `var` implied by condition term c taken with polarity pol"""
    lo, hi = iv
    k = c[0]
    if k == "not":
        return refine(c[1], not pol, var, iv)
    if (k == "and" and pol) or (k == "or" and not pol):
        for x in c[1:]:
            lo, hi = refine(x, pol, var, (lo, hi))
        return (lo, hi)
    if k == "cmp" and c[1] == "<":
        a, b = c[2], c[3]
        if a == var and b[0] == "c":
            return (lo, min(hi, b[1] - 1)) if pol else (max(lo, b[1]), hi)
        if b == var and a[0] == "c":
            return (max(lo, a[1] + 1), hi) if pol else (lo, min(hi, a[1]))
    if k == "cmp" and c[1] == "==" and pol:
        for a, b in ((c[2], c[3]), (c[3], c[2])):
            if a == var and b[0] == "c":
                return (max(lo, b[1]), min(hi, b[1]))
    if k == "cmp" and c[1] == "in" and pol and c[2] == var and c[3][0] == "call" and c[3][1] == "range":
        args = c[3][2:]
        if all(x[0] == "c" for x in args):
            if len(args) == 1:
                return (max(lo, 0), min(hi, args[0][1] - 1))
            if len(args) == 2 or (len(args) == 3 and args[2][1] == 1):
                return (max(lo, args[0][1]), min(hi, args[1][1] - 1))
    return (lo, hi)


# ------------------------------------------------------------------------------
# forward substitution: C (clang JSON)

_CASSIGN = {"+=": X.add, "-=": X.sub, "*=": X.mul, "/=": X.div, "%=": X.mod, "&=": X.band, "|=": X.bor,
            "^=": X.bxor, "<<=": X.shl, ">>=": X.shr}


class _CL(CLower):
    """CLower + side effects (assignment expressions), calls (inlined when the
    callee is a value-only function of the same TU)"""

    def __init__(self, sym, env):
        CLower.__init__(self, sym.tu, env)
        self.env = env          # shared and mutated (CLower copies an empty dict)
        self.sym = sym

    def _lvalue(self, n):
        n = strip(n)
        if kind(n) == "DeclRefExpr":
            return ctext(n)
        if kind(n) == "MemberExpr" and kind(strip(kids(n)[0])) == "DeclRefExpr":
            return ctext(n)
        if kind(n) == "UnaryOperator" and n.get("opcode") == "*" and kind(strip(kids(n)[0])) == "DeclRefExpr":
            return ctext(n)         # `*out = v` through one of the function's own (never re-pointed) pointers
        raise AnalysisError("forward substitution (C): store through `%s` is outside the vocabulary" % ctext(n)[:60])

    def lower(self, n):
        m = strip(n)
        k = kind(m)
        if k == "BinaryOperator" and m.get("opcode") == "=":
            ks = kids(m)
            v = self.lower(ks[1])
            self.env[self._lvalue(ks[0])] = v
            self.sym.stores.append((tuple(self.sym.path), self._lvalue(ks[0]), v))
            return v
        if k == "CompoundAssignOperator":
            ks = kids(m)
            f = _CASSIGN.get(m.get("opcode"))
            if f is None:
                raise AnalysisError("forward substitution (C): operator %s" % m.get("opcode"))
            cur = self.lower(ks[0])
            v = f(cur, self.lower(ks[1]))
            self.env[self._lvalue(ks[0])] = v
            self.sym.stores.append((tuple(self.sym.path), self._lvalue(ks[0]), v))
            return v
        if k == "UnaryOperator" and m.get("opcode") in ("++", "--"):
            ks = kids(m)
            cur = self.lower(ks[0])
            v = X.add(cur, C(1 if m.get("opcode") == "++" else -1))
            self.env[self._lvalue(ks[0])] = v
            self.sym.stores.append((tuple(self.sym.path), self._lvalue(ks[0]), v))
            return cur if m.get("isPostfix") else v
        if k == "CallExpr":
            return self.sym.call(m, self)
        return CLower.lower(self, n)


class CSym:
    """Forward substitution of a small C function (no loops) into conditional
    terms.  Same outcome trees as PySym ('ret' carries the environment too)."""

    def __init__(self, tu, opaque=()):
        self.tu = tu
        self.opaque = set(opaque)
        self.depth = 0
        self.effects = []      # (path, callee, args)
        self.stores = []       # (path, lvalue text, stored term) of every assignment, in program order
        self.path = []
        self.opaque_calls = set()
        self.static_locals = {}    # name -> VarDecl of the block-scope objects of static storage duration met

    def lower(self, n, env):
        # env is mutated by side effects of the expression
        return renorm(_CL(self, env).lower(n))

    def call(self, m, lw):
        ks = kids(m)
        name = ctext(ks[0])
        args = [lw.lower(a) for a in ks[1:]]
        f = self.tu.functions.get(name)
        has_body = f is not None and any(kind(c) == "CompoundStmt" for c in kids(f))
        ptr = [a for a in ks[1:] if "*" in strip(a).get("type", {}).get("qualType", "") or
               "*" in a.get("type", {}).get("qualType", "")]
        if name in self.opaque and not ptr:
            return ("call", name) + tuple(args)
        if has_body and ptr and name not in self.opaque:
            # a function of the same TU that is handed the caller's own pointers (an extracted helper working on the
            # same object): its body is substituted with `q->f` standing for the caller's `p->f`.  Anything else
            # about a local function with pointer arguments is outside the vocabulary -- never an opaque effect
            # (its stores would be invisible and every comparison downstream meaningless).
            return self._inline_through(m, name, f, ks[1:], args, lw)
        if has_body and not ptr and self.depth < 3:
            ps = [p.get("name") for p in self.tu.fparams(f)]
            if len(ps) != len(args):
                raise AnalysisError("forward substitution (C): cannot bind the arguments of %s()" % name)
            self.depth += 1
            saved = (list(self.effects), list(self.path))
            own = set(ps) | {n.get("name") for n in walk(self.tu.body(f)) if kind(n) == "VarDecl"}
            init = dict(zip(ps, args))
            init.update(self._file_level(lw.env, own))
            try:
                out = self.block([self.tu.body(f)], init)
            except AnalysisError:
                # e.g. a loop: a value-only helper stays an opaque function of its arguments
                self.effects[:], self.path[:] = saved
                if self.value_only(f):
                    self.opaque_calls.add(name)
                    return ("call", name) + tuple(args)
                raise
            finally:
                self.depth -= 1
            # what the callee stored into file-level objects survives the call (its locals and parameters die with it)
            stored = set()
            for _, leaf in leaves(out):
                stored |= set(leaf[2] if leaf[0] == "ret" else leaf[1])
            for k in sorted(stored):
                if re.split(r"->|\.|\[", k, 1)[0] in self.tu.vars and re.split(r"->|\.|\[", k, 1)[0] not in own:
                    v = self.final(out, k)
                    if v != lw.env.get(k, V(k)):
                        lw.env[k] = v
            return self.result(out)
        # external call / call with pointer arguments: record it, forget what the pointees held
        self.effects.append((tuple(self.path), name, tuple(args)))
        for a in ptr:
            s = strip(a)
            if kind(s) != "DeclRefExpr":
                raise AnalysisError("forward substitution (C): pointer argument `%s` of %s() is outside the vocabulary" % (
                    ctext(a)[:40], name))
            p = ctext(s)
            qt = s.get("type", {}).get("qualType", "")
            rec = qt.replace("const", "").replace("struct", "").replace("*", "").strip()
            fields = [fn for fn, _ in self.tu.record_fields(rec)] if rec in self.tu.records else []
            keys = {k for k in lw.env if k.startswith(p + "->")} | {"%s->%s" % (p, fn) for fn in fields}
            for k in keys:
                lw.env[k] = ("post", name, k.split("->", 1)[1]) + tuple(args)
        return ("call", name) + tuple(args)

    def _file_level(self, env, own):
        """what the caller knows about file-level objects (members included) that the callee does not shadow: the callee
        reads the values the caller left there, not the contents at the caller's entry"""
        return {k: v for k, v in env.items()
                if re.split(r"->|\.|\[", k, 1)[0] in self.tu.vars and re.split(r"->|\.|\[", k, 1)[0] not in own}

    def _plain_pointer_params(self, f, pids):
        """every use of the pointer parameters `pids` in f is `q->field` or a plain argument of a call: the
        parameter is never re-pointed, indexed, dereferenced as a whole, compared or has its address taken"""
        for n in walk(self.tu.body(f)):
            if kind(n) != "DeclRefExpr" or n.get("referencedDecl", {}).get("id") not in pids:
                continue
            child, cur = n, self.tu.parent.get(id(n))
            while cur is not None and (kind(cur) == "ParenExpr" or (
                    kind(cur) == "ImplicitCastExpr" and cur.get("castKind") in ("LValueToRValue", "NoOp"))):
                child, cur = cur, self.tu.parent.get(id(cur))
            if cur is not None and kind(cur) == "MemberExpr" and cur.get("isArrow"):
                continue
            if cur is not None and kind(cur) == "CallExpr" and kids(cur)[0] is not child:
                continue
            if cur is not None and self._null_test(cur, child):
                continue            # `if (q)`, `!q`, `q && ..`, `q != NULL`: the pointer's value, the caller's
            if cur is not None and kind(cur) == "UnaryOperator" and cur.get("opcode") == "*":
                # `*q` read or stored as a scalar: the caller's `*p`
                c2, up = cur, self.tu.parent.get(id(cur))
                while up is not None and kind(up) == "ParenExpr":
                    c2, up = up, self.tu.parent.get(id(up))
                ku = kind(up)
                if ku == "ImplicitCastExpr" and up.get("castKind") == "LValueToRValue":
                    continue
                if ku in ("BinaryOperator", "CompoundAssignOperator") and up.get("opcode", "").endswith("=") and \
                        up.get("opcode") not in ("==", "!=", "<=", ">=") and kids(up)[0] is c2:
                    continue
            return False
        return True

    def _null_test(self, cur, child):
        """cur uses the pointer value `child` only for its truth value / equality with a null pointer constant"""
        k = kind(cur)
        if k in ("IfStmt", "ConditionalOperator"):
            return kids(cur)[0] is child
        if k == "UnaryOperator":
            return cur.get("opcode") == "!"
        if k == "ImplicitCastExpr":
            return cur.get("castKind") == "PointerToBoolean"
        if k == "BinaryOperator" and cur.get("opcode") in ("&&", "||"):
            return True
        if k == "BinaryOperator" and cur.get("opcode") in ("==", "!="):
            other = [x for x in kids(cur) if x is not child]
            return len(other) == 1 and self.tu.fold(strip(other[0])) == 0
        return False

    def _inline_through(self, m, name, f, argnodes, args, lw):
        """call of a same-TU function with pointer arguments: substitute its body, the callee's `q->f` being the
        caller's `p->f` (value at the call), and write the fields it stores back into the caller's environment as
        conditional terms over the callee's own branch conditions (early returns included)."""
        why = None
        ps = self.tu.fparams(f)
        if self.depth >= 3:
            why = "call depth exceeded"
        elif len(ps) != len(args) or f.get("variadic"):
            why = "cannot bind the arguments"
        bind, init, pids = {}, {}, set()
        if why is None:
            for p, a, v in zip(ps, argnodes, args):
                pt = p.get("type", {}).get("qualType", "")
                s = strip(a)
                at = s.get("type", {}).get("qualType", "")
                if "*" in pt or "[" in pt:
                    if kind(s) != "DeclRefExpr" or "*" not in at or "[" in at or ctext(s) in lw.env:
                        why = "pointer argument `%s` is not one of the caller's own (never re-pointed) pointers" % ctext(a)[:40]
                        break
                    if ctext(s) in bind.values():
                        why = "the same object is passed twice (aliasing)"
                        break
                    bind[p.get("name")] = ctext(s)
                    pids.add(p.get("id"))
                elif "*" in at:
                    why = "pointer argument `%s` bound to a non-pointer parameter" % ctext(a)[:40]
                    break
                else:
                    init[p.get("name")] = v
        if why is None and not self._plain_pointer_params(f, pids):
            why = "the callee uses a pointer parameter other than as `p->field` or as a plain call argument"
        if why is not None:
            raise AnalysisError("forward substitution (C): %s() is defined in this file and takes pointers, but cannot be "
                                "substituted: %s" % (name, why))
        for q, p in bind.items():
            for k, v in lw.env.items():
                if k.startswith(p + "->"):
                    init[q + k[len(p):]] = v
                elif k == "*" + p:
                    init["*" + q] = v
        callee_own = {p.get("name") for p in ps} | {n.get("name") for n in walk(self.tu.body(f)) if kind(n) == "VarDecl"}
        for k, v in self._file_level(lw.env, callee_own).items():
            init.setdefault(k, v)
        back = {}           # callee symbol -> caller term
        for q, p in bind.items():
            back[q] = V(p)

        def ren(t):
            if t[0] == "v":
                if t[1] in back:
                    return back[t[1]]
                for q, p in bind.items():
                    if t[1].startswith(q + "->"):
                        return V(p + t[1][len(q):])
                    if t[1] == "*" + q:
                        return V("*" + p)
            return None
        ne, npth, nst = len(self.effects), len(self.path), len(self.stores)
        self.depth += 1
        try:
            out = self.block([self.tu.body(f)], init)
        finally:
            self.depth -= 1
        for i in range(nst, len(self.stores)):
            pth, key, val = self.stores[i]
            root = re.split(r"->|\.|\[", key, 1)[0]
            if root in bind:
                key = bind[root] + key[len(root):]
            elif key[:1] == "*" and key[1:] in bind:
                key = "*" + bind[key[1:]]
            self.stores[i] = (pth[:npth] + tuple((renorm(c, ren), pol) for c, pol in pth[npth:]), key, renorm(val, ren))
        for i in range(ne, len(self.effects)):
            pth, cal, eargs = self.effects[i]
            pth = pth[:npth] + tuple((renorm(c, ren), pol) for c, pol in pth[npth:])
            self.effects[i] = (pth, cal, tuple(renorm(a, ren) for a in eargs))
        # what the callee stored: fields of the objects handed in (renamed back) and file-level objects; its own
        # locals and parameters die with it
        own = {p.get("name") for p in ps} | {n.get("name") for n in walk(self.tu.body(f)) if kind(n) == "VarDecl"}
        stored = set()
        for _, leaf in leaves(out):
            stored |= set(leaf[2] if leaf[0] == "ret" else leaf[1])
        for k in sorted(stored):
            root = re.split(r"->|\.|\[", k, 1)[0]
            if root in bind and k != root:
                lw.env[bind[root] + k[len(root):]] = renorm(self.final(out, k), ren)
            elif k[:1] == "*" and k[1:] in bind:
                lw.env["*" + bind[k[1:]]] = renorm(self.final(out, k), ren)
            elif root.lstrip("*") not in own:
                lw.env[k] = renorm(self.final(out, k), ren)
        return renorm(self.result(out), ren)

    def value_only(self, f):
        """integer parameters, touches nothing but its own locals/parameters, calls nothing"""
        own = {p.get("id") for p in self.tu.fparams(f)}
        for n in walk(self.tu.body(f)):
            if kind(n) == "VarDecl":
                own.add(n.get("id"))
        for p in self.tu.fparams(f):
            if "*" in p.get("type", {}).get("qualType", "") or "[" in p.get("type", {}).get("qualType", ""):
                return False
        for n in walk(self.tu.body(f)):
            k = kind(n)
            if k in ("CallExpr", "MemberExpr", "ArraySubscriptExpr", "GotoStmt", "AsmStmt", "GCCAsmStmt"):
                return False
            if k == "UnaryOperator" and n.get("opcode") in ("*", "&"):
                return False
            if k == "DeclRefExpr" and n.get("referencedDecl", {}).get("kind") in ("VarDecl", "ParmVarDecl") and \
                    n.get("referencedDecl", {}).get("id") not in own:
                return False
        return True

    def run(self, f, env=None):
        return self.block([self.tu.body(f)], dict(env or {}))

    def result(self, o):
        if o[0] == "ret":
            return o[1]
        if o[0] == "fall":
            return ("none",)
        return ite_(o[1], self.result(o[2]), self.result(o[3]))

    def final(self, o, key):
        """value of lvalue `key` when the function is left"""
        if o[0] == "ret":
            return o[2].get(key, V(key))
        if o[0] == "fall":
            return o[1].get(key, V(key))
        return ite_(o[1], self.final(o[2], key), self.final(o[3], key))

    def _cont(self, o, rest, conds):
        if o[0] == "fall":
            self.path.extend(conds)
            try:
                return self.block(rest, o[1])
            finally:
                del self.path[len(self.path) - len(conds):]
        if o[0] == "br":
            return ("br", o[1], self._cont(o[2], rest, conds + [(o[1], True)]),
                    self._cont(o[3], rest, conds + [(o[1], False)]))
        return o

    def _branch(self, st, env, c, pol):
        self.path.append((c, pol))
        try:
            return self.block([st], env) if st is not None else ("fall", dict(env))
        finally:
            self.path.pop()

    def block(self, stmts, env):
        env = dict(env)
        for i, st in enumerate(stmts):
            k = kind(st)
            if k == "CompoundStmt":
                o = self.block(kids(st), env)
                if o[0] == "fall":
                    env = o[1]
                    continue
                return self._cont_plain(o, stmts[i + 1:])
            if k == "NullStmt":
                continue
            if k == "DeclStmt":
                for d in kids(st):
                    if kind(d) != "VarDecl":
                        continue
                    if d.get("storageClass") == "static" and maybe_written(self.tu, {d.get("id")}):
                        # a block-scope object of static storage duration that somebody writes: the call does not execute
                        # its initialiser, it holds what the previous call left there -- it stays the symbol `name` (a rule
                        # that judges the first call substitutes the initial value itself, see kept_objects / cold_start).
                        # One that nobody writes holds its initialiser for ever: bound below like any initialised local.
                        self.static_locals[d.get("name")] = d
                        continue
                    if d.get("storageClass") == "static" and kind(strip(_decl_init(d) or {})) == "InitListExpr":
                        # an aggregate of static storage duration nobody writes (a lookup table): a constant object, it
                        # stays the symbol `name` exactly like a file-scope table (subscripts of it are ('idx', name, i))
                        continue
                    if d.get("init") and kids(d):
                        env[d.get("name")] = self.lower(kids(d)[-1], env)
                    else:
                        env.pop(d.get("name"), None)
                continue
            if k == "ReturnStmt":
                ks = kids(st)
                v = self.lower(ks[0], env) if ks else ("none",)
                return ("ret", v, env)
            if k == "DoStmt":
                body, cond = st["inner"][0], st["inner"][1]
                if self.tu.fold(cond) != 0:
                    raise AnalysisError("forward substitution (C): loop outside the vocabulary (line %s)" % st.get("_line"))
                o = self.block([body], env)
                if o[0] == "fall":
                    env = o[1]
                    continue
                return self._cont_plain(o, stmts[i + 1:])
            if k == "IfStmt":
                inner = list(st.get("inner", []))
                has_else = st.get("hasElse", False)
                cond = inner[-3] if has_else else inner[-2]
                if len(inner) != (3 if has_else else 2):
                    raise AnalysisError("forward substitution (C): if with init/condition variable (line %s)" % st.get("_line"))
                c = truth(self.lower(cond, env))
                oT = self._branch(inner[-2] if has_else else inner[-1], env, c, True)
                oF = self._branch(inner[-1] if has_else else None, env, c, False)
                if oT[0] == "fall" and oF[0] == "fall":
                    merged = {}
                    for key in set(oT[1]) | set(oF[1]):
                        merged[key] = ite_(c, oT[1].get(key, V(key)), oF[1].get(key, V(key)))
                    env = merged
                    continue
                rest = stmts[i + 1:]
                return ("br", c, self._cont(oT, rest, [(c, True)]), self._cont(oF, rest, [(c, False)]))
            if k in ("BinaryOperator", "CompoundAssignOperator", "UnaryOperator", "CallExpr", "ParenExpr",
                     "ImplicitCastExpr", "CStyleCastExpr"):
                self.lower(st, env)
                continue
            raise AnalysisError("forward substitution (C): statement outside the vocabulary: %s (line %s)" % (
                k, st.get("_line")))
        return ("fall", env)

    def _cont_plain(self, o, rest):
        if o[0] == "fall":
            return self.block(rest, o[1])
        if o[0] == "br":
            return ("br", o[1], self._cont_plain(o[2], rest), self._cont_plain(o[3], rest))
        return o


# ------------------------------------------------------------------------------
# constant folding of C code on concrete values (C integer semantics; shared with C07)

class _Flow(Exception):
    def __init__(self, what, value=None):
        Exception.__init__(self, what)
        self.what, self.value = what, value


class CFold:
    """Constant folder for a value-only C helper (integer parameters, own
    locals only, no memory, no calls out of the TU): the checker's own
    evaluator over the clang AST, used to fold the 2^NBIN mask helper for
    each N of the finite domain when it is written with a loop.  Built on
    cfront.fold_env for side-effect-free expressions."""
    LIMIT = 20000

    def __init__(self, tu, sym):
        self.tu, self.sym = tu, sym
        self.steps = 0

    def call(self, name, args):
        f = self.tu.functions.get(name)
        if f is None or not any(kind(c) == "CompoundStmt" for c in kids(f)) or not self.sym.value_only(f):
            return None
        ps = self.tu.fparams(f)
        if len(ps) != len(args):
            return None
        env = {p.get("name"): wrap_int(a, p.get("type", {}).get("qualType", "")) for p, a in zip(ps, args)}
        try:
            self.stmt(self.tu.body(f), env)
        except _Flow as e:
            return e.value if e.what == "return" else None
        return None

    @staticmethod
    def _effect(n):
        return any(kind(x) in ("CompoundAssignOperator", "CallExpr") or
                   (kind(x) == "BinaryOperator" and x.get("opcode") in ("=", ",")) or
                   (kind(x) == "UnaryOperator" and x.get("opcode") in ("++", "--")) for x in walk(n))

    def _store(self, lhs, v, env):
        t = strip(lhs)
        if kind(t) != "DeclRefExpr" or v is None:
            raise _Flow("unknown")
        env[ctext(t)] = wrap_int(v, t.get("type", {}).get("qualType", ""))
        return env[ctext(t)]

    @staticmethod
    def _binop(op, a, b):
        """one C binary operator on two known integers (division and remainder truncate toward zero); None when the
        operator is unknown or undefined for the operands"""
        if op in ("/", "%"):
            if b == 0:
                return None
            q = abs(a) // abs(b)
            if (a < 0) != (b < 0):
                q = -q
            return q if op == "/" else a - b * q
        if op in ("<<", ">>"):
            if not 0 <= b < 64:
                return None
            return a << b if op == "<<" else a >> b
        f = {"+": lambda: a + b, "-": lambda: a - b, "*": lambda: a * b, "&": lambda: a & b, "|": lambda: a | b,
             "^": lambda: a ^ b, "<": lambda: int(a < b), ">": lambda: int(a > b), "<=": lambda: int(a <= b),
             ">=": lambda: int(a >= b), "==": lambda: int(a == b), "!=": lambda: int(a != b)}.get(op)
        return None if f is None else f()

    def expr(self, n, env):
        m = strip(n)
        eff = self._effect(m)
        if not eff:
            v = fold_env(self.tu, m, env)
            if v is not None:
                return v
            # fold_env evaluates every operator of its table eagerly (a comparison with a negative constant dies in
            # the shift entry): operators are folded here one by one on the folded operands
            k, ks = kind(m), kids(m)
            op = m.get("opcode")
            if k == "BinaryOperator" and op in ("&&", "||"):
                a = self.expr(ks[0], env)
                if a is None:
                    return None
                if bool(a) == (op == "||"):
                    return int(bool(a))
                b = self.expr(ks[1], env)
                return None if b is None else int(bool(b))
            if k == "BinaryOperator":
                a, b = self.expr(ks[0], env), self.expr(ks[1], env)
                return None if a is None or b is None else self._binop(op, a, b)
            if k == "UnaryOperator" and op in ("-", "+", "~", "!"):
                a = self.expr(ks[0], env)
                return None if a is None else {"-": -a, "+": a, "~": ~a, "!": int(not a)}[op]
            if k == "CStyleCastExpr":
                a = self.expr(ks[0], env)
                return None if a is None else wrap_int(a, m.get("type", {}).get("qualType", ""))
            if k == "ConditionalOperator":
                c = self.expr(ks[0], env)
                return None if c is None else self.expr(ks[1] if c else ks[2], env)
            return None
        k, ks = kind(m), kids(m)
        if k == "BinaryOperator" and m.get("opcode") == "=":
            return self._store(ks[0], self.expr(ks[1], env), env)
        if k == "BinaryOperator" and m.get("opcode") == ",":
            self.expr(ks[0], env)
            return self.expr(ks[1], env)
        if k == "CompoundAssignOperator":
            a, b = self.expr(ks[0], env), self.expr(ks[1], env)
            if a is None or b is None:
                raise _Flow("unknown")
            op = m.get("opcode")[:-1]
            try:
                v = {"+": a + b, "-": a - b, "*": a * b, "&": a & b, "|": a | b, "^": a ^ b,
                     "<<": a << b if 0 <= b < 64 else None, ">>": a >> b if 0 <= b < 64 else None,
                     "/": int(a / b) if b else None, "%": (a - b * int(a / b)) if b else None}.get(op)
            except (ValueError, OverflowError):
                v = None
            return self._store(ks[0], v, env)
        if k == "UnaryOperator" and m.get("opcode") in ("++", "--"):
            a = self.expr(ks[0], env)
            if a is None:
                raise _Flow("unknown")
            v = self._store(ks[0], a + (1 if m.get("opcode") == "++" else -1), env)
            return a if m.get("isPostfix") else v
        if k == "CallExpr":
            args = [self.expr(a, env) for a in ks[1:]]
            return None if any(a is None for a in args) else self.call(ctext(ks[0]), args)
        if k == "BinaryOperator" and m.get("opcode") in ("&&", "||"):
            a = self.expr(ks[0], env)
            if a is None:
                return None
            if bool(a) == (m.get("opcode") == "||"):
                return int(bool(a))
            b = self.expr(ks[1], env)
            return None if b is None else int(bool(b))
        if k == "ConditionalOperator":
            c = self.expr(ks[0], env)
            return None if c is None else self.expr(ks[1] if c else ks[2], env)
        # operator over operands with effects: evaluate the operands in order, then fold the operator
        vals = {}
        for c in ks:
            if self._effect(c):
                v = self.expr(c, env)
                if v is None:
                    return None
                vals[ctext(c)] = v
        env2 = dict(env)
        env2.update(vals)
        return fold_env(self.tu, m, env2)

    def _tick(self):
        self.steps += 1
        if self.steps > self.LIMIT:
            raise _Flow("unknown")

    def stmt(self, st, env):
        if not st:
            return
        k = kind(st)
        ks = kids(st)
        if k == "CompoundStmt":
            for c in ks:
                self.stmt(c, env)
        elif k == "NullStmt":
            pass
        elif k == "DeclStmt":
            for d in ks:
                if kind(d) == "VarDecl":
                    if d.get("init") and kids(d):
                        v = self.expr(kids(d)[-1], env)
                        env[d.get("name")] = None if v is None else wrap_int(v, d.get("type", {}).get("qualType", ""))
                    else:
                        env.pop(d.get("name"), None)
        elif k == "ReturnStmt":
            raise _Flow("return", self.expr(ks[0], env) if ks else None)
        elif k == "BreakStmt":
            raise _Flow("break")
        elif k == "ContinueStmt":
            raise _Flow("continue")
        elif k == "IfStmt":
            inner = list(st.get("inner", []))
            has_else = st.get("hasElse", False)
            if len(inner) != (3 if has_else else 2):
                raise _Flow("unknown")
            c = self.expr(inner[0], env)
            if c is None:
                raise _Flow("unknown")
            if c:
                self.stmt(inner[1], env)
            elif has_else:
                self.stmt(inner[2], env)
        elif k in ("ForStmt", "WhileStmt", "DoStmt"):
            if k == "ForStmt":
                init, cond, inc, body = st["inner"][0], st["inner"][2], st["inner"][3], st["inner"][4]
            elif k == "WhileStmt":
                init, cond, inc, body = None, st["inner"][-2], None, st["inner"][-1]
            else:
                init, cond, inc, body = None, st["inner"][1], None, st["inner"][0]
            if init:
                self.stmt(init, env) if kind(init) == "DeclStmt" else self.expr(init, env)
            first = True
            while True:
                self._tick()
                if not (k == "DoStmt" and first) and cond:
                    c = self.expr(cond, env)
                    if c is None:
                        raise _Flow("unknown")
                    if not c:
                        break
                first = False
                try:
                    self.stmt(body, env)
                except _Flow as e:
                    if e.what == "break":
                        break
                    if e.what != "continue":
                        raise
                if inc:
                    self.expr(inc, env)
        else:
            if self.expr(st, env) is None and not self._effect(st):
                raise _Flow("unknown")


# ------------------------------------------------------------------------------
# objects a function keeps between calls, and concrete execution of a small C function in C integer semantics
# (shared with C07)

def root_name(name):
    return re.split(r"->|\.|\[", name, 1)[0]


def maybe_written(tu, ids):
    """the ids of `ids` some function of the translation unit uses other than by reading a value out of it (stores, ++, an
    address taken, the object handed on): only an object that is never written holds its initialiser for ever"""
    out = set()
    for fname, fd in tu.functions.items():
        if not any(kind(c) == "CompoundStmt" for c in kids(fd)):
            continue
        for x in walk(tu.body(fd)):
            if kind(x) != "DeclRefExpr" or x.get("referencedDecl", {}).get("id") not in ids:
                continue
            cur, par, sized = x, tu.parent.get(id(x)), False
            q = par
            while q is not None and kind(q) != "FunctionDecl":
                sized = sized or kind(q) == "UnaryExprOrTypeTraitExpr"
                q = tu.parent.get(id(q))
            if sized:
                continue
            while par is not None and (kind(par) == "ParenExpr" or (kind(par) == "MemberExpr" and not par.get("isArrow")) or (
                    kind(par) == "ImplicitCastExpr" and par.get("castKind") == "ArrayToPointerDecay") or (
                    kind(par) == "ArraySubscriptExpr" and kids(par)[0] is cur)):
                cur, par = par, tu.parent.get(id(par))
            if not (kind(par) == "ImplicitCastExpr" and par.get("castKind") == "LValueToRValue"):
                out.add(x["referencedDecl"]["id"])
    return out


def reach_functions(tu, f):
    """names of the functions of the translation unit (with a body) that executing f can reach through direct calls, f included"""
    defined = {n: g for n, g in tu.functions.items() if any(kind(c) == "CompoundStmt" for c in kids(g))}
    seen, todo = {f.get("name")}, [f]
    while todo:
        g = todo.pop()
        for c in walk(tu.body(g)):
            if kind(c) == "CallExpr":
                n = ctext(kids(c)[0])
                if n in defined and n not in seen:
                    seen.add(n)
                    todo.append(defined[n])
    return seen


def kept_objects(tu, f):
    """{name: VarDecl} of the objects of static storage duration that f -- or a function of the same file it calls -- names
    and that some function of the translation unit may write: block-scope `static` objects of those functions and file-level
    variables.  Such an object carries a value from one call to the next (state); an object nobody writes holds its
    initialiser for ever and is a constant, not state.  AnalysisError for a file-level object with external linkage that is
    not const (another translation unit may write it: what it holds is unknown)."""
    cand = {}
    for fn in sorted(reach_functions(tu, f)):
        for x in walk(tu.body(tu.functions[fn])):
            if kind(x) != "DeclRefExpr" or x.get("referencedDecl", {}).get("kind") != "VarDecl":
                continue
            d = tu.by_id.get(x["referencedDecl"].get("id"))
            if d is None:
                continue
            par = tu.parent.get(id(d))
            if d.get("storageClass") == "static" and (par is None or kind(par) != "TranslationUnitDecl"):
                cand.setdefault(d.get("id"), (d.get("name"), d))
            elif par is not None and kind(par) == "TranslationUnitDecl":
                cand.setdefault(d.get("id"), (d.get("name"), tu.vars.get(d.get("name"), d)))
    ids = set(cand)
    # every declaration of a file-level object (an `extern` declaration in a header and the definition) names the same object
    by_name = {}
    for i, (name, d) in cand.items():
        by_name.setdefault(name, set()).add(i)
        if kind(tu.parent.get(id(d)) or {}) == "TranslationUnitDecl" or d is tu.vars.get(name):
            for other in tu.by_id.values():
                if kind(other) == "VarDecl" and other.get("name") == name and kind(tu.parent.get(id(other)) or {}) == "TranslationUnitDecl":
                    by_name[name].add(other.get("id"))
    allids = set().union(*by_name.values()) if by_name else set()
    dirty = maybe_written(tu, allids)
    out = {}
    for i, (name, d) in sorted(cand.items(), key=lambda kv: kv[1][0]):
        qt = d.get("type", {}).get("qualType", "")
        file_level = kind(tu.parent.get(id(d)) or {}) == "TranslationUnitDecl"
        if by_name[name] & dirty:
            out[name] = d
        elif file_level and d.get("storageClass") != "static" and "const" not in qt.split():
            raise AnalysisError("%s() reads `%s`, a file-level object with external linkage that is not const: what it holds "
                                "is decided outside this translation unit; unclassifiable" % (f.get("name"), name))
    return out


def _decl_init(d):
    ini = [c for c in kids(d) if kind(c) not in ("", None) and not (kind(c) or "").endswith("Attr")]
    return ini[-1] if ini and d.get("init") else None


def cold_values(tu, kept):
    """{symbol: constant term} the scalar integer objects of `kept` hold before the first call (the static initialiser,
    0 without one); members of an aggregate without initialiser are 0 (see cold_start)"""
    out = {}
    for name, d in kept.items():
        ini = _decl_init(d)
        if _exec_type(d.get("type", {})) is None:
            continue
        v = 0 if ini is None else tu.fold(ini)
        if v is not None:
            out[V(name)] = C(_convert(v, _exec_type(d.get("type", {}))))
    return out


def cold_start(t, tu, kept):
    """term t on the first call: the objects kept between calls replaced by what they hold from the static initialiser"""
    cold = cold_values(tu, kept)

    def leaf(x):
        if x[0] != "v":
            return None
        if x in cold:
            return cold[x]
        r = root_name(x[1])
        if r in kept and r != x[1] and _decl_init(kept[r]) is None:
            return C(0)
        return None
    return renorm(t, leaf) if kept else t


_EXEC_INT = {"_Bool": (1, False), "char": (8, True), "signed char": (8, True), "unsigned char": (8, False), "short": (16, True),
             "unsigned short": (16, False), "int": (32, True), "unsigned int": (32, False), "long long": (64, True),
             "unsigned long long": (64, False), "int8_t": (8, True), "uint8_t": (8, False), "int16_t": (16, True),
             "uint16_t": (16, False), "int32_t": (32, True), "uint32_t": (32, False), "int64_t": (64, True),
             "uint64_t": (64, False)}


def _exec_type(t):
    """(bits, signed) of an integer type clang resolved (typedefs desugared) whose width does not depend on the data model"""
    if isinstance(t, str):
        t = {"qualType": t}
    for qt in (t.get("desugaredQualType"), t.get("qualType")):
        if qt:
            r = _EXEC_INT.get(" ".join(w for w in qt.split() if w not in ("const", "volatile")))
            if r is not None:
                return r
    return None


def _convert(v, ty):
    """conversion of an integer value to an integer type: modulo 2^bits (C11 6.3.1.3; the two's complement wrap gcc and
    clang define for signed targets)"""
    bits, signed = ty
    if bits == 1 and not signed:
        return int(bool(v))
    v &= (1 << bits) - 1
    return v - (1 << bits) if signed and v >= 1 << (bits - 1) else v


class _NoFold(Exception):
    pass


class _Zeroed(dict):
    """an aggregate of static storage duration without initialiser: every scalar member is 0 until it is stored"""


class CExec:
    """Concrete execution of a small C function by the checker's own evaluator over the clang AST, in C integer semantics:
    every operator is evaluated on known integers and its value converted to the type clang resolved for that node (the
    implicit conversions are nodes of the AST: usual arithmetic conversions, integer promotion, the conversion of an
    assignment to the type of its target, bit-field widths), `/` and `%` truncate toward zero.  Objects: locals in a frame
    per call, objects of static storage duration in `self.statics` -- they survive from one call() to the next, which is what
    makes a call sequence observable --, a struct reached through a pointer parameter is a dict handed in by the caller.
    Nothing of the repository is compiled or run.  _NoFold for anything outside this vocabulary."""
    LIMIT = 20000

    def __init__(self, tu):
        self.tu = tu
        self.statics = {}
        self.steps = 0
        self.depth = 0
        self.reads = None        # a list: every array element an lvalue names is logged as (array text, index, the list)

    # -- objects
    def _type(self, n):
        ty = _exec_type(n.get("type", {}))
        if ty is None:
            raise _NoFold("`%s` has the type `%s`" % (ctext(n)[:40], n.get("type", {}).get("qualType", "?")))
        return ty

    def _initial(self, d):
        qt = d.get("type", {}).get("desugaredQualType") or d.get("type", {}).get("qualType") or ""
        ini = _decl_init(d)
        if "[" in qt:
            v = self.tu.init_value(ini) if ini is not None else None
            ety = _exec_type(re.sub(r"\s*\[[^\]]*\]\s*$", "", qt))
            if isinstance(v, list) and ety is not None and all(isinstance(x, int) and not isinstance(x, bool) for x in v):
                # each initialiser is converted to the element type (a value the element cannot hold is truncated)
                return [_convert(x, ety) for x in v]
            raise _NoFold("array `%s`" % d.get("name"))
        if re.search(r"\b(struct|union)\b", qt) and "*" not in qt:
            if ini is not None or re.search(r"\bunion\b", qt):
                raise _NoFold("initialised aggregate `%s`" % d.get("name"))
            return _Zeroed()
        ty = _exec_type(d.get("type", {}))
        if ty is None:
            raise _NoFold("`%s` of type `%s`" % (d.get("name"), qt))
        if ini is None:
            return 0
        return _convert(self.expr(ini, {}), ty)

    def _lv(self, n, fr):
        """(container, key, integer type or None) of an lvalue"""
        k = kind(n)
        if k in ("ParenExpr", "ConstantExpr") or (k == "ImplicitCastExpr" and n.get("castKind") == "NoOp"):
            return self._lv(kids(n)[0], fr)
        if k == "DeclRefExpr":
            rd = n.get("referencedDecl", {})
            i = rd.get("id")
            if i in fr:
                return fr, i, _exec_type(n.get("type", {}))
            d = self.tu.by_id.get(i)
            if rd.get("kind") != "VarDecl" or d is None:
                raise _NoFold("`%s`" % ctext(n)[:40])
            par = self.tu.parent.get(id(d))
            if par is not None and kind(par) == "TranslationUnitDecl":
                d = self.tu.vars.get(d.get("name"), d)
                key = "file:" + d.get("name")
            elif d.get("storageClass") == "static":
                key = i
            else:
                raise _NoFold("`%s` is read before it is declared" % ctext(n)[:40])
            if key not in self.statics:
                self.statics[key] = self._initial(d)
            return self.statics, key, _exec_type(n.get("type", {}))
        if k == "MemberExpr":
            base = kids(n)[0]
            if n.get("isArrow"):
                obj = self.expr(base, fr)
            else:
                c, key, _ = self._lv(base, fr)
                obj = c.get(key) if isinstance(c, dict) else c[key]
                if obj is None and isinstance(c, dict):
                    obj = c[key] = {}
            if not isinstance(obj, dict):
                raise _NoFold("`%s`" % ctext(n)[:40])
            name = n.get("name")
            fd = self.tu.by_id.get(n.get("referencedMemberDecl"))
            ty = _exec_type(n.get("type", {}))
            if fd is not None and fd.get("isBitfield"):
                w = self.tu.fold(kids(fd)[0]) if kids(fd) else None
                if w is None or ty is None:
                    raise _NoFold("bit-field `%s`" % name)
                ty = (w, ty[1])
            if name not in obj and isinstance(obj, _Zeroed):
                qt = n.get("type", {}).get("desugaredQualType") or n.get("type", {}).get("qualType") or ""
                if "[" in qt or re.search(r"\bunion\b", qt):
                    raise _NoFold("`%s`" % ctext(n)[:40])
                obj[name] = _Zeroed() if re.search(r"\bstruct\b", qt) and "*" not in qt else 0
            return obj, name, ty
        if k == "ArraySubscriptExpr":
            b = kids(n)[0]
            while kind(b) in ("ParenExpr",) or (kind(b) == "ImplicitCastExpr" and b.get("castKind") in ("ArrayToPointerDecay", "NoOp")):
                b = kids(b)[0]
            c, key, _ = self._lv(b, fr)
            arr = c.get(key) if isinstance(c, dict) else c[key]
            i = self.expr(kids(n)[1], fr)
            if not isinstance(arr, list) or not isinstance(i, int) or not 0 <= i < len(arr):
                raise _NoFold("`%s`" % ctext(n)[:40])
            if self.reads is not None:
                self.reads.append((ctext(b), i, arr))
            return arr, i, _exec_type(n.get("type", {}))
        raise _NoFold("`%s` as an object" % ctext(n)[:40])

    def _load(self, n, fr):
        c, key, ty = self._lv(n, fr)
        v = c.get(key) if isinstance(c, dict) else c[key]
        if v is None:
            raise _NoFold("`%s` is read before it is stored" % ctext(n)[:40])
        return v

    def _store(self, n, v, fr):
        c, key, ty = self._lv(n, fr)
        if isinstance(v, int):
            if ty is None:
                raise _NoFold("store into `%s` of type `%s`" % (ctext(n)[:40], n.get("type", {}).get("qualType", "?")))
            v = _convert(v, ty)
        elif isinstance(c, list):
            raise _NoFold("store into `%s`" % ctext(n)[:40])
        c[key] = v
        return v

    # -- expressions
    @staticmethod
    def _arith(op, a, b, ty):
        if op in ("/", "%"):
            if b == 0:
                raise _NoFold("division by zero")
            q = abs(a) // abs(b)
            if (a < 0) != (b < 0):
                q = -q
            return q if op == "/" else a - b * q
        if op in ("<<", ">>"):
            if not 0 <= b < ty[0] or a < 0:
                raise _NoFold("shift of %d by %d" % (a, b))
            return a << b if op == "<<" else a >> b
        return {"+": a + b, "-": a - b, "*": a * b, "&": a & b, "|": a | b, "^": a ^ b}[op]

    _CMP = {"<": lambda a, b: a < b, ">": lambda a, b: a > b, "<=": lambda a, b: a <= b, ">=": lambda a, b: a >= b,
            "==": lambda a, b: a == b, "!=": lambda a, b: a != b}

    def _int(self, n, fr):
        v = self.expr(n, fr)
        if isinstance(v, bool) or not isinstance(v, int):
            raise _NoFold("`%s` is not an integer value" % ctext(n)[:40])
        return v

    def expr(self, n, fr):
        k = kind(n)
        ks = kids(n)
        if k in ("IntegerLiteral", "CharacterLiteral"):
            return int(n["value"])
        if k in ("ParenExpr", "ConstantExpr"):
            return self.expr(ks[0], fr)
        if k in ("ImplicitCastExpr", "CStyleCastExpr"):
            ck = n.get("castKind")
            if ck == "LValueToRValue":
                return self._load(ks[0], fr)
            if ck == "NoOp":
                return self.expr(ks[0], fr)
            if ck == "IntegralCast":
                return _convert(self._int(ks[0], fr), self._type(n))
            if ck == "IntegralToBoolean":
                return int(self._int(ks[0], fr) != 0)
            if ck == "ToVoid":
                self.expr(ks[0], fr)
                return 0
            raise _NoFold("conversion %s of `%s`" % (ck, ctext(n)[:40]))
        if k == "DeclRefExpr":
            if n.get("referencedDecl", {}).get("kind") == "EnumConstantDecl":
                v = self.tu.enums.get(n["referencedDecl"].get("name"))
                if v is None:
                    raise _NoFold("enumerator `%s`" % ctext(n))
                return v
            raise _NoFold("`%s`" % ctext(n)[:40])
        if k == "UnaryExprOrTypeTraitExpr":
            v = self.tu.fold(n)
            if v is None:
                raise _NoFold("`%s`" % ctext(n)[:40])
            return v
        if k == "UnaryOperator":
            op = n.get("opcode")
            if op in ("++", "--"):
                old = self._load(ks[0], fr)
                if not isinstance(old, int):
                    raise _NoFold("`%s`" % ctext(n)[:40])
                new = self._store(ks[0], old + (1 if op == "++" else -1), fr)
                return old if n.get("isPostfix") else new
            if op == "!":
                return int(not self._int(ks[0], fr))
            if op in ("-", "+", "~"):
                a = self._int(ks[0], fr)
                return _convert({"-": -a, "+": a, "~": ~a}[op], self._type(n))
            raise _NoFold("operator %s in `%s`" % (op, ctext(n)[:40]))
        if k == "BinaryOperator":
            op = n.get("opcode")
            if op == "=":
                return self._store(ks[0], self.expr(ks[1], fr), fr)
            if op == ",":
                self.expr(ks[0], fr)
                return self.expr(ks[1], fr)
            if op in ("&&", "||"):
                a = self._int(ks[0], fr)
                if bool(a) == (op == "||"):
                    return int(bool(a))
                return int(bool(self._int(ks[1], fr)))
            a, b = self._int(ks[0], fr), self._int(ks[1], fr)
            if op in self._CMP:
                return int(self._CMP[op](a, b))
            if op in ("+", "-", "*", "/", "%", "&", "|", "^", "<<", ">>"):
                ty = self._type(n)
                return _convert(self._arith(op, a, b, ty), ty)
            raise _NoFold("operator %s in `%s`" % (op, ctext(n)[:40]))
        if k == "CompoundAssignOperator":
            op = n.get("opcode")[:-1]
            lt = _exec_type(n.get("computeLHSType", {}))
            rt = _exec_type(n.get("computeResultType", {}))
            old = self._load(ks[0], fr)
            if lt is None or rt is None or not isinstance(old, int):
                raise _NoFold("`%s`" % ctext(n)[:40])
            v = _convert(self._arith(op, _convert(old, lt), self._int(ks[1], fr), rt), rt)
            return self._store(ks[0], v, fr)
        if k == "ConditionalOperator":
            return self.expr(ks[1] if self._int(ks[0], fr) else ks[2], fr)
        if k == "CallExpr":
            name = ctext(ks[0])
            g = self.tu.functions.get(name)
            if g is None or not any(kind(c) == "CompoundStmt" for c in kids(g)):
                raise _NoFold("call of %s()" % name)
            v = self.call(g, [self.expr(a, fr) for a in ks[1:]])
            if _exec_type(n.get("type", {})) is not None and isinstance(v, int):
                return _convert(v, self._type(n))
            return v
        raise _NoFold("`%s` (%s)" % (ctext(n)[:40], k))

    # -- statements
    def call(self, f, args):
        """run f on the argument values (integers; a dict for the struct a pointer parameter points to); the value returned"""
        ps = self.tu.fparams(f)
        if len(ps) != len(args) or f.get("variadic") or self.depth >= 4:
            raise _NoFold("call of %s()" % f.get("name"))
        fr = {}
        for p, a in zip(ps, args):
            ty = _exec_type(p.get("type", {}))
            if isinstance(a, int):
                if ty is None:
                    raise _NoFold("parameter `%s` of %s()" % (p.get("name"), f.get("name")))
                a = _convert(a, ty)
            fr[p.get("id")] = a
        self.depth += 1
        try:
            self.stmt(self.tu.body(f), fr)
        except _Flow as e:
            if e.what != "return":
                raise _NoFold("%s outside a loop" % e.what)
            return e.value
        finally:
            self.depth -= 1
        return None

    def _tick(self):
        self.steps += 1
        if self.steps > self.LIMIT:
            raise _NoFold("step limit")

    def stmt(self, st, fr):
        if not st:
            return
        self._tick()
        k = kind(st)
        ks = kids(st)
        if k == "CompoundStmt":
            for c in ks:
                self.stmt(c, fr)
        elif k == "NullStmt":
            pass
        elif k == "DeclStmt":
            for d in ks:
                if kind(d) != "VarDecl":
                    continue
                if d.get("storageClass") == "static":
                    continue            # initialised once, before the first call (see _lv)
                ini = _decl_init(d)
                qt = d.get("type", {}).get("desugaredQualType") or d.get("type", {}).get("qualType") or ""
                if re.search(r"\b(struct|union)\b", qt) and "*" not in qt or "[" in qt:
                    if ini is not None or "[" in qt or re.search(r"\bunion\b", qt):
                        raise _NoFold("local aggregate `%s`" % d.get("name"))
                    fr[d.get("id")] = {}
                else:
                    fr[d.get("id")] = None if ini is None else self._conv_decl(self.expr(ini, fr), d)
        elif k == "ReturnStmt":
            raise _Flow("return", self.expr(ks[0], fr) if ks else None)
        elif k == "BreakStmt":
            raise _Flow("break")
        elif k == "ContinueStmt":
            raise _Flow("continue")
        elif k == "IfStmt":
            inner = list(st.get("inner", []))
            has_else = st.get("hasElse", False)
            if len(inner) != (3 if has_else else 2):
                raise _NoFold("if with a declaration")
            if self._int(inner[0], fr):
                self.stmt(inner[1], fr)
            elif has_else:
                self.stmt(inner[2], fr)
        elif k in ("ForStmt", "WhileStmt", "DoStmt"):
            if k == "ForStmt":
                init, cond, inc, body = st["inner"][0], st["inner"][2], st["inner"][3], st["inner"][4]
            elif k == "WhileStmt":
                if len(st["inner"]) != 2:
                    raise _NoFold("while with a declaration")
                init, cond, inc, body = None, st["inner"][0], None, st["inner"][1]
            else:
                init, cond, inc, body = None, st["inner"][1], None, st["inner"][0]
            if init:
                self.stmt(init, fr) if kind(init) == "DeclStmt" else self.expr(init, fr)
            first = True
            while True:
                self._tick()
                if not (k == "DoStmt" and first) and cond and not self._int(cond, fr):
                    break
                first = False
                try:
                    self.stmt(body, fr)
                except _Flow as e:
                    if e.what == "break":
                        break
                    if e.what != "continue":
                        raise
                if inc:
                    self.expr(inc, fr)
        elif k in ("SwitchStmt", "GotoStmt", "LabelStmt", "AsmStmt", "GCCAsmStmt"):
            raise _NoFold(k)
        else:
            self.expr(st, fr)

    def _conv_decl(self, v, d):
        if not isinstance(v, int):
            return v
        ty = _exec_type(d.get("type", {}))
        if ty is None:
            raise _NoFold("local `%s` of type `%s`" % (d.get("name"), d.get("type", {}).get("qualType", "?")))
        return _convert(v, ty)


# raw (un-normalised) interval of a C expression in its own type -- used where
# the normal form hides a bias (x + n) mod n

_CINT = {"int": (-(1 << 31), (1 << 31) - 1), "unsigned int": (0, (1 << 32) - 1), "uint32_t": (0, (1 << 32) - 1),
         "uint16_t": (0, 65535), "uint8_t": (0, 255), "int32_t": (-(1 << 31), (1 << 31) - 1),
         "int16_t": (-32768, 32767), "int8_t": (-128, 127), "long": (-(1 << 63), (1 << 63) - 1),
         "unsigned long": (0, (1 << 64) - 1), "unsigned char": (0, 255), "unsigned short": (0, 65535),
         "short": (-32768, 32767)}


class Wrap:
    """the mathematical value of a C expression can leave the range of its type"""

    def __init__(self, lo, hi, qt, text):
        self.lo, self.hi, self.qt, self.text = lo, hi, qt, text

    def __str__(self):
        return "%s can take values in %s, outside its type %s" % (self.text, ivtxt((self.lo, self.hi)), self.qt)


def single_def_locals(tu, f):
    """declId -> initialiser of the locals of f that are initialised at
    their declaration and never written again (nor have their address taken)"""
    inits, dirty = {}, set()
    for n in walk(tu.body(f)):
        k = kind(n)
        if k == "VarDecl" and n.get("init") and kids(n):
            inits[n.get("id")] = n
        elif (k == "BinaryOperator" and n.get("opcode") == "=") or k == "CompoundAssignOperator" or \
                (k == "UnaryOperator" and n.get("opcode") in ("++", "--", "&")):
            t = strip(kids(n)[0])
            if kind(t) == "DeclRefExpr":
                dirty.add(t.get("referencedDecl", {}).get("id"))
    return {i: d for i, d in inits.items() if i not in dirty}


def _fit(iv, n, text):
    qt = n.get("type", {}).get("qualType", "").replace("const ", "").replace("volatile ", "").strip()
    tr = _CINT.get(qt)
    if tr is None:
        return None
    if iv[0] < tr[0] or iv[1] > tr[1]:
        return Wrap(iv[0], iv[1], qt, text)
    return iv


def craw(tu, n, rng, loc=None):
    """Mathematical interval (lo, hi) of a C integer expression evaluated in
    its own (promoted) types; a Wrap object when some sub-expression can
    leave the range of its type; None when the expression is not understood.
    `rng` maps canonical lvalue text to (lo, hi); `loc` (single_def_locals)
    lets values flow through initialised-once temporaries in their declared
    type."""
    if kind(n) in ("ParenExpr", "ConstantExpr"):
        return craw(tu, kids(n)[0], rng, loc)
    if kind(n) in ("ImplicitCastExpr", "CStyleCastExpr"):
        iv = craw(tu, kids(n)[0], rng, loc)
        if iv is None or isinstance(iv, Wrap):
            return iv
        if n.get("castKind") in ("LValueToRValue", "NoOp"):
            return iv
        return _fit(iv, n, ctext(n))
    v = tu.fold(n)
    if v is not None:
        return (v, v)
    k = kind(n)
    if k in ("DeclRefExpr", "MemberExpr"):
        t = ctext(n)
        if t in rng:
            return rng[t]
        if k == "DeclRefExpr" and loc:
            d = loc.get(n.get("referencedDecl", {}).get("id"))
            if d is not None:
                iv = craw(tu, kids(d)[-1], rng, loc)
                if iv is None or isinstance(iv, Wrap):
                    return iv
                return _fit(iv, d, t)       # stored in the temporary's declared type
        return None
    if k == "BinaryOperator":
        a, b = (craw(tu, x, rng, loc) for x in kids(n))
        for x in (a, b):
            if isinstance(x, Wrap):
                return x
        if a is None or b is None:
            return None
        op = n.get("opcode")
        if op == "+":
            iv = (a[0] + b[0], a[1] + b[1])
        elif op == "-":
            iv = (a[0] - b[1], a[1] - b[0])
        elif op == "*":
            c = [a[0] * b[0], a[0] * b[1], a[1] * b[0], a[1] * b[1]]
            iv = (min(c), max(c))
        elif op == "%" and b[0] > 0:
            # C remainder: sign of the dividend
            iv = (0, min(a[1], b[1] - 1)) if a[0] >= 0 else (max(a[0], -(b[1] - 1)), min(max(a[1], 0), b[1] - 1))
        elif op == "/" and b[0] > 0 and a[0] >= 0:
            iv = (a[0] // b[1], a[1] // b[0])
        elif op == "&" and a[0] >= 0 and b[0] >= 0:
            iv = (0, min(a[1], b[1]))
        else:
            return None
        if op in ("+", "-", "*"):
            # operand-wise intervals forget that both operands depend on the same symbols (fn - (fn / c) * c): no
            # sub-expression wraps (checked above), so the value is that of the expression's normal form -- a second
            # enclosure, intersected with the first
            r = _term_interval(tu, n, rng, loc)
            if r is not None:
                iv = (max(iv[0], r[0]), min(iv[1], r[1]))
        return _fit(iv, n, ctext(n))
    return None


class _LocLower(CLower):
    """CLower that reads initialised-once temporaries through (single_def_locals)"""

    def __init__(self, tu, loc):
        CLower.__init__(self, tu, {})
        self.loc = loc or {}
        self.depth = 0

    def lower(self, n):
        m = strip(n)
        if kind(m) == "DeclRefExpr":
            d = self.loc.get(m.get("referencedDecl", {}).get("id"))
            if d is not None and self.depth < 16:
                self.depth += 1
                try:
                    return self.lower(kids(d)[-1])
                finally:
                    self.depth -= 1
        return CLower.lower(self, n)


def _term_interval(tu, n, rng, loc):
    try:
        t = euclid(renorm(_LocLower(tu, loc).lower(n)))
    except (AnalysisError, RecursionError):
        return None
    iv = interval(t, {V(k): v for k, v in rng.items()})
    return None if iv[0] > iv[1] else iv


def craw_txt(iv):
    if iv is None:
        return "not bounded by the analysis"
    if isinstance(iv, Wrap):
        return str(iv)
    return ivtxt(iv)


def dividend_ob(L, rule, file, func, tu, n, key, required, iv):
    """obligation on the dividend of a C / or %: provably >= 0 and not
    wrapping -> ok; provably possibly negative / wrapping -> violation;
    not understood -> no verdict (unless a violation is already recorded)"""
    if iv is None:
        if any(not o.ok for o in L.obs):
            L.extra.setdefault("undecided", []).append(key)
            return
        raise AnalysisError("%s(): cannot bound `%s` (line %s); the non-negativity argument for C division/remainder is "
                            "unclassifiable" % (func, ctext(n)[:60], tu.line(n)))
    L.ob(rule, file, func, key, required, craw_txt(iv), not isinstance(iv, Wrap) and iv[0] >= 0, tu.line(n))


# ------------------------------------------------------------------------------
# specification terms (TS 45.002 4.3.3)

def spec_decomposition(FN):
    return {"t1": X.div(FN, C(26 * 51)), "t2": X.mod(FN, C(26)), "t3": X.mod(FN, C(51)),
            "tc": X.mod(X.div(FN, C(51)), C(8))}


SPEC_TXT = {"t1": "FN div 1326", "t2": "FN mod 26", "t3": "FN mod 51", "tc": "(FN div 51) mod 8"}
FIELD_MAX = {"fn": HYPERFRAME - 1, "t1": 2047, "t2": 25, "t3": 50, "tc": 7}


def c_decomposition(L, rule):
    """gsm_fn2gsmtime: terms of the four components over the symbol FN"""
    tu = TU(L.repo, "libosmo", "src/gsm/gsm_utils.c", L=L)
    L.unit(F_UTILS_H)
    fname = "gsm_fn2gsmtime"
    f = tu.func(fname)
    L.fn(F_UTILS, fname)
    ps = tu.fparams(f)
    if len(ps) != 2:
        raise AnalysisError("%s(): expected (struct gsm_time *, fn), found %d parameters" % (fname, len(ps)))
    tname, fnname = ps[0].get("name"), ps[1].get("name")
    sym = CSym(tu)
    out = sym.run(f)
    if sym.effects:
        raise AnalysisError("%s(): calls %s; unclassifiable" % (fname, sym.effects[0][1]))
    ren = lambda t: V("FN") if t == V(fnname) else None
    # objects the function keeps between calls (block-scope / file-level objects of static storage somebody writes): the
    # formulas are judged here for the first call -- every such object holds its static initialiser --, what a call
    # computes after other calls is judged by R4 (call sequences with the state carried)
    kept = kept_objects(tu, f)
    comp = {}
    for fld in ("fn", "t1", "t2", "t3", "tc"):
        raw = sym.final(out, "%s->%s" % (tname, fld))
        if kept and {root_name(x[1]) for x in subterms(raw) if x[0] == "v"} & set(kept):
            L.extra.setdefault("decomposition_state", {})["time->" + fld] = \
                "reads %s, kept between calls: %s judges the first call (static initialisers), C19.R4 the call sequences" % (
                    ", ".join(sorted({root_name(x[1]) for x in subterms(raw) if x[0] == "v"} & set(kept))), rule)
        # the property quantifies over FN in 0..2715647: arms no frame number of that domain can take (a fold of an
        # out-of-range argument back into the hyperframe, a defensive clamp) are decided by intervals and dropped
        comp[fld] = euclid(prune(renorm(cold_start(raw, tu, kept), ren), {V("FN"): (0, HYPERFRAME - 1)}))
    # C division / remainder: floor semantics need a non-negative dividend that does not wrap
    rng = {fnname: (0, HYPERFRAME - 1), "%s->fn" % tname: (0, HYPERFRAME - 1)}
    ndiv = 0
    loc = single_def_locals(tu, f)
    for n in walk(tu.body(f)):
        if kind(n) == "BinaryOperator" and n.get("opcode") in ("/", "%"):
            ndiv += 1
            iv = craw(tu, kids(n)[0], rng, loc)
            dividend_ob(L, rule, F_UTILS, fname, tu, kids(n)[0],
                        "C `%s`: dividend `%s` is non-negative and does not wrap for FN in 0..2715647 (so / and %% are floor division / remainder)" % (
                            n.get("opcode"), ctext(kids(n)[0])), ">= 0, within its type", iv)
    return tu, f, comp, ndiv


def total_on_domain(L, rule, res, fd, func="HoppingParams.fn2gsm_time"):
    """C19.R1 (C07.R4 when called for the hopping rule), clause "the Python toolkit derives the same T1, T2, T3 as the C
    code" for ALL FN in 0..2715647: the C decomposition is total, so a guard of the Python function that raises (a range
    check, an assertion) is acceptable only when no frame number of the hyperframe satisfies it.  Decided exactly on the
    forward-substituted term: the condition under which it ends in a raise is solved as a set of intervals of FN (linear
    comparisons with folded constants -- `<`, `>=`, chained comparisons, `in range(a, b)` alike) or, for other guards,
    folded for each of the 2715648 frame numbers.  Empty -> the raising arms are dropped (they reject values outside the
    domain only); otherwise the smallest such FN is reported: for it Python derives no (T1, T2, T3) where C does.
    Returns the term on the inputs that do not raise."""
    if not any(x[0] == "raise" for x in ite_leaves(res)):
        return res
    FNv = V("FN")
    w, count, how = raising_inputs(res, FNv, 0, HYPERFRAME - 1)
    key = "fn2gsm_time(FN) returns (T1, T2, T3, TC) for every FN in 0..2715647 (a raising guard may reject only values outside the hyperframe)"
    want = "no FN in 0..2715647 raises"
    if w is None:
        L.ob(rule, F_GSM, func, key, want, "%s (%s)" % (want, how), True, fd.lineno)
    else:
        v = evalnum(res, {FNv: w})
        cls = v[1] if isinstance(v, tuple) and v and v[0] == "raise" else "an exception"
        L.ob(rule, F_GSM, func, key, want, "raises %s for FN = %d%s under the guard %s (%s); gsm_fn2gsmtime gives (%d, %d, %d, %d) there" % (
            cls, w, "" if count in (None, 1) else " and %d more frame numbers" % (count - 1),
            show(_bool_simplify(raise_cond(res)))[:160], how, w // 1326, w % 26, w % 51, (w // 51) % 8), False, fd.lineno)
    return drop_raises(res)


PY_WALKS = (("consecutive frames from the first call on (every multiple of 26 and of 51 below 130)", list(range(0, 130))),
            ("consecutive frames, the first call not the frame after the initial one", list(range(24, 56))),
            ("consecutive frames across the hyperframe wrap (2715646, 2715647, 0, 1, ...), then on across a superframe boundary",
             [HYPERFRAME - 2, HYPERFRAME - 1] + list(range(0, 3)) + list(range(1324, 1329))),
            ("a frame repeated, then the consecutive one", [1325, 1325, 1326, 1326, 1327, HYPERFRAME - 1, HYPERFRAME - 1, 0, 0, 1]))


def py_history(L, repo, mod, ci, fd, param, kept, rule, hopping_only):
    """C19.R4 (C07.R4 when called for the hopping rule), Python sibling of r4_stateless: clause "the Python toolkit derives
    the same T1, T2, T3 as the C code" (and the decomposition clause) for a fn2gsm_time() whose forward-substituted result
    reads something besides its argument (`kept`: a class attribute holding the last result, a module-level cache).
    gsm_fn2gsmtime is a function of FN alone, so the Python result must be the decomposition of the call's own FN for every
    history of calls.  Decided by folding (consteval: no repository code runs) the method body on call sequences starting
    from the state the class body / module leaves, every attribute the body stores carried to the next call: random access
    around the carry points, the steps of the running time for every delta of the property, consecutive walks across the
    multiples of 26, 51, 1326 and the wrap 2715646 -> 2715647 -> 0 -> 1.  A call that returns something else is a
    counterexample inside the property's domain (a legal history), reported with the pair of calls.  History dependence
    that the sequences do not refute is not proven harmless: no verdict (AnalysisError)."""
    rule = rule.split(".")[0] + ".R4"
    func = "HoppingParams.fn2gsm_time"
    names = ", ".join("`%s`" % k for k in kept)
    comps = (("T1 mod 64", lambda fn: (fn // 1326) % 64, lambda v: v % 64), ("T2", lambda fn: fn % 26, None), ("T3", lambda fn: fn % 51, None)) \
        if hopping_only else (("T1", lambda fn: fn // 1326, None), ("T2", lambda fn: fn % 26, None), ("T3", lambda fn: fn % 51, None),
                              ("TC", lambda fn: (fn // 51) % 8, None))
    skip = (Unknown, TypeError, ValueError, ArithmeticError, LookupError, AttributeError, RecursionError)
    total, bad, skipped = 0, {}, None
    try:
        for what, seq in list(call_sequences()) + list(PY_WALKS):
            state, prev = {}, None
            session = {}            # class-level / module-level state of the sequence (stores through the class name)
            for fn in seq:
                ev = Ev(repo, mod, env=dict(state, **{param: fn}), self_cls=ci)
                ev.gstate = session
                try:
                    r = ev.run_block(fd.body)
                except Raised as e:
                    raise AnalysisError("%s raises %s for FN = %d%s; the call sequences cannot be folded" % (
                        func, e.cls, fn, " after FN = %d" % prev if prev is not None else ""))
                state = {k: v for k, v in ev.env.items() if isinstance(k, str) and "." in k}
                v = r[1] if isinstance(r, tuple) and len(r) == 2 and r[0] == "ret" else None
                total += 1
                if not (isinstance(v, (tuple, list)) and len(v) == 4 and all(isinstance(x, int) for x in v)):
                    raise Unknown("fn2gsm_time(%d) folds to %r, not to four integers" % (fn, v))
                diffs = ["%s = %d returned, decomposition of FN: %d" % (nm, v[i], w(fn)) for i, (nm, w, red) in enumerate(comps)
                         if (red(v[i]) if red else v[i]) != w(fn)]
                if diffs:
                    rec = bad.setdefault(what, [0, None])
                    rec[0] += 1
                    if rec[1] is None:
                        rec[1] = "fn2gsm_time(%d) %s: %s" % (fn, "after fn2gsm_time(%d)" % prev if prev is not None else
                                                            "as the first call", "; ".join(diffs))
                prev = fn
    except skip as e:
        skipped = "the method leaves the evaluator's vocabulary: %s" % e
    L.extra["py_decomposition_call_sequences"] = {"state": kept, "calls_folded": total,
                                                  "status": "skipped: %s" % skipped if skipped else "complete"}
    for what in sorted(bad):
        k, first = bad[what]
        L.ob(rule, F_GSM, func,
             "fn2gsm_time() reads %s besides its argument: called in a sequence (%s) every call returns the decomposition of its own "
             "frame number (sequences folded from the initial state, the stored attributes carried from call to call)" % (names, what),
             ", ".join(nm for nm, _, _ in comps) + " of each call's own FN (as gsm_fn2gsmtime derives them)",
             "%s; %d calls of these sequences differ (%d calls folded in all)" % (first, k, total), False, fd.lineno)
    raise AnalysisError("%s reads %s besides its argument%s; %s" % (
        func, names, " (%s)" % skipped if skipped else "",
        "the call sequences above refute that every call returns the decomposition of its own frame number; the per-component "
        "formula rules are not applicable to a history-dependent result" if bad else
        "%d calls in witness sequences do not refute that every call returns the decomposition of its own frame number, and no "
        "proof of it is attempted; unclassifiable" % total))


def py_decomposition(L, repo, rule, hopping_only=False):
    ci, fd = repo.need_method("gsm_shared", "HoppingParams", "fn2gsm_time")
    L.unit(F_GSM)
    L.fn(F_GSM, "HoppingParams.fn2gsm_time")
    mod = repo.mod("gsm_shared")
    static = any(isinstance(d, ast.Name) and d.id == "staticmethod" for d in fd.decorator_list)
    names = [a.arg for a in fd.args.args]
    if not static:
        names = names[1:]
    if len(names) != 1:
        raise AnalysisError("HoppingParams.fn2gsm_time: expected one frame-number parameter, found %r" % names)
    sym = PySym(repo, mod, ci)
    res = sym.result(sym.run(fd))
    res = renorm(res, lambda t: V("FN") if t == V(names[0]) else None)
    kept = sorted({x[1] for x in subterms(res) if x[0] == "v"} - {"FN", "None"})
    if kept:
        py_history(L, repo, mod, ci, fd, names[0], kept, rule, hopping_only)
    # arms that no frame number of the hyperframe can take (a range assertion, a defensive raise) are decided by intervals
    res = prune(res, {V("FN"): (0, HYPERFRAME - 1)})
    res = total_on_domain(L, rule, res, fd)
    if res[0] != "tuple" or len(res) != 5:
        raise AnalysisError("HoppingParams.fn2gsm_time does not return a 4-tuple on every path: %s" % show(res)[:80])
    return fd, dict(zip(("t1", "t2", "t3", "tc"), [euclid(x) for x in res[1:]]))


def component_verdict(L, got, want, what):
    """(ok, text of what was found, the term to go on with) for one time component against its TS 45.002 4.3.3 term.
    Equal normal forms close the clause for every FN.  Normal forms that differ decide nothing by themselves (the
    same function can be written in many ways): the two terms are then folded for every frame number of the
    hyperframe -- the property's whole, finite domain -- and only a frame number on which they differ is a
    violation (reported with that frame number)."""
    d = diff(got, want)
    if not d:
        return True, show(got), want
    try:
        ce = first_difference(got, want)
    except AnalysisError as e:
        raise AnalysisError("%s: `%s` is not in the normal form of the specification term `%s` and %s" % (
            what, show(got)[:120], show(want), e))
    if ce is None:
        L.extra.setdefault("decided_by_enumeration", []).append(
            "%s: %s == %s for every FN in 0..%d" % (what, show(got)[:160], show(want), HYPERFRAME - 1))
        return True, "%s -- equal to %s for each of the %d frame numbers (folded; the normal forms differ)" % (
            show(got), show(want), HYPERFRAME), want
    return False, "%s -- differs in %s (specification: %s), e.g. FN = %d: found %s, specification %s" % (
        show(got), "; ".join(show(a) for a, b in d), "; ".join(show(b) for a, b in d), ce[0], ce[1], ce[2]), got


def r1_decomposition(L, repo, rule="C19.R1", hopping_only=False):
    """decomposition agreement; returns the moduli found (for R3) and both component maps.
    hopping_only: compare only what TS 45.002 6.2.3 consumes (T1 mod 64, T2, T3)."""
    want = spec_decomposition(V("FN"))
    tu, f, cc, ndiv = c_decomposition(L, rule)
    fd, pc = py_decomposition(L, repo, rule, hopping_only)
    n = 0
    L.require(rule, F_UTILS, "gsm_fn2gsmtime", "time->fn = FN (the frame number given)", "FN", show(cc["fn"]), line=tu.line(f))
    if hopping_only:
        for (file, func, comp, line) in ((F_UTILS, "gsm_fn2gsmtime", cc, tu.line(f)), (F_GSM, "HoppingParams.fn2gsm_time", pc, fd.lineno)):
            n += 3
            for fld, w, txt in (("t1", mod_(want["t1"], C(64)), "T1 mod 64 = (FN div 1326) mod 64"),
                                ("t2", want["t2"], "T2 = FN mod 26"), ("t3", want["t3"], "T3 = FN mod 51")):
                got = euclid(renorm(mod_(comp[fld], C(64)))) if fld == "t1" else comp[fld]
                ok, txt_found, _ = component_verdict(L, got, w, "%s: %s" % (func, txt))
                L.ob(rule, file, func, "%s (TS 45.002 4.3.3; what the hopping formula consumes)" % txt, show(w), txt_found, ok, line)
        L.floor(rule, "component expressions (C + Python)", n, 6)
        return {}, cc, pc, tu
    for fld in ("t1", "t2", "t3", "tc"):
        raw = {}
        for (side, file, func, comp, line) in (("C", F_UTILS, "gsm_fn2gsmtime", cc, tu.line(f)),
                                                ("Python", F_GSM, "HoppingParams.fn2gsm_time", pc, fd.lineno)):
            n += 1
            raw[side] = comp[fld]
            ok, txt_found, comp[fld] = component_verdict(L, comp[fld], want[fld], "%s: %s = %s" % (func, fld.upper(), SPEC_TXT[fld]))
            L.ob(rule, file, func, "%s = %s (TS 45.002 4.3.3)" % (fld.upper(), SPEC_TXT[fld]), show(want[fld]), txt_found, ok, line)
            iv = interval(comp[fld], {V("FN"): (0, HYPERFRAME - 1)})
            if side == "C":
                L.ob(rule, file, func, "%s fits its struct gsm_time field for FN in 0..2715647" % fld.upper(),
                     "[0, %d]" % FIELD_MAX[fld], ivtxt(iv), iv[0] >= 0 and iv[1] <= FIELD_MAX[fld], line)
        # both sides decided equal to the same specification term are equal; otherwise (one of them is wrong) they
        # are compared with each other the same way
        same = cc[fld] == pc[fld]
        if not same:
            try:
                same = first_difference(cc[fld], pc[fld]) is None
            except AnalysisError:
                same = False
        L.ob(rule, F_GSM, "HoppingParams.fn2gsm_time", "Python and C derive the same %s from a frame number" % fld.upper(),
             show(raw["C"]), show(raw["Python"]), same, fd.lineno)
    L.floor(rule, "component expressions (C + Python)", n, 8)
    # anchor: the decomposition divides at all (how many operators it needs is the author's choice)
    L.floor(rule, "C divisions/remainders in gsm_fn2gsmtime", ndiv, 1)
    mods = {}
    for fld in ("t2", "t3", "tc"):
        t = cc[fld]
        mods[fld] = t[2][1] if t[0] == "mod" and t[2][0] == "c" else None
    t = cc["t1"]
    mods["super"] = t[2][1] if t[0] == "div" and t[2][0] == "c" else None
    return mods, cc, pc, tu


# ------------------------------------------------------------------------------
# R2 recomposition

RECOMP_T1 = (0, 1, 1023, 2047)


def dividend_sites(tu, f, rng, depth=0, via=None):
    """(function name, `/` or `%` node, raw interval of its dividend) for every division / remainder that evaluating f
    can reach: its own body and -- with the parameter ranges taken from the arguments at the call site -- the bodies
    of value-only helpers of the same file it calls (an extracted `mod 26` helper)."""
    loc = single_def_locals(tu, f)
    for n in walk(tu.body(f)):
        if kind(n) == "BinaryOperator" and n.get("opcode") in ("/", "%"):
            yield (via or f.get("name"), n, craw(tu, kids(n)[0], rng, loc))
        elif kind(n) == "CallExpr" and depth < 3:
            g = tu.functions.get(ctext(kids(n)[0]))
            if g is None or g is f or not any(kind(c) == "CompoundStmt" for c in kids(g)):
                continue
            ps = tu.fparams(g)
            args = kids(n)[1:]
            sub = {}
            if len(ps) == len(args):
                for p, a in zip(ps, args):
                    iv = craw(tu, a, rng, loc)
                    if iv is not None and not isinstance(iv, Wrap):
                        sub[p.get("name")] = iv
            for x in dividend_sites(tu, g, sub, depth + 1, g.get("name")):
                yield x


def fold_recomposition(tu, f, p, sym, t1s=RECOMP_T1, limit=3):
    """gsm_gsmtime2fn folded in C integer semantics (CFold: the checker's own evaluator over the clang AST, value-only
    helpers included) for every (T2, T3) pair of 0..25 x 0..50 -- each of them is the (T2, T3) of some frame number,
    gcd(26, 51) == 1 -- and T1 in t1s, on the consistent time of the frame number FN = 51*((T3 - T2) mod 26) +
    T3 + 1326*T1; the value returned must be FN.  (points folded, [text of differing points]); AnalysisError when the
    function leaves the evaluator's vocabulary."""
    cf = CFold(tu, sym)
    body = tu.body(f)
    rt = f.get("type", {}).get("qualType", "").split("(")[0].strip()
    k, bad = 0, []
    for t1 in t1s:
        for t2 in range(26):
            for t3 in range(51):
                fn = 51 * ((t3 - t2) % 26) + t3 + 1326 * t1
                env = {"%s->fn" % p: fn, "%s->t1" % p: t1, "%s->t2" % p: t2, "%s->t3" % p: t3, "%s->tc" % p: (fn // 51) % 8}
                cf.steps = 0
                got = None
                try:
                    cf.stmt(body, env)
                except _Flow as e:
                    if e.what == "return" and e.value is not None:
                        got = wrap_int(e.value, rt)
                except (ArithmeticError, ValueError, TypeError, KeyError, RecursionError):
                    got = None
                if got is None:
                    raise AnalysisError("gsm_gsmtime2fn cannot be folded for T1 = %d, T2 = %d, T3 = %d (outside the evaluator's "
                                        "vocabulary)" % (t1, t2, t3))
                k += 1
                if got != fn:
                    bad.append("T1 = %d, T2 = %d, T3 = %d (FN = %d): %d returned" % (t1, t2, t3, fn, got))
                    if len(bad) >= limit:
                        return k, bad
    return k, bad


def fold_recomposition_exec(tu, f, t1s=RECOMP_T1, limit=3):
    """The same fold by CExec (typed C integer semantics), for a recomposition that reads objects of static storage
    duration -- a lookup table instead of a product.  Sound only because nothing writes them (kept_objects() is empty:
    an object nobody writes holds its initialiser for ever, so a subscript of it is a function of the index; the
    initialiser list is read from the clang AST) and exact because the index is evaluated on the complete (T2, T3)
    domain.  A point that returns another frame number is reported with the table elements it read; an element whose
    replacement by (element + FN - returned) makes that very point return FN is named as the offending entry.
    (points folded, [text of differing points]); AnalysisError outside CExec's vocabulary or when state is kept."""
    kept = kept_objects(tu, f)
    if kept:
        raise AnalysisError("gsm_gsmtime2fn reads %s, written elsewhere in the file (state)" % ", ".join("`%s`" % x for x in sorted(kept)))
    ex = CExec(tu)

    def call(t1, t2, t3, fn):
        ex.steps, ex.reads = 0, []
        try:
            v = ex.call(f, [{"fn": fn, "t1": t1, "t2": t2, "t3": t3, "tc": (fn // 51) % 8}])
        except (_NoFold, _Flow, ArithmeticError, ValueError, TypeError, KeyError, RecursionError) as e:
            raise AnalysisError("gsm_gsmtime2fn cannot be folded for T1 = %d, T2 = %d, T3 = %d: %s" % (t1, t2, t3, e))
        if isinstance(v, bool) or not isinstance(v, int):
            raise AnalysisError("gsm_gsmtime2fn returns no integer for T1 = %d, T2 = %d, T3 = %d" % (t1, t2, t3))
        return v, ex.reads
    k, bad, tabs = 0, [], {}
    for t1 in t1s:
        for t2 in range(26):
            for t3 in range(51):
                fn = 51 * ((t3 - t2) % 26) + t3 + 1326 * t1
                got, reads = call(t1, t2, t3, fn)
                k += 1
                for name, i, arr in reads:
                    tabs.setdefault(name, (len(arr), set(), {}))[1].add(i)
                if got == fn:
                    continue
                txt = []
                for name, i, arr in reads:
                    old, fix = arr[i], None
                    arr[i] = old + fn - got
                    try:
                        if call(t1, t2, t3, fn)[0] == fn:
                            fix = arr[i]
                    except AnalysisError:
                        pass
                    arr[i] = old
                    if fix is not None or i not in tabs[name][2]:
                        tabs[name][2][i] = (old, fix)
                    txt.append("%s[%d] == %d%s" % (name, i, old, "" if fix is None else " -- offending entry: %d there returns "
                                                   "the frame number" % fix))
                if len(bad) < limit:
                    bad.append("T1 = %d, T2 = %d, T3 = %d (FN = %d): %d returned%s" % (
                        t1, t2, t3, fn, got, "; reads " + ", ".join(txt) if txt else ""))
    return k, bad, tabs


def fold_recomposition_term(got, want, t1s=RECOMP_T1, limit=3):
    """the same comparison on the forward-substituted term (floor semantics: valid once every dividend is proven
    non-negative), for every (T2, T3) pair and T1 in t1s"""
    names = {V("T1"): "a", V("T2"): "b", V("T3"): "c"}
    f = term_fn(("tuple", got, want), names, ["a", "b", "c"])
    k, bad = 0, []
    for t1 in t1s:
        for t2 in range(26):
            for t3 in range(51):
                try:
                    a, b = f(t1, t2, t3)
                except (ArithmeticError, _Outside, TypeError, ValueError) as e:
                    raise AnalysisError("the recomposed term cannot be folded: %s" % e)
                k += 1
                if a != b:
                    bad.append("T1 = %d, T2 = %d, T3 = %d (FN = %d): %s computed" % (t1, t2, t3, b, a))
                    if len(bad) >= limit:
                        return k, bad
    return k, bad


def linear_in_t1(got):
    """T1 enters the recomposed term only as the summand 1326*T1 (then the fold over every (T2, T3) pair with a few T1
    is complete for every T1)"""
    T1 = V("T1")

    def rec(t):
        if t[0] == "ite":
            return T1 not in set(subterms(t[1])) and rec(t[2]) and rec(t[3])
        rest = renorm(X.sub(t, X.mul(C(26 * 51), T1)))
        return T1 not in set(subterms(rest))
    return rec(got)


def r2_recomposition(L, tu):
    """R2.  Structural decision (closes the clause for every time): the returned term is 51*((T3 - T2) mod 26) + T3 +
    1326*T1 in normal form and every C dividend is proven non-negative by intervals (so C's truncating % is the
    mathematical mod).  A recomposition written in another shape (conditional add / subtract instead of a remainder, a
    helper, a defensive fallback arm) decides nothing by its shape: the function is then folded in C semantics for
    every (T2, T3) pair of the finite domain -- a time on which another frame number is returned is the violation
    (reported with it); agreement is recorded and the structural clause stays open without an alarm.
    Lookup tables (clause: recomposition inverts decomposition for every frame number): a summand taken from an object of
    static storage duration nobody writes is a function of the index, so the fold reads the table from its initialiser
    list and runs the index over the complete (T2, T3) domain (fold_recomposition_exec); one obligation per table names
    every element with which another frame number than that of the time is returned.  A table somebody writes is state:
    no verdict."""
    rule = "C19.R2"
    fname = "gsm_gsmtime2fn"
    f = tu.func(fname)
    L.fn(F_UTILS, fname)
    ps = tu.fparams(f)
    if len(ps) != 1:
        raise AnalysisError("%s(): expected one parameter" % fname)
    p = ps[0].get("name")
    sym = CSym(tu)
    out = sym.run(f)
    res = sym.result(out)
    if sym.effects:
        raise AnalysisError("%s(): calls %s; unclassifiable" % (fname, sym.effects[0][1]))
    names = {V("%s->%s" % (p, x)): x.upper() for x in ("t1", "t2", "t3", "tc", "fn")}
    ren = lambda t: V(names[t]) if t in names else None
    got = renorm(res, ren)
    T1, T2, T3 = V("T1"), V("T2"), V("T3")
    want = X.add(X.mul(C(51), X.mod(X.sub(T3, T2), C(26))), T3, X.mul(C(26 * 51), T1))
    d = diff(got, want)
    key = "FN = 51*((T3 - T2) mod 26) + T3 + 1326*T1 (TS 45.002 4.3.3), modulo the bias rule (x + 26) mod 26 == x mod 26"
    differs = "%s -- differs in %s (specification: %s)" % (
        show(got), "; ".join(show(a) for a, b in d), "; ".join(show(b) for a, b in d)) if d else show(got)
    # the bias: C's % truncates toward zero, so every dividend must be provably >= 0 in a signed type wide enough
    rng = {"%s->t1" % p: (0, 2047), "%s->t2" % p: (0, 25), "%s->t3" % p: (0, 50), "%s->tc" % p: (0, 7),
           "%s->fn" % p: (0, HYPERFRAME - 1)}
    sites = list(dividend_sites(tu, f, rng))

    def dkey(where, n):
        return ("C `%s`: dividend `%s` is non-negative for t3 <= 50, t2 <= 25 after integer promotion (C remainder truncates toward "
                "zero; the +26 bias is what makes (T3 - T2) mod 26 a true modulo)" % (n.get("opcode"), ctext(kids(n)[0])))

    def dividends():
        for where, n, iv in sites:
            dividend_ob(L, rule, F_UTILS, where, tu, kids(n)[0], dkey(where, n), ">= 0, no wrap-around", iv)
    div_ok = all(iv is not None and not isinstance(iv, Wrap) and iv[0] >= 0 for _, _, iv in sites)
    line = tu.line(f)
    if not d and div_ok:
        L.ob(rule, F_UTILS, fname, key, show(want), show(got), True, line)
        dividends()
    else:
        # not in the recognised shape: decided by folding the function itself over the finite domain
        closed = linear_in_t1(got)
        t1s = (0, 2047) if closed else RECOMP_T1
        e, tabs = None, {}
        try:
            k, bad = fold_recomposition(tu, f, p, sym, t1s)
            how = "folded in C integer semantics"
        except AnalysisError as e0:
            e = e0
            try:
                # e.g. a lookup in a file-scope table nobody writes: folded exactly from its initialiser list
                k, bad, tabs = fold_recomposition_exec(tu, f, t1s)
                how = "folded in typed C integer semantics, constant tables read from their initialisers"
                e = None
            except AnalysisError:
                pass
        if e is not None:
            if not div_ok:
                # neither proven by intervals nor foldable: the interval verdict stands (a dividend that is negative
                # for some time of the box; an expression that cannot be bounded gives no verdict)
                L.ob(rule, F_UTILS, fname, key, show(want), differs, not d, line)
                dividends()
                raise e
            k, bad = fold_recomposition_term(got, want, t1s)
            how = "the forward-substituted term folded (%s)" % e
        for name, (size, reached, off) in sorted(tabs.items()):
            # a subscript of an object nobody writes is a function of the index: decided element by element
            L.ob(rule, F_UTILS, fname, "constant table `%s` subscripted by gsm_gsmtime2fn: with every element the times of the "
                 "(T2, T3) domain reach, the frame number of the time is returned" % name, "no offending element",
                 "; ".join("%s[%d] == %d%s" % (name, i, old, "" if fix is None else " (%d there returns the frame number)" % fix)
                           for i, (old, fix) in sorted(off.items())[:6]) if off else
                 "%d of %d elements reached, initialiser list read from the AST, none offending" % (len(reached), size), not off, line)
        if tabs:
            L.floor(rule, "elements of constant tables reached by the fold of gsm_gsmtime2fn", sum(len(r) for _, r, _ in tabs.values()), 1)
        scope = "every (T2, T3) pair of 0..25 x 0..50 and T1 in %s%s" % (
            list(t1s), " (T1 enters only as the summand 1326*T1: complete)" if closed else "")
        if bad:
            L.ob(rule, F_UTILS, fname, key, show(want), "e.g. %s -- %s" % (bad[0], differs), False, line)
            for where, n, iv in sites:
                if iv is not None and (isinstance(iv, Wrap) or iv[0] < 0):
                    dividend_ob(L, rule, F_UTILS, where, tu, kids(n)[0], dkey(where, n), ">= 0, no wrap-around", iv)
        else:
            L.ob(rule, F_UTILS, fname, key, show(want),
                 "%s -- returns the frame number of the time on all %d points: %s; %s (not in the recognised shape: structural "
                 "proof open)" % (show(got)[:300], k, scope, how), True, line)
            L.extra.setdefault("decided_by_enumeration", []).append(
                "gsm_gsmtime2fn: the frame number is returned for %s (%d points, %s)" % (scope, k, how))

            def structural():
                L.ob(rule, F_UTILS, fname, key, show(want), differs, not d, line)
                dividends()
            L.structural("C19.R2 gsm_gsmtime2fn: normal form of the returned term and non-negative C dividends", structural)
    # anchor: the recomposition reads the three components it is built from (how many remainders it needs is the
    # author's choice)
    comps = sorted(v[1] for v in set(subterms(got)) if v in (T1, T2, T3))
    L.floor(rule, "time components read by gsm_gsmtime2fn", len(comps), 3)
    loc = single_def_locals(tu, f)
    for n in walk(tu.body(f)):
        if kind(n) == "ReturnStmt" and kids(n):
            whole = craw(tu, kids(n)[0], rng, loc)
            if whole is None:
                # not understood (e.g. a re-assigned temporary): no verdict on this auxiliary clause
                L.extra.setdefault("undecided", []).append("overflow of the recomposed sum in gsm_gsmtime2fn")
                continue
            L.ob(rule, F_UTILS, fname, "the recomposed sum does not overflow its C type", "no wrap-around",
                 craw_txt(whole), not isinstance(whole, Wrap), tu.line(n))


# ------------------------------------------------------------------------------
# R3 incremental carry logic

def narrow(rng, c, pol):
    """the box `rng` under condition c taken with polarity pol (comparisons of a symbol with a constant refine it)"""
    return {var: refine(c, pol, var, iv) for var, iv in rng.items()}


def red_to_mod(t, rng, log):
    """('red', S, m) -> S mod m where S is provably in [0, 2m-1]; the interval of S is taken under the conditions of
    the conditionals that enclose the reduction (`if (delta < 26) ADD_MODULO(t2, delta, 26)`)"""
    def go(x, rng):
        k = x[0]
        if k in ("c", "v"):
            return x
        if k == "ite":
            c = go(x[1], rng)
            return ite_(c, go(x[2], narrow(rng, c, True)), go(x[3], narrow(rng, c, False)))
        if k == "red":
            S, m = go(x[1], rng), go(x[2], rng)
            iv = interval(S, rng)
            ok = m[0] == "c" and m[1] > 0 and iv[0] >= 0 and iv[1] <= 2 * m[1] - 1
            log.append((S, m, iv, ok))
            return X.mod(S, m) if ok else ("red", S, m)
        return build((k,) + tuple(go(y, rng) if isinstance(y, tuple) else y for y in x[1:]))
    return go(t, rng)


def field_ranges(tu, rec):
    """field name -> (lo, hi) a member of struct `rec` can hold (bit-fields by their width)"""
    r = tu.records.get(rec)
    out = {}
    for c in (kids(r) if r is not None else []):
        if kind(c) != "FieldDecl":
            continue
        ty = c.get("type", {})
        base = _CINT.get((ty.get("qualType") or "").replace("const ", "").strip()) or _CINT.get(ty.get("desugaredQualType") or "")
        if base is None:
            continue
        if c.get("isBitfield"):
            w = tu.fold(kids(c)[0]) if kids(c) else None
            if w is None:
                continue
            base = (0, (1 << w) - 1) if base[0] == 0 else (-(1 << (w - 1)), (1 << (w - 1)) - 1)
        out[c.get("name")] = base
    return out


def stores_fit(L, rule, tu, fname, sym, tp, rng, line):
    """every value l1s_time_inc stores into a field of the time (intermediate values of ADD_MODULO included) fits the
    field: the forward-substituted terms are exact only then.  Interval of the stored term under its path conditions;
    an interval that leaves the field is a violation only with a concrete time / delta of the entry invariant that
    takes the path and stores such a value (corners of the box)."""
    ptype = [p for p in tu.fparams(tu.func(fname)) if p.get("name") == tp][0].get("type", {}).get("qualType", "")
    caps = field_ranges(tu, ptype.replace("const", "").replace("struct", "").replace("*", "").strip())
    n = 0
    for path, key, val in sym.stores:
        if not key.startswith(tp + "->") or key[len(tp) + 2:] not in caps:
            continue
        n += 1
        fldname = key[len(tp) + 2:]
        cap = caps[fldname]
        box = dict(rng)
        for c, pol in path:
            box = narrow(box, c, pol)
        iv = interval(val, box)
        if iv[0] >= cap[0] and iv[1] <= cap[1]:
            continue
        vs = sorted({x for t in [val] + [c for c, _ in path] for x in subterms(t) if x in box and box[x][0] <= box[x][1]}, key=repr)
        if len(vs) > 6:
            continue
        for corner in range(1 << len(vs)):
            env = {v: box[v][corner >> i & 1] for i, v in enumerate(vs)}
            if any(evalnum(c, env) != int(pol) for c, pol in path):
                continue
            got = evalnum(val, env)
            if isinstance(got, int) and not cap[0] <= got <= cap[1]:
                L.ob(rule, F_SYNC, fname, "values stored in %s fit the field" % key, ivtxt(cap),
                     "%d stored for %s" % (got, ", ".join("%s = %d" % (show(v), env[v]) for v in vs)), False, line)
                break
    return n


def find_modulus(t, base):
    """modulus m of sub-terms (base + k) mod m / reduce_once(base + k, m) in t"""
    out = set()
    for x in subterms(t):
        if x[0] in ("mod", "red") and x[2][0] == "c":
            co, c = X.linear(x[1])
            if co.get(X.show(base)) == 1:
                out.add(x[2][1])
    return out


def r3_increment(L, repo, mods):
    rule = "C19.R3"
    tu = TU(L.repo, "fw", "layer1/sync.c", L=L)
    fname = "l1s_time_inc"
    f = tu.func(fname)
    L.fn(F_SYNC, fname)
    ps = tu.fparams(f)
    if len(ps) != 2:
        raise AnalysisError("%s(): expected (struct gsm_time *, delta)" % fname)
    tp, dl = ps[0].get("name"), ps[1].get("name")
    sym = CSym(tu)
    out = sym.run(f)
    fld = lambda x: V("%s->%s" % (tp, x))
    rng = {fld("fn"): (0, HYPERFRAME - 1), fld("t1"): (0, 2047), fld("t2"): (0, 25), fld("t3"): (0, 50),
           fld("tc"): (0, 7), V(dl): (0, HYPERFRAME)}
    log = []
    final = {x: red_to_mod(sym.final(out, "%s->%s" % (tp, x)), rng, log) for x in ("fn", "t1", "t2", "t3", "tc")}
    line = tu.line(f)
    # constants shared with the Python side
    L.unit(F_GSM)
    gmod = repo.mod("gsm_shared")
    try:
        pyh = Ev(repo, gmod).ev(ast.parse("GSM_HYPERFRAME", mode="eval").body)
        pys = Ev(repo, gmod).ev(ast.parse("GSM_SUPERFRAME", mode="eval").body)
    except (Unknown, Raised) as e:
        raise AnalysisError("gsm_shared.GSM_HYPERFRAME / GSM_SUPERFRAME do not fold: %s" % e)
    L.require(rule, F_GSM, "<module>", "Python GSM_HYPERFRAME equals the firmware's GSM_MAX_FN (2715648)", HYPERFRAME, pyh)
    L.require(rule, F_GSM, "<module>", "Python GSM_SUPERFRAME equals 26 * 51", 1326, pys)
    L.floor(rule, "stores into the time's fields", stores_fit(L, rule, tu, fname, sym, tp, rng, line), 1)

    def shape_moduli():
        seen = []
        for (S, m, iv, ok) in log:
            if (S, m) in seen:
                continue
            seen.append((S, m))
            L.ob(rule, F_SYNC, fname,
                 "ADD_MODULO: `x += d; if (x >= m) x -= m` on %s with m = %s is a full reduction (x + d <= 2m - 1 under the entry invariant)" % (
                     show(S), show(m)), "[0, 2m-1]", ivtxt(iv), ok, line)
        updates = {y for x in ("fn", "t1", "t2", "t3", "tc") for y in subterms(final[x])
                   if y[0] in ("mod", "red") and y[2][0] == "c"}
        L.floor(rule, "modular updates (ADD_MODULO expansions)", len(updates), 5)
        mfn = find_modulus(final["fn"], fld("fn"))
        L.require(rule, F_SYNC, fname, "frame number advances modulo GSM_MAX_FN folded to 2715648 = 2048 * 26 * 51",
                  [HYPERFRAME], sorted(mfn), line=line)
        m2, m3, mc, m1 = (find_modulus(final[x], fld(x)) for x in ("t2", "t3", "tc", "t1"))
        if mods is not None:        # None: the decomposition (R1) could not be analysed -- already recorded, nothing to compare with
            L.require(rule, F_SYNC, fname, "moduli of the incremental update equal those of the decomposition (t2, t3, tc) and 2048 for t1",
                      {"t2": [mods.get("t2")], "t3": [mods.get("t3")], "tc": [mods.get("tc")], "t1": [2048]},
                      {"t2": sorted(m2), "t3": sorted(m3), "tc": sorted(mc), "t1": sorted(m1)}, line=line)
        one = lambda s: list(s)[0] if len(s) == 1 else 0
        L.require(rule, F_SYNC, fname, "t1 modulus * t2 modulus * t3 modulus == GSM_MAX_FN (the carry chain covers the hyperframe exactly)",
                  HYPERFRAME, one(m1) * one(m2) * one(m3), line=line)
        if mods is not None:
            L.require(rule, F_SYNC, fname, "t2 modulus * t3 modulus == superframe length used by the decomposition (T1 = FN div 1326)",
                      mods.get("super"), one(m2) * one(m3), line=line)
        L.require(rule, F_SYNC, fname, "gcd(t2 modulus, t3 modulus) == 1 (so `t2 == 0 and t3 == 0` holds exactly at multiples of 1326)",
                  1, math.gcd(one(m2), one(m3)), line=line)
    # decision tables
    D = V(dl)
    NF = X.mod(X.add(fld("fn"), D), C(HYPERFRAME))
    D1 = X.cmp_("==", D, C(1))
    T2n = X.mod(X.add(fld("t2"), C(1)), C(26))
    T3n = X.mod(X.add(fld("t3"), C(1)), C(51))
    Z2, Z3 = X.cmp_("==", T2n, C(0)), X.cmp_("==", T3n, C(0))
    post = lambda x: ("post", "gsm_fn2gsmtime", x, V(tp), NF)
    want = {
        "fn": ite_(D1, NF, post("fn")),
        "t2": ite_(D1, T2n, post("t2")),
        "t3": ite_(D1, T3n, post("t3")),
        "tc": ite_(D1, ite_(Z3, X.mod(X.add(fld("tc"), C(1)), C(8)), fld("tc")), post("tc")),
        "t1": ite_(D1, ite_(("and", Z3, Z2), X.mod(X.add(fld("t1"), C(1)), C(2048)), fld("t1")), post("t1")),
    }
    names = {NF: "FN'", T2n: "T2'", T3n: "T3'", D: "delta"}
    for x in ("fn", "t1", "t2", "t3", "tc"):
        names[fld(x)] = x
    what = {
        "fn": "fn' = (fn + delta) mod 2715648 on every path",
        "t2": "t2' = (t2 + 1) mod 26 on the unit step",
        "t3": "t3' = (t3 + 1) mod 51 on the unit step",
        "tc": "tc' = (tc + 1) mod 8 exactly when the new t3 is 0 (unit step), unchanged otherwise",
        "t1": "t1' = (t1 + 1) mod 2048 exactly when the new t3 and the new t2 are both 0 (unit step), unchanged otherwise",
    }
    comps = ("fn", "t2", "t3", "tc", "t1")
    key = {x: "l1s_time_inc, decision table of time->%s over {delta == 1, new t3 == 0, new t2 == 0}: %s; "
              "recomputed by gsm_fn2gsmtime when delta != 1" % (x, what[x]) for x in comps}
    tables = {}
    for x in comps:
        try:
            tables[x] = table_compare(final[x], want[x])
        except AnalysisError as e:
            tables[x] = [(("v", "<%s>" % str(e)[:80]), want[x])]
    # recompute path
    effs = []
    for path, callee, args in sym.effects:
        args = tuple(red_to_mod(a, rng, []) for a in args)
        pc = []
        for c, pol in path:
            if c[0] == "not":
                c, pol = c[1], not pol
            pc.append(("" if pol else "not ") + show(red_to_mod(c, rng, []), names))
        pc.sort()
        effs.append({"call": callee, "args": [show(a, names) for a in args], "under": pc})
    effs_want = [{"call": "gsm_fn2gsmtime", "args": [tp, "FN'"], "under": ["not " + show(D1, names)]}]
    ekey = "non-unit delta: the time is recomputed by gsm_fn2gsmtime(time, time->fn) from the advanced frame number, exactly when delta != 1"

    def tables_txt(x):
        return "differs: " + "; ".join("found %s where %s is required" % (show(a, names), show(b, names)) for a, b in tables[x][:4])

    def structural():
        shape_moduli()
        for x in comps:
            L.ob(rule, F_SYNC, fname, key[x], show(want[x], names), show(final[x], names) if not tables[x] else tables_txt(x),
                 not tables[x], line)
        L.require(rule, F_SYNC, fname, ekey, effs_want, effs, line=line)
        L.floor(rule, "recompute calls", len(effs), 1)
    sname = "C19.R3 l1s_time_inc: moduli, decision tables of the carry chain and the recompute call in their recognised shape"
    if L.structural(sname, structural):
        # the carry chain in its recognised shape: closed for every frame number and every delta -- these are the
        # check's obligations
        L.extra.get("structural_proofs", {}).pop(sname, None)
        if not L.extra.get("structural_proofs"):
            L.extra.pop("structural_proofs", None)
        structural()
        return
    L.extra.get("structural_proofs", {}).pop(sname, None)
    # Another shape (an extra branch for the hyperframe wrap, a generalised step, a helper ...) decides nothing by
    # itself.  The property is then decided on the terms themselves: under the entry invariant (the components are the
    # decomposition of fn -- TS 45.002 4.3.3, established for gsm_fn2gsmtime by R1) every component after the call must
    # be the decomposition of (fn + delta) mod 2715648 -- for delta == 1 folded for each of the 2715648 frame numbers
    # (complete), for the other deltas of the property on the frame numbers around every carry point.
    if mods is None:
        raise AnalysisError("%s(): the update is not in the recognised carry-chain shape and the decomposition it would be folded "
                            "against (R1) could not be analysed" % fname)
    bad, stats = fold_increment(final, tp, dl, lambda m: decomposition_leaves(L, tu, f, tp, m))
    if effs == effs_want and all(assume(final[x], D1, False) == post(x) for x in comps):
        stats += "; the delta != 1 arm is gsm_fn2gsmtime(time, FN') itself (closed for every delta)"
    for x in comps:
        if x in bad:
            L.ob(rule, F_SYNC, fname, key[x], show(want[x], names), "e.g. %s -- %s" % (
                bad[x], tables_txt(x) if tables[x] else show(final[x], names)[:200]), False, line)
        elif not bad:
            L.ob(rule, F_SYNC, fname, key[x], show(want[x], names),
                 "%s -- equal to the decomposition of the new frame number %s" % (show(final[x], names)[:240], stats), True, line)
    if not bad:
        L.extra.setdefault("decided_by_enumeration", []).append(
            "l1s_time_inc: every component equals the decomposition of (fn + delta) mod 2715648 %s" % stats)
        L.structural(sname, structural)


def _set_by_decomposition_alone(L, member):
    """the premise of a free member: some function of firmware layer1 other than l1s_time_inc() sets a time object that
    l1s_time_inc() steps (the same lvalue handed to both) with gsm_fn2gsmtime() and does not mention `member`"""
    d = os.path.join(L.repo, os.path.dirname(F_SYNC))
    stepped, sets = set(), []
    for name in sorted(x for x in os.listdir(d) if x.endswith(".c")):
        with open(os.path.join(d, name), errors="replace") as fh:
            src = fh.read()
        if "gsm_fn2gsmtime" not in src and "l1s_time_inc" not in src:      # locating only: the facts come from the AST
            continue
        # cfront's stub include path has no <inttypes.h> (PRIu32 in printf formats): a declarations-only stand-in
        tmp = tempfile.mkdtemp(prefix="c19l1-", dir=os.environ.get("TMPDIR") or "/var/tmp")
        try:
            with open(os.path.join(tmp, "inttypes.h"), "w") as fh:
                fh.write("#include <stdint.h>\n#define PRIu32 \"u\"\n#define PRId32 \"d\"\n#define PRIx32 \"x\"\n"
                         "#define PRIu16 \"u\"\n#define PRIu8 \"u\"\n#define PRIu64 \"llu\"\n")
            t = TU(L.repo, "fw", "layer1/" + name, L=L, extra_flags=("-idirafter", tmp))
        finally:
            shutil.rmtree(tmp, ignore_errors=True)
        for fn, fd in sorted(t.functions.items()):
            if not any(kind(c) == "CompoundStmt" for c in kids(fd)):
                continue
            body = t.body(fd)
            for c in calls_to(body, "l1s_time_inc"):
                if call_args(c):
                    stepped.add(ctext(call_args(c)[0]))
            if fn != "l1s_time_inc" and not any(kind(n) == "MemberExpr" and n.get("name") == member for n in walk(body)):
                sets += [ctext(call_args(c)[0]) for c in calls_to(body, "gsm_fn2gsmtime") if call_args(c)]
    return bool(stepped & set(sets))


def decomposition_leaves(L, tu, f, tp, member):
    """what a member of l1s_time_inc()'s time holds after gsm_fn2gsmtime(time, FN): ("term", t over FN) when the
    decomposition stores it, ("free", lo, hi) -- the ends of its integer type -- when it leaves it alone; None when the
    member is not an integer member of the record or the decomposition cannot be analysed"""
    prm = tu.fparams(f)[0]
    m = re.search(r"struct (\w+)", prm.get("type", {}).get("qualType") or "")
    rng = field_ranges(tu, m.group(1)) if m else {}
    if member not in rng:
        return None
    ut = _utils_tu(L)
    g = ut.func("gsm_fn2gsmtime")
    ps = ut.fparams(g)
    if len(ps) != 2:
        return None
    sym = CSym(ut)
    out = sym.run(g)
    if sym.effects or kept_objects(ut, g):
        return None
    key = "%s->%s" % (ps[0].get("name"), member)
    raw = sym.final(out, key)
    if raw == V(key):
        if not _set_by_decomposition_alone(L, member):
            return None
        return ("free",) + tuple(rng[member])
    if {v for v in subterms(raw) if v[0] == "v"} - {V(ps[1].get("name"))}:
        return None
    return ("term", euclid(prune(renorm(raw, lambda t: V("FN") if t == V(ps[1].get("name")) else None), {V("FN"): (0, HYPERFRAME - 1)})))


def assume(t, atom, val):
    """t with the branch atom fixed to a truth value (conditionals over it resolved)"""
    def cond(c):
        if c == atom:
            return C(int(val))
        if c[0] == "not":
            u = cond(c[1])
            return C(1 - u[1]) if u[0] == "c" else ("not", u)
        if c[0] in ("and", "or"):
            parts = [cond(x) for x in c[1:]]
            absorbing = C(0 if c[0] == "and" else 1)
            if absorbing in parts:
                return absorbing
            parts = [p for p in parts if p[0] != "c"]
            if not parts:
                return C(1 - absorbing[1])
            return parts[0] if len(parts) == 1 else (c[0],) + tuple(parts)
        return c

    def leaf(x):
        if x[0] == "ite":
            c = cond(x[1])
            if c[0] == "c":
                return renorm(x[2] if c[1] else x[3], leaf)
            return ite_(c, renorm(x[2], leaf), renorm(x[3], leaf))
        return None
    return renorm(t, leaf)


STEP_DELTAS = tuple(range(2, 61)) + (1325, 1326, HYPERFRAME - 1)


def step_fns(delta):
    """frame numbers around every carry point of a step by delta: the first superframe, the multiples of 1326 where
    T1 mod 64 / T1 wrap, the end of the hyperframe and the frames from which the step wraps"""
    s = set(range(0, 1326 + 62))
    for k in (64, 2047, 2048):
        s |= set(range(k * 1326 - 62, k * 1326 + 62))
    s |= set(range(HYPERFRAME - delta - 3, HYPERFRAME - delta + 3))
    return sorted(x for x in s if 0 <= x < HYPERFRAME)


def sweep(found, want, n=HYPERFRAME):
    """first x in 0..n-1 on which the two terms over FN differ (one compiled loop), None when there is none"""
    names = {V("FN"): "x"}
    src = "def _f():\n    for x in range(%d):\n        if %s != %s:\n            return x\n    return None\n" % (
        n, term_src(found, names), term_src(want, names))
    g = {"__builtins__": {}, "range": range, "_at": _at, "_red": _red}
    try:
        exec(compile(src, "<sweep>", "exec"), g)
        return g["_f"]()
    except (SyntaxError, RecursionError, MemoryError, ArithmeticError, _Outside, TypeError, ValueError) as e:
        raise AnalysisError("term cannot be folded over 0..%d: %s" % (n - 1, e))


def fold_increment(final, tp, dl, entry_member=None):
    """({component: text of a differing witness}, text of what was folded).  The final value of each component of
    l1s_time_inc as a term over (FN, delta): entry fields replaced by the decomposition of FN, the result of a
    gsm_fn2gsmtime call by the decomposition of its argument.
    A further member of the time the update READS (entry_member(name) -> ("free", lo, hi) / ("term", t over FN) / None):
    the running time is also produced by gsm_fn2gsmtime() alone (the decomposition is how a time is set), so a member the
    decomposition does not write holds whatever was there -- the update is folded with both ends of the member's type
    there and must yield the decomposition of the new frame number for each; a member it writes holds that term."""
    FN, D = V("FN"), V("DELTA")
    dec = dict(spec_decomposition(FN), fn=FN)
    flds = {V("%s->%s" % (tp, x)): dec[x] for x in dec}
    free = {}
    if entry_member is not None:
        pre = "%s->" % tp
        for v in sorted({v for x in final for v in subterms(final[x]) if v[0] == "v" and v[1].startswith(pre) and v not in flds}):
            e = entry_member(v[1][len(pre):])
            if e is not None and e[0] == "term":
                flds[v] = e[1]
            elif e is not None and e[0] == "free":
                free[v] = (e[1], e[2])
    if free:
        bad = {}
        for vals in itertools.product(*[free[v] for v in sorted(free)]):
            asg = dict(zip(sorted(free), vals))
            fixed = {x: renorm(final[x], lambda t: C(asg[t]) if t in asg else None) for x in final}
            b, stats = fold_increment(fixed, tp, dl)
            note = ", ".join("%s = %d" % (v[1], asg[v]) for v in sorted(asg))
            for x in b:
                bad.setdefault(x, "%s on entry (gsm_fn2gsmtime() does not write %s: the member holds any value after a time was "
                                  "set by the decomposition), %s" % (note, ", ".join(v[1] for v in sorted(asg)), b[x]))
        return bad, stats + "; with %s at both ends of %s type on entry (not written by gsm_fn2gsmtime)" % (
            ", ".join(v[1] for v in sorted(free)), "its" if len(free) == 1 else "their")

    def leaf(t):
        if t in flds:
            return flds[t]
        if t == V(dl):
            return D
        if t[0] == "post":
            if t[1] != "gsm_fn2gsmtime" or len(t) != 5 or t[3] != V(tp) or t[2] not in dec:
                raise AnalysisError("l1s_time_inc(): the time is handed to %s(); its effect is outside the vocabulary" % t[1])
            arg = renorm(t[4], leaf)
            return arg if t[2] == "fn" else spec_decomposition(arg)[t[2]]
        return None
    comps = ("fn", "t1", "t2", "t3", "tc")
    terms = {x: renorm(final[x], leaf) for x in comps}
    for x in comps:
        extra = sorted(v[1] for v in set(subterms(terms[x])) if v[0] == "v" and v not in (FN, D))
        if extra or heads(terms[x]) & {"call", "post", "loop"}:
            raise AnalysisError("l1s_time_inc(): time->%s depends on %s besides the time on entry and delta; unclassifiable" % (
                x, extra or "a call"))
    bad = {}

    def at(delta):
        sub = lambda t: C(delta) if t == D else None
        newfn = mod_(X.add(FN, C(delta)), C(HYPERFRAME))
        wdec = dict(spec_decomposition(newfn), fn=newfn)
        return {x: renorm(terms[x], sub) for x in comps}, wdec

    def witness(x, delta, fn, f, w):
        a, b = evalnum_src(f, fn), evalnum_src(w, fn)
        bad.setdefault(x, "fn = %d (T1 = %d, T2 = %d, T3 = %d, TC = %d), delta = %d: time->%s becomes %s, the decomposition of "
                          "the new frame number %d gives %s" % (fn, fn // 1326, fn % 26, fn % 51, (fn // 51) % 8, delta, x, a,
                                                                (fn + delta) % HYPERFRAME, b))
    # boundary witnesses first (cheap; every seeded carry fault dies here)
    k = 0
    for delta in (1,) + STEP_DELTAS:
        f, w = at(delta)
        g = term_fn(("tuple",) + tuple(("tuple", f[x], w[x]) for x in comps), {FN: "x"}, ["x"])
        for fn in step_fns(delta):
            k += 1
            try:
                vals = g(fn)
            except (ArithmeticError, _Outside, TypeError, ValueError) as e:
                raise AnalysisError("l1s_time_inc(): the update cannot be folded for fn = %d, delta = %d: %s" % (fn, delta, e))
            for x, (a, b) in zip(comps, vals):
                if a != b and x not in bad:
                    witness(x, delta, fn, f[x], w[x])
    if bad:
        return bad, ""
    # the unit step: complete
    f, w = at(1)
    first = sweep(("tuple",) + tuple(f[x] for x in comps), ("tuple",) + tuple(w[x] for x in comps))
    if first is not None:
        for x in comps:
            if evalnum_src(f[x], first) != evalnum_src(w[x], first):
                witness(x, 1, first, f[x], w[x])
        return bad, ""
    return bad, ("for delta == 1 and each of the %d frame numbers (complete) and for delta in 2..60, 1325, 1326, 2715647 on "
                 "%d frame numbers around the carry points" % (HYPERFRAME, k))


def evalnum_src(t, fn):
    return term_fn(t, {V("FN"): "x"}, ["x"])(fn)


def _utils_tu(L):
    return TU(L.repo, "libosmo", "src/gsm/gsm_utils.c", L=L)


# ------------------------------------------------------------------------------
# R4 the decomposition is a function of the frame number (no hidden state)

SEQ_POINTS = (0, 1, 25, 26, 50, 51, 100, 1325, 1326, 1327, 2651, 2652, 3977, 3978, 5000, 64 * 1326 - 1, 64 * 1326,
              1023 * 1326 + 700, 2047 * 1326 - 1, 2047 * 1326, HYPERFRAME - 2, HYPERFRAME - 1)


def call_sequences():
    """(what, [frame numbers]) witness call sequences of gsm_fn2gsmtime(): every ordered pair (a, b) of frame numbers around
    the carry points as a, b, a (ascending, descending, within and across superframes, across the hyperframe wrap); the
    steps fn, fn + delta, fn + 2*delta (mod 2715648) of the running GSM time for every delta of the property from start
    frames around the carry points and the wrap (the recompute path of l1s_time_inc calls the function this way); walks
    over consecutive frames up and down across a superframe boundary and across the wrap"""
    for a in SEQ_POINTS:
        for b in SEQ_POINTS:
            if a != b:
                yield "frame numbers going %s" % ("forward, then back" if b > a else "back, then forward again"), [a, b, a]
    for delta in (1,) + STEP_DELTAS:
        starts = {0, 1, 1325, 2651, 64 * 1326 - 1, 2047 * 1326 - 1, HYPERFRAME - 1, (HYPERFRAME - delta - 1) % HYPERFRAME,
                  (HYPERFRAME - delta) % HYPERFRAME, (HYPERFRAME - 2 * delta) % HYPERFRAME, (1326 - delta) % HYPERFRAME}
        for fn in sorted(starts):
            yield "the running time stepped by a delta (wrap from 2715647 to 0 included)", \
                [fn, (fn + delta) % HYPERFRAME, (fn + 2 * delta) % HYPERFRAME]
    up = list(range(1300, 1361))
    yield "consecutive frames across a superframe boundary, upwards", up
    yield "consecutive frames across a superframe boundary, downwards", up[::-1]
    wrap = list(range(HYPERFRAME - 20, HYPERFRAME)) + list(range(0, 21))
    yield "consecutive frames across the hyperframe wrap, upwards", wrap
    yield "consecutive frames across the hyperframe wrap, downwards", wrap[::-1]


def r4_stateless(L, tu):
    """C19.R4 decides a necessary condition of the clauses "decomposition into (T1, T2, T3, TC) and recomposition give back
    the same frame number" and "stepping ... by an arbitrary delta keeps every component equal to the decomposition of the
    new frame number": what gsm_fn2gsmtime(time, FN) stores is the decomposition of FN whatever was decomposed before -- a
    function of its argument, not of the call history.  Decided from the objects, not from the way the code is written:
    (1) the objects of static storage duration the function (or a function of the file it calls) names and somebody
    writes are collected from the AST (block-scope statics, file-level variables); none -> nothing survives a call;
    (2) otherwise the forward-substituted components are inspected: components that read none of these objects do not
    depend on them (a statistics counter); (3) otherwise the function is folded -- the checker's own evaluator over the
    clang AST in C integer semantics (CExec), the kept objects carried from call to call, starting from the static
    initialisers -- on witness call sequences (ascending, descending, across superframe boundaries and the hyperframe wrap,
    the steps of the running time for every delta of the property): a call that stores another value than the
    decomposition of its own argument is a counterexample inside the property's domain (a legal history of calls), reported
    with the pair of calls.  State that the sequences do not refute is not proven harmless: no verdict."""
    rule = "C19.R4"
    fname = "gsm_fn2gsmtime"
    f = tu.func(fname)
    L.fn(F_UTILS, fname)
    ps = tu.fparams(f)
    if len(ps) != 2:
        raise AnalysisError("%s(): expected (struct gsm_time *, fn), found %d parameters" % (fname, len(ps)))
    tname = ps[0].get("name")
    line = tu.line(f)
    kept = kept_objects(tu, f)
    key = "gsm_fn2gsmtime(time, FN) stores the decomposition of FN whatever was decomposed before (no object of static " \
          "storage that somebody writes is read on the way to a stored component)"
    want = "a function of FN alone"
    if not kept:
        L.ob(rule, F_UTILS, fname, key, want, "a function of FN alone (the function names no object that is kept between calls and written)",
             True, line)
        return
    names = ", ".join("`%s`" % k for k in sorted(kept))
    reads, why = None, None
    try:
        sym = CSym(tu)
        out = sym.run(f)
        if sym.effects:
            raise AnalysisError("calls %s()" % sym.effects[0][1])
        reads = {}
        for fld in ("fn", "t1", "t2", "t3", "tc"):
            r = {root_name(x[1]) for x in subterms(sym.final(out, "%s->%s" % (tname, fld))) if x[0] == "v"} & set(kept)
            if r:
                reads[fld] = sorted(r)
    except AnalysisError as e:
        why = str(e)
    if reads is not None and not reads:
        L.ob(rule, F_UTILS, fname, key, want, "a function of FN alone (%s kept between calls, read by no stored component)" % names,
             True, line)
        return
    dep = "time->%s" % ", time->".join("%s reads %s" % (k, ", ".join(v)) for k, v in sorted(reads.items())) if reads else \
        "the function is not forward-substituted (%s)" % why[:100]
    # call sequences, the state carried from call to call
    ex = CExec(tu)
    total, bad, skipped = 0, {}, None
    try:
        for what, seq in call_sequences():
            ex.statics = {}
            prev = None
            for fn in seq:
                obj = {}
                ex.steps = 0
                ex.call(f, [obj, fn])
                total += 1
                want_v = {"fn": fn, "t1": fn // 1326, "t2": fn % 26, "t3": fn % 51, "tc": (fn // 51) % 8}
                diffs = ["time->%s = %d stored, %s = %d" % (k, obj[k], "FN" if k == "fn" else SPEC_TXT[k], want_v[k])
                         for k in ("fn", "t1", "t2", "t3", "tc") if k in obj and obj[k] != want_v[k]]
                if diffs:
                    rec = bad.setdefault(what, [0, None])
                    rec[0] += 1
                    if rec[1] is None:
                        rec[1] = "%s(FN = %d) %s: %s" % (fname, fn, "after %s(FN = %d)" % (fname, prev) if prev is not None
                                                        else "as the first call", "; ".join(diffs))
                prev = fn
    except _NoFold as e:
        skipped = "the function leaves the evaluator's vocabulary: %s" % e
    except _Flow as e:
        skipped = "the function leaves the evaluator's vocabulary: %s" % e.what
    L.extra["decomposition_call_sequences"] = {"state": sorted(kept), "calls_folded": total, "dependence": dep,
                                               "status": "skipped: %s" % skipped if skipped else "complete"}
    if bad:
        for what in sorted(bad):
            k, first = bad[what]
            L.ob(rule, F_UTILS, fname,
                 "gsm_fn2gsmtime() keeps %s between calls: called in a sequence (%s) every call stores the decomposition of its own "
                 "frame number (sequences from the static initialisers folded in C integer semantics, the kept objects carried "
                 "from call to call)" % (names, what),
                 "T1 = FN div 1326, T2 = FN mod 26, T3 = FN mod 51, TC = (FN div 51) mod 8 of each call's own FN",
                 "%s -- %s; %d calls of these sequences differ (%d calls folded in all)" % (first, dep, k, total), False, line)
        return
    raise AnalysisError("%s() keeps %s between calls and %s; %d calls in witness sequences do not refute that every call stores the "
                        "decomposition of its own frame number%s, and no proof of it is attempted; unclassifiable" % (
                            fname, names, dep, total, " (%s)" % skipped if skipped else ""))


def run(L, tier):
    repo = Repo(L.repo)
    # every rule group is a stage: a group that cannot be analysed is deferred (exit 2 unless another group
    # recognises a violation); R2 and the decision tables of R3 do not depend on R1's verdict
    r1 = L.stage(r1_decomposition, L, repo, "C19.R1")
    if r1 is STAGE_FAILED:
        mods, tu = None, L.stage(_utils_tu, L)
    else:
        mods, tu = r1[0], r1[3]
    L.stage(r2_recomposition, L, tu)
    L.stage(r3_increment, L, repo, mods)
    L.stage(r4_stateless, L, tu)
