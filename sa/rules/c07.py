# C07 -- frequency hopping follows 3GPP TS 45.002 6.2.3 in the simulator
# (gsm_shared.HoppingParams) and in the firmware (layer1/rfch.c).
#
# The term machinery (forward substitution, decision-table comparison of
# conditional terms, intervals) lives in rules/c19.py and is shared.

import ast
import copy
import itertools
import json
import os
import re
import shutil
import tempfile

from report import AnalysisError, VERIF
from pyfront import Repo, canon, attr_accesses, qualname, enclosing_func, enclosing_class, set_parents
from pyutil import rel
from consteval import Ev, Unknown, Raised, _FALL
import exprnf as X
from exprnf import C, V
from cfront import (TU, CCFG, kids, kind, strip, walk, ctext, array_extent, calls_to, call_args, type_size,
                    sizeof_operand_type, strip_comments, SKIP)
from rules import c19 as G

EXPLANATION = (
    "The value returned by HoppingParams.resolve (Python ast; operator precedence as parsed) and by rfch_hop_seq_gen "
    "(clang AST; pow_nbin_mask inlined) is forward-substituted into one conditional term each, leaves are renamed to the "
    "symbols of TS 45.002 6.2.3 (FN, T1..T3, HSN, MAIO, N, MA, RNTABLE, 2^NBIN) and the term is compared, as a decision table "
    "over its branch conditions with normal-form leaves, with the specification term MA[(S + MAIO) mod N], "
    "S = M' if M' < N else (M' + T') mod N, M' = (T2 + RNTABLE[(HSN xor T1 mod 64) + T3]) mod 2^NBIN, T' = T3 mod 2^NBIN, "
    "cyclic branch (FN + MAIO) mod N iff HSN == 0. Both RNTABLE copies are compared entry by entry with the reference "
    "transcription (spec/hopping.json); the 2^NBIN mask -- identified by role as what the formula applies with `&` -- is a pure "
    "function of N and is constant-folded for every N of the finite domain 1..64 (Python: the constructor's own statements "
    "through the whitelisted folder, C: the forward-substituted helper term) and compared with (1 << bits(N)) - 1, however "
    "it is written, loops included (the OR-of-shifts reading is recorded as evidence only); a single conditional subtraction "
    "is rewritten to `mod N` with an interval proof operand <= 2N - 1 for every N; any other arrangement of conditional "
    "subtractions (a chain, a chain behind a threshold test with a `%` fall-back, a cascade over the multiples of N -- an inlined "
    "division-free reduction helper) that is a function of one operand sub-term and N is folded for every N in 1..64 and every "
    "integer of the operand's interval enclosure (finite, exhaustive) and rewritten to `mod N` when it equals operand mod N on all "
    "of it; a subtraction with neither proof is kept as written and reported only when the term as written and the term with "
    "`mod N` in its place select different channels on a witness of the formula families (else: open structural proof); "
    "the time decomposition (T1 mod 64, T2, T3) is "
    "compared with TS 45.002 4.3.3 on both sides, the table index is bounded by intervals (HSN range established by the "
    "constructor's guard) and the frequency getters must pass their own frame number to resolve(). All inputs are covered "
    "because formulas, tables and guards are compared, not values. In addition (R7) the simulator object is decided as "
    "constructed: HoppingParams.__init__ followed by resolve() is constant-folded by the whitelisted evaluator for concrete "
    "witnesses (N = 1..5 with every MAIO in 0..63, larger N around the multiples of N; HSN 0, 1, 63; frames covering every value "
    "of S and both sides of M' < N) and the value returned is compared with MA[(S + MAIO) mod N] computed by the checker from "
    "the reference table -- any differing witness is a counterexample inside the property's domain, whatever the constructor does "
    "with its parameters (e.g. a MAIO applied by list slicing that does not wrap for MAIO >= N). Arms that no input of the "
    "domain can take (assertions, defensive raises behind a bound the ranges guarantee) are excluded by interval evaluation of "
    "their conditions; a parameter kept as a private copy is recognised by folding the constructor. Every rule group is a stage: "
    "a group that cannot be analysed is deferred and does not hide a violation recognised by another group. "
    "Reductions that are the identity on the domain box (`hsn & 63` for HSN in 0..63) are dropped by the same interval evaluation, "
    "the division identities a - c*(a div c) == a mod c etc. are part of the normal form, operands of sizeof are not uses of the "
    "table. A normal form that differs from the specification term decides nothing by itself: formula (R3), T1R / index (R4, R5) "
    "are then folded by the checker's own arithmetic on dense witness families inside the domain (every N, every (T2, T3) pair, "
    "every HSN; 445488 witnesses for the formula) -- a differing witness is reported as the violation, agreement is recorded as "
    "an open structural proof (evidence: structural_proofs) and raises no alarm; a time component whose normal form differs is "
    "folded for each of the 2715648 frame numbers (complete). The HSN range check of the constructor, when it is not written as "
    "comparisons with constants, is decided by folding the constructor for candidates on both sides of 0..63. A frequency getter "
    "may return a memo of resolve() only under guards on the HoppingParams object and the frame number, every store to the memo "
    "(read from the source as written) being None or (object, fn, object.resolve(fn)); what is stored as a transceiver's `fh` is "
    "decided by the origin of the value (None / a HoppingParams(...) call, followed through local temporaries -- every plain "
    "assignment of the local -- and conditional expressions; a container, literal or *args is refuted, an origin that cannot be "
    "traced gives no verdict). The firmware's use of the generator is read from "
    "the value rfch_get_params() stores through its ARFCN output parameter (forward substitution, helpers handed the caller's time "
    "substituted): every generator call that reaches it takes rfch_get_params()'s own time and the (hsn, maio, n, ma) of one descriptor; "
    "an argument computed from descriptor fields (the allocation length clamped to the size of the ma[] table) is decided over the "
    "finite domain of the fields it reads (HSN, MAIO in 0..63, N in 1..64) -- by intervals over the domain box, else by folding every "
    "valuation -- and counts as the field it equals there; a value of the domain on which it differs is reported with a frame on "
    "which the generator then selects another channel. R8 (who writes the descriptor): every function of the firmware layer1 files "
    "that stores into a struct l1s_h1 -- found through clang's types, each use classified by its AST context -- installs a complete "
    "descriptor: a whole-struct copy, or hsn, maio, n and at least n entries of ma[] for the n stored (loop bound / copy size compared "
    "as folded terms with the stored n, program order by CFG dominance, differing terms folded over the 8-bit fields they read). "
    "A guard of fn2gsm_time that raises for a frame number of the hyperframe is decided exactly (C19.R1 machinery) and reported "
    "with that frame number; a raise inside an inlined method is hoisted to a guarded raise of the caller. "
    "R9 (what reaches the caller of rfch_get_params()): the function is forward-substituted once more with every integer conversion "
    "clang resolved around the generator's value kept (return type of rfch_hop_seq_gen, locals, operators, the uint16_t output "
    "parameter); the value stored on each path that uses the generator's result is folded for each of the 4096 values a Mobile "
    "Allocation entry holds for a channel (ARFCN 0..1023 with the flags ARFCN_PCS / ARFCN_UPLINK) and must be the entry -- an entry "
    "that is negative as a signed 16-bit result and is then taken for an error code is reported with that entry. "
    "R10 (a resolve() that remembers its last result): the returned term is normalised to the remembered computation only under an "
    "inductive invariant established on the terms (the constructor leaves a key no call can hit; every exit leaves the key compared "
    "and the value computed on a miss; nobody else stores the memo; every input of the remembered computation is part of the key or "
    "stored by the constructor only); independently R7 folds call sequences on one object with the state carried from call to call "
    "whenever resolve() stores attributes, so a stale memo is refuted by a concrete call. The same for the firmware: a "
    "rfch_hop_seq_gen() that keeps objects of static storage between calls (struct objects are forward-substituted member by "
    "member: struct assignment, compound literals, copies of *t) is normalised to the remembered computation under the same "
    "invariant read from the terms -- the static initialiser cannot be hit on the domain box (interval decision), a miss leaves "
    "every compared member equal to what it is compared with and the value computed within the range of the member's integer "
    "type, a hit changes nothing, the hit arm with the computation in the place of the remembered value is the miss arm, nobody "
    "else stores the objects (who-writes scan of the translation unit by AST context; a store of constants that rules a hit out "
    "is an invalidation and admitted), every input of the remembered computation is a compared key component, a table that is "
    "only read, or a component of the same GSM time determined by the compared ones -- and, independently, the forward-substituted "
    "terms (value returned, contents left) are folded for call sequences a, a, b, b, a from the static initialiser for pairs of "
    "calls that differ in one input and select different channels, and for a changed Mobile Allocation under an unchanged key: "
    "a call that returns another channel than MA[MAI] of its own inputs is reported with the pair of calls. What rfch_get_params() "
    "stores through its ARFCN output parameter must not read an object of static storage that some function of rfch.c writes (a "
    "remembered ARFCN or frame number at the observation point): such a value is folded for the same call sequences, the hopping "
    "descriptor changing between the calls, and either refuted with a pair of calls or left without verdict. The hopping / "
    "non-hopping split of rfch_get_params() is folded: with the hopping flag stored next to the descriptor set, a dedicated channel "
    "of each established type and the ARFCN asked for, the conditions on the way to the stored value are evaluated for every value "
    "of the descriptor fields they read (N in 1..64, HSN, MAIO in 0..63) and the arm reached must contain the generator's call; a "
    "descriptor of the domain sent to another arm (N = 1 to the non-hopping branch) is reported with that valuation. "
    "R11 (the starting time): every firmware layer1 function that takes the pending channel description over (reads a pending `st_` "
    "member, writes a live one -- who-reads / who-writes over the member declarations) is evaluated on a byte memory (h0 / h1 share the "
    "bytes of their union; memcpy, struct assignment and member stores move bytes) for the four mode transitions (previous / pending "
    "channel hopping or not), every pending allocation length 1..64 and previous lengths on both sides of it; afterwards the hopping "
    "flag must equal the pending one and the parameters rfch_get_params() reads (hsn, maio, n, ma[0..n-1], or h0.arfcn) the pending "
    "description's -- a copy selected by the previous flag is reported with the transition that leaves a stale allocation. "
    "R12: Transceiver.get_rx_freq / get_tx_freq are folded with a hopping configuration installed for FN = 0, 1, 51, 2715647 and must "
    "return the Rx / Tx element of resolve(FN) -- FN = 0 is a frame number like any other. R13: the TRXC SETFH handler is folded for "
    "N = 1, 2, 32, 33, 63, 64 channels: enable_fh must receive exactly the N commanded (Rx, Tx) pairs in order and the constructor + "
    "resolve() folded on them select channel (FN + MAIO) mod N of the commanded list. R14: every L1CTL handler of firmware layer1 that "
    "writes the live / pending channel description is evaluated on the byte machine on witness messages (hopping N = 1, 2, 64, non-hopping): "
    "flag, hsn, maio, n, ma[0..n-1] / the ARFCN stored must be the host integers whose big-endian octets the message carries.")
ASSUMPTIONS = [
    "spec/hopping.json is a faithful transcription of TS 45.002 table 6.2.3 and of the algorithm of clause 6.2.3",
    "NBIN is the number of bits needed to represent N (TS 45.002 6.2.3), so 2^NBIN - 1 == (1 << N.bit_length()) - 1; the mask is "
    "decided on the property's domain N = 1..64 only (exhaustive fold of a data definition, no frame number or history involved); "
    "`x & (2^NBIN - 1)` is `x mod 2^NBIN`",
    "equality of results for every (HSN, MAIO, N, FN) follows from the equality of the normal forms under the listed rewrites "
    "(commutativity/associativity, x & (2^k - 1) == x mod 2^k, mod absorption also through the arms of a conditional); the "
    "formula rules enumerate nothing; R7 enumerates witnesses only to refute (a pass of R7 alone proves nothing, the pass rests on "
    "R1-R6), with consteval as a faithful evaluator of the Python subset it accepts and a Mobile Allocation of distinct (Rx, Tx) pairs",
    "a clause whose structural proof is open (normal forms differ, all witnesses agree) holds on the witnesses only; the "
    "evidence names it under structural_proofs",
    "firmware: hsn (uint8_t from L1CTL) is assumed to be in 0..63 (the property's domain) and struct gsm_time to satisfy "
    "t1 < 2048, t2 < 26, t3 < 51 (C19.R3 invariant); the list stored as HoppingParams.ma is not mutated after construction",
    "C07.R9: a conversion to a signed integer type keeps the value modulo 2^width (what gcc and clang define); ARFCN_PCS / ARFCN_UPLINK "
    "are bits 15 / 14 of the 16-bit ARFCN encoding (osmocom/gsm/gsm_utils.h) and a channel's entry has bits 10..13 clear; every call of "
    "the generator in rfch_get_params() yields the selected entry converted to the generator's return type (R3, R6)",
    "C07.R10: calls of resolve() on one object do not overlap (the clock thread resolves one frame at a time); comparing the key with == "
    "is comparing its integer components; an exit of resolve() by exception is not followed by a hit for a frame of the domain",
    "C07.R10 (firmware): calls of rfch_hop_seq_gen() do not overlap (every user of rfch_get_params() runs in the L1S / FIQ context); the "
    "struct gsm_time handed to rfch_get_params() is consistent (fn, t1, t2, t3 belong to one frame number -- C19), so a key that compares "
    "fn (or t1, t2 and t3) determines the other components; an object of static storage duration without initialiser is zero before the "
    "first call; the call sequences only refute (the terms are folded with mathematical integers, every stored member converted to its type)",
    "C07.R8: functions called between the stores of one descriptor-writing sequence do not modify the descriptor copied from; struct l1s_h1 "
    "has the natural-alignment layout of its integer members; a hopping descriptor is reached only through expressions whose clang type is "
    "struct l1s_h1 (no type-punned access); the right-hand side of the ma[] element copy is not analysed",    "C07.R11: the records of the channel description have the natural-alignment layout of their integer members (enumerations 4 bytes, "
    "little-endian scalars -- only the relative positions inside `l1s.dedicated` matter); the pending description is complete when the "
    "starting time is reached (C07.R8 for its writers); external functions called on the way (printf) do not touch the description; "
    "the members `st_<x>` of the channel description are the pending counterparts of the members `<x>` (layer1/sync.h)",
    "C07.R14: L1CTL carries 16-bit fields in network byte order (include/l1ctl_proto.h; layer23 writes them with htons) and the target "
    "is little-endian (ntohs is evaluated from the firmware's own byteorder.h / swab.h); the message structs are laid out as the byte "
    "machine lays them out (packed == natural alignment for them); the message member named like the description's hopping flag is the "
    "message's flag, hsn / maio / n / ma[] name the same things on both sides; functions defined outside the translation unit do not "
    "write the channel description",
    "C07.R12 / R13: consteval is a faithful evaluator of the Python subset it accepts; the frequency list of SETFH is ascending (as the "
    "command documents); Transceiver.enable_fh hands its arguments to HoppingParams unchanged (C07.R6 store rule)",
]

F_GSM = rel("gsm_shared")
F_TRX = rel("transceiver")
F_RFCH = "src/target/firmware/layer1/rfch.c"
F_SYNC_H = "src/target/firmware/include/layer1/sync.h"

FN, HSN, MAIO, N, MA, RN, P, PNM = (V("FN"), V("HSN"), V("MAIO"), V("N"), V("MA"), V("RNTABLE"), V("2^NBIN"),
                                     V("<2^NBIN-1>"))
SHIFTS = list(range(7))


def load_spec():
    p = os.path.join(VERIF, "spec", "hopping.json")
    try:
        with open(p) as f:
            s = json.load(f)
    except (OSError, ValueError) as e:
        raise AnalysisError("reference table spec/hopping.json unreadable: %s" % e)
    t = s.get("RNTABLE")
    if not (isinstance(t, list) and len(t) == 114 and all(isinstance(x, int) and 0 <= x <= 127 for x in t)):
        raise AnalysisError("spec/hopping.json: RNTABLE must have 114 entries in 0..127")
    return s


# ------------------------------------------------------------------------------
# specification term

def spec_terms(FNt, T1, T2, T3):
    T1R = X.mod(T1, C(64))
    I = X.add(X.bxor(HSN, T1R), T3)
    M = X.add(T2, ("idx", RN, I))
    Mp = X.mod(M, P)
    Tp = X.mod(T3, P)
    S = G.ite_(X.cmp_("<", Mp, N), Mp, X.mod(X.add(Mp, Tp), N))
    rnd = X.mod(X.add(S, MAIO), N)
    cyc = X.mod(X.add(FNt, MAIO), N)
    mai = G.ite_(X.cmp_("==", HSN, C(0)), cyc, rnd)
    names = {T1R: "T1R", M: "M", Mp: "M'", S: "S", rnd: "MAI", P: "2^NBIN"}
    if T1[0] != "v":
        names.update({T1: "T1", T2: "T2", T3: "T3"})
    return {"T1R": T1R, "I": I, "M": M, "Mp": Mp, "Tp": Tp, "S": S, "mai": mai, "names": names}


def band_pnm(*args):
    """x & (2^NBIN - 1)  ==  x mod 2^NBIN"""
    flat = []
    for a in args:
        flat.extend(a[1:] if a[0] == "&" else [a])
    if PNM in flat:
        rest = [a for a in flat if a != PNM]
        if not rest:
            return PNM
        inner = rest[0] if len(rest) == 1 else X.band(*rest)
        return X.mod(inner, P)
    return X.band(*args)


def mask_shape(t, base):
    """(shift amounts, other operands) of an OR of right shifts of `base`, or None"""
    ops = t[1:] if t[0] == "|" else (t,)
    shifts, extras = set(), []
    for o in ops:
        if o == base:
            shifts.add(0)
        elif o[0] == ">>" and o[1] == base and o[2][0] == "c":
            shifts.add(o[2][1])
        else:
            extras.append(o)
    if not shifts:
        return None
    return shifts, extras


def variables(t):
    return {x for x in G.subterms(t) if x[0] == "v"}


def to_spec_symbols(t, ren):
    """Rename leaves; then every operand of `&` that is a function of the
    allocation size alone (however it is written) is a 2^NBIN mask candidate:
    it is replaced by the mask symbol (its *value* is judged by R2) and
    `x & mask` becomes `x mod 2^NBIN`.  Returns (term, mask terms seen)."""
    t = G.renorm(t, ren)
    masks = []

    def is_mask(o):
        vs = variables(o)
        # a bare HSN / MAIO operand is data that is being masked (`hsn & t1 & 63`), not a mask
        return o != PNM and bool(vs) and vs <= {N, HSN, MAIO} and (o[0] != "v" or o == N) and \
            not any(y[0] == "idx" for y in G.subterms(o))

    def leaf(x):
        if x[0] == "&" and any(is_mask(o) for o in x[1:]):
            ops = []
            for o in x[1:]:
                if is_mask(o):
                    if o not in masks:
                        masks.append(o)
                    ops.append(PNM)
                else:
                    ops.append(o)
            return G.renorm(("&",) + tuple(ops), leaf, band_pnm)
        return None
    return G.renorm(t, leaf, band_pnm), masks


def eval_term(t, env, call=None):
    """value of a closed integer term (constant folding of the normal form);
    None when a leaf is unbound, an operator is outside plain non-negative
    int arithmetic (where C and mathematics agree) or a value leaves it.
    `call(name, [values])` folds an opaque value-only helper."""
    k = t[0]
    if k == "c":
        return t[1]
    if k == "v":
        return env.get(t)
    if k == "ite":
        c = eval_term(t[1], env, call)
        return None if c is None else eval_term(t[2] if c else t[3], env, call)
    a = [eval_term(x, env, call) for x in t[1:] if isinstance(x, tuple)]
    if any(x is None for x in a):
        return None
    v = None
    if k == "call" and call is not None:
        v = call(t[1], a)
    elif k == "+":
        v = sum(a)
    elif k == "*":
        v = 1
        for x in a:
            v *= x
    elif k in ("mod", "div") and a[0] >= 0 and a[1] > 0:
        v = a[0] % a[1] if k == "mod" else a[0] // a[1]
    elif k in ("&", "|", "^") and all(x >= 0 for x in a):
        v = a[0]
        for x in a[1:]:
            v = v & x if k == "&" else v | x if k == "|" else v ^ x
    elif k in ("<<", ">>") and a[0] >= 0 and 0 <= a[1] < 31:
        v = a[0] << a[1] if k == "<<" else a[0] >> a[1]
    elif k == "neg":
        v = -a[0]
    elif k == "red":
        v = a[0] if a[0] < a[1] else a[0] - a[1]
    elif k == "cmp" and t[1] in ("<", "=="):
        v = int(a[0] < a[1]) if t[1] == "<" else int(a[0] == a[1])
    elif k == "not":
        v = int(not a[0])
    elif k in ("and", "or"):
        v = int(all(a)) if k == "and" else int(any(a))
    if v is None or not (-(1 << 31) <= v < (1 << 31)):
        return None
    return v


# the constant folder for value-only C helpers lives in rules/c19.py (shared with C19.R2)
_Flow, CFold = G._Flow, G.CFold


def nbin_mask(n):
    """2^NBIN - 1 with NBIN = number of bits needed to represent N (TS 45.002 6.2.3)"""
    return (1 << n.bit_length()) - 1


DOMAIN_N = range(1, 65)


# operators of the specification term, plus plain integer operators that the checker folds exactly (a term using them
# is either equal to the specification term in normal form or decided on witnesses -- see compare_formula)
# -- and a conditional subtraction that settle_reductions could not turn into `mod N` (folded as written by R3)
ALLOWED = {"c", "v", "+", "mod", "^", "idx", "ite", "cmp", "not", "and", "or", "div", "none", "raise", "*", "&", "|", "<<", ">>", "red"}


def check_vocabulary(t, where):
    bad = sorted(G.heads(t) - ALLOWED)
    for x in G.subterms(t):
        if x[0] == "div" and x[2][0] != "c":
            bad.append("div by non-constant")
        if x[0] == "cmp" and x[1] not in ("<", "=="):
            bad.append("comparison %s" % x[1])
    # the mask symbol may only occur as operand of & (already rewritten to mod 2^NBIN)
    if any(x == PNM for x in G.subterms(t)):
        bad.append("2^NBIN mask used other than as `x & mask`")
    if bad:
        raise AnalysisError("%s: hopping term contains constructs outside the vocabulary of TS 45.002 6.2.3 (%s): %s" % (
            where, ", ".join(sorted(set(bad))), G.show(t)[:200]))


def strip_mod(t, n):
    """a term congruent to t modulo n: reductions `mod n` dropped from t, from the operands of a sum and from both arms of
    a conditional (the conditions themselves are left alone)"""
    if t[0] == "mod" and t[2] == n:
        return strip_mod(t[1], n)
    if t[0] == "+":
        return X.add(*[strip_mod(y, n) for y in t[1:]])
    if t[0] == "ite":
        return G.ite_(t[1], strip_mod(t[2], n), strip_mod(t[3], n))
    return t


def absorb(t):
    """((a mod n) + b) mod n == (a + b) mod n, also when the reduced operand sits in the arms of a conditional:
    ((a mod n if c else b) + m) mod n == ((a if c else b) + m) mod n"""
    def leaf(x):
        if x[0] == "mod":
            n, inner = absorb(x[2]), absorb(x[1])
            s = strip_mod(inner, n)
            if s != inner:
                return X.mod(s, n)
        return None
    return G.renorm(t, leaf, band_pnm)


def structural_pairs(found, want):
    """differing sub-term pairs of the two conditional terms compared as decision tables; [] when they agree on every row"""
    pairs = G.table_compare(found, want, band_pnm)
    if pairs:
        p2 = G.table_compare(absorb(found), absorb(want), band_pnm)
        if not p2:
            pairs = []
    return pairs


TERM_NAMES = {FN: "FN", V("T1"): "T1", V("T2"): "T2", V("T3"): "T3", HSN: "HSN", MAIO: "MAIO", N: "N", P: "P", MA: "MA", RN: "RN"}
TERM_PARAMS = ["FN", "T1", "T2", "T3", "HSN", "MAIO", "N", "P", "MA", "RN"]


def formula_witnesses():
    """(HSN, MAIO, N, FN) inside the property's domain: cyclic hopping with every N and every MAIO around the multiples
    of N and the ends of the hyperframe; pseudo-random hopping with every N and every (T2, T3) pair for three
    (HSN, T1) combinations, and every HSN with T1 below / at / above 64 for small, power-of-two and the largest N"""
    for n in DOMAIN_N:
        for maio in range(64):
            for fn in sorted({0, 1, n - 1, n, n + 1, 1325, 1326, 2 * 1326 + 5, FN_LAST}):
                yield 0, maio, n, fn
    for n in DOMAIN_N:
        for hsn, t1 in ((1, 0), (42, 101), (63, 2047)):
            for k in range(1326):
                yield hsn, (k * 7 + n) % 64, n, t1 * 1326 + k
    for hsn in range(1, 64):
        for n in (1, 2, 3, 7, 8, 64):
            for t1 in (0, 63, 64, 2047):
                for k in range(0, 1326, 13):
                    yield hsn, (k + hsn) % 64, n, t1 * 1326 + k


def fold_formula(term, rntable, limit=5):
    """the term folded (checker-side arithmetic on the normal form, 2^NBIN taken from N as R2 demands of the mask) for every
    witness and compared with MA[MAI] of TS 45.002 6.2.3 computed from the reference table: (witnesses folded,
    [differing witnesses as text])"""
    f = G.term_fn(term, TERM_NAMES, TERM_PARAMS)
    rn = tuple(rntable)
    mas = {n: tuple(1000 + 3 * i for i in range(n)) for n in DOMAIN_N}
    k, bad = 0, []
    for hsn, maio, n, fn in formula_witnesses():
        k += 1
        mai, s, _ = ref_select(rntable, hsn, maio, n, fn)
        ma = mas[n]
        try:
            got = f(fn, fn // 1326, fn % 26, fn % 51, hsn, maio, n, nbin_mask(n) + 1, ma, rn)
        except G._Outside as e:
            got = str(e)
        except (ArithmeticError, TypeError, ValueError) as e:
            raise AnalysisError("hopping term cannot be folded for HSN = %d, MAIO = %d, N = %d, FN = %d: %s" % (hsn, maio, n, fn, e))
        if got != ma[mai]:
            bad.append("HSN = %d, MAIO = %d, N = %d, FN = %d (T1 = %d, T2 = %d, T3 = %d): MA[%d] expected, %s selected" % (
                hsn, maio, n, fn, fn // 1326, fn % 26, fn % 51, mai,
                "MA[%d]" % ma.index(got) if got in ma else repr(got)[:60]))
            if len(bad) >= limit:
                break
    return k, bad


def fold_pair(a, b, rntable):
    """two hopping terms folded on the witnesses of formula_witnesses() and compared with each other: (witnesses folded,
    text of the first witness on which they select different channels, or None).  A fold that leaves a table counts as
    a value of its own (the text of the overrun)."""
    fa, fb = (G.term_fn(t, TERM_NAMES, TERM_PARAMS) for t in (a, b))
    rn = tuple(rntable)
    mas = {n: tuple(1000 + 3 * i for i in range(n)) for n in DOMAIN_N}
    k = 0
    for hsn, maio, n, fn in formula_witnesses():
        k += 1
        args = (fn, fn // 1326, fn % 26, fn % 51, hsn, maio, n, nbin_mask(n) + 1, mas[n], rn)
        got = []
        for f in (fa, fb):
            try:
                got.append(f(*args))
            except G._Outside as e:
                got.append(str(e))
            except (ArithmeticError, TypeError, ValueError) as e:
                raise AnalysisError("hopping term cannot be folded for HSN = %d, MAIO = %d, N = %d, FN = %d: %s" % (hsn, maio, n, fn, e))
        if got[0] != got[1]:
            ma = mas[n]
            txt = ["MA[%d]" % ma.index(g) if g in ma else repr(g)[:60] for g in got]
            return k, "HSN = %d, MAIO = %d, N = %d, FN = %d (T1 = %d, T2 = %d, T3 = %d): %s selected, %s with a reduction modulo N" % (
                hsn, maio, n, fn, fn // 1326, fn % 26, fn % 51, txt[0], txt[1])
    return k, None


def compare_formula(L, file, func, found, want, names, line, lang, rntable):
    """R3.  Structural decision: the two conditional terms agree as decision tables over their branch conditions
    (normal-form leaves) -- this closes the clause for every input.  When the normal forms differ the code may still
    compute the same function in a shape the rewrites do not know: the term is then folded on the witnesses of
    formula_witnesses(); a witness on which another channel is selected is a counterexample inside the property's
    domain (VIOLATION, reported with the differing sub-terms); if every witness agrees the structural comparison is
    recorded as an open structural proof and raises no alarm."""
    why = None
    try:
        pairs = structural_pairs(found, want)
    except AnalysisError as e:
        pairs, why = None, str(e)
    base = "hopping formula: value returned by %s equals the TS 45.002 6.2.3 term %s" % (func, G.show(want, names)[:160])
    if pairs == []:
        L.ob("C07.R3", file, func, base, G.show(want, names), G.show(found, names), True, line)
        return
    try:
        k, bad = fold_formula(found, rntable)
    except AnalysisError as e:
        raise AnalysisError("%s: the hopping term is not in the normal form of the specification term (%s) and %s" % (
            func, why or "; ".join("`%s` where the specification has `%s`" % (G.show(a, names)[:80], G.show(b, names)[:80])
                                   for a, b in pairs[:2]), e))
    if bad:
        for a, b in (pairs or []):
            L.ob("C07.R3", file, func,
                 "hopping formula of %s vs TS 45.002 6.2.3: sub-term `%s` where the specification has `%s`" % (
                     func, G.show(a, names), G.show(b, names)),
                 G.show(b, names), "%s -- e.g. %s" % (G.show(a, names), bad[0]), False, line)
        if not pairs:
            L.ob("C07.R3", file, func, base, G.show(want, names), "%s -- e.g. %s" % (G.show(found, names)[:200], bad[0]), False, line)
        return
    L.ob("C07.R3", file, func, base, G.show(want, names),
         "%s -- selects MA[MAI] of TS 45.002 6.2.3 on all %d witnesses (the normal forms differ: structural proof open)" % (
             G.show(found, names)[:300], k), True, line)

    def open_proof():
        if why:
            raise AnalysisError(why)
        for a, b in pairs:
            L.ob("C07.R3", file, func, "sub-term `%s` where the specification has `%s`" % (G.show(a, names), G.show(b, names)),
                 G.show(b, names), G.show(a, names), False, line)
    L.structural("C07.R3 %s: decision table of the returned term equals that of the TS 45.002 6.2.3 term" % func, open_proof)
    L.extra.setdefault("formula_witnesses", {})[func] = k


# ------------------------------------------------------------------------------
# Python side

class PySide:
    def __init__(self, L, repo):
        self.L, self.repo = L, repo
        self.mod = repo.mod("gsm_shared")
        self.ci = repo.need_class("gsm_shared", "HoppingParams")
        L.unit(F_GSM)
        self.ci, self.init = repo.need_method("gsm_shared", "HoppingParams", "__init__")
        _, self.resolve = repo.need_method("gsm_shared", "HoppingParams", "resolve")
        L.fn(F_GSM, "HoppingParams.__init__")
        L.fn(F_GSM, "HoppingParams.resolve")
        self._init()
        self._resolve()

    def _init(self):
        """constructor: one non-raising path; its stores and its path conditions"""
        fd = self.init
        ps = [a.arg for a in fd.args.args][1:]
        # loops are admitted in the constructor only: what they assign (the mask) is an opaque symbol for the
        # term builder and is decided by folding the constructor for every N (R2)
        sym = G.PySym(self.repo, self.mod, self.ci, loops="havoc")
        out = sym.run(fd)
        falls = [(c, o) for c, o in G.leaves(out) if o[0] in ("fall", "ret")]
        if len(falls) != 1 or falls[0][1][0] != "fall":
            raise AnalysisError("HoppingParams.__init__: expected exactly one path that constructs the object, found %d" % len(falls))
        self.init_conds, (_, self.init_env) = falls[0]
        self.init_params = ps
        if len(ps) != 3:
            raise AnalysisError("HoppingParams.__init__: expected (self, hsn, maio, ma), found %r" % (ps,))
        # roles by constructor position: which attribute keeps which parameter, which one the 2^NBIN mask
        self.attr = {}
        folded = None
        for role, par in zip(("hsn", "maio", "ma"), ps):
            keys = [k for k, v in self.init_env.items() if k.startswith("self.") and v == V(par)]
            if len(keys) != 1:
                # not stored verbatim (e.g. a private copy `list(ma)`): the role is decided by what the constructor
                # stores, folded for two witnesses -- the attribute whose value equals the parameter's value
                if folded is None:
                    folded = self._fold_roles(ps)
                keys = folded.get(par, [])
            if len(keys) != 1:
                raise AnalysisError("HoppingParams.__init__: parameter `%s` (%s) is stored in %d attributes; unclassifiable" % (
                    par, role, len(keys)))
            self.attr[role] = keys[0]
        self.ma_par = V(ps[2])

    ROLE_WITNESSES = ((37, 11, [(5, 6), (1, 2), (3, 4)]),
                      (5, 2, [(90, 91), (70, 71), (80, 81), (20, 21), (10, 11)]))

    def _fold_roles(self, ps):
        """parameter -> attributes that hold exactly the parameter's value (a sequence: the same elements in the same
        order) after the constructor was folded for each witness; {} when the constructor leaves the folder's vocabulary"""
        out = None
        for wit in self.ROLE_WITNESSES:
            ev = Ev(self.repo, self.mod, env={p: (list(w) if isinstance(w, list) else w) for p, w in zip(ps, wit)},
                    self_cls=self.ci)
            try:
                ev.run_block(self.init.body)
            except (Unknown, Raised, TypeError, ValueError, ArithmeticError, LookupError, AttributeError, RecursionError):
                return {}
            one = {}
            for p, w in zip(ps, wit):
                for k, v in ev.env.items():
                    if not (isinstance(k, str) and k.startswith("self.")):
                        continue
                    if isinstance(w, list):
                        same = isinstance(v, (list, tuple)) and list(v) == w
                    else:
                        same = type(v) is type(w) and v == w
                    if same:
                        one.setdefault(p, set()).add(k)
            out = one if out is None else {p: out.get(p, set()) & one.get(p, set()) for p in ps}
        return {p: sorted(v) for p, v in (out or {}).items()}

    def _writers(self):
        # single writer of the hopping attributes over the whole toolkit
        names = [self.attr[r].split(".", 1)[1] for r in ("hsn", "maio", "ma", "pnm") if self.attr.get(r)]
        for m in self.repo.tk_modules():
            self.L.unit(m.rel)
            for attr in names:
                for node, k in attr_accesses(m.tree, attr):
                    if k == "load":
                        continue
                    q = qualname(node)
                    ok = m.name == "gsm_shared" and q == "HoppingParams.__init__" and k in ("store", "aug")
                    self.L.ob("C07.R3", m.rel, q, "writer of hopping parameter `%s` (%s)" % (attr, k),
                              "only HoppingParams.__init__ stores the hopping parameters and the mask",
                              "%s in %s" % (k, q), ok, node.lineno)

    def _other_writers(self, attr):
        """[(file, function, kind)] of every access other than a read to an attribute `attr` of a HoppingParams object in
        the toolkit, outside HoppingParams.__init__ (the trees are the loader's: helpers already inlined).  `self.attr`
        inside a class that neither is nor derives from HoppingParams is another object's attribute; a function that is
        referenced nowhere any more (a helper whose every call was inlined) cannot run."""
        out = []
        for m in self.repo.tk_modules():
            self.L.unit(m.rel)
            for node, k in attr_accesses(m.tree, attr):
                if k == "load":
                    continue
                q = qualname(node)
                if m.name == "gsm_shared" and q == "HoppingParams.__init__":
                    continue
                cd = enclosing_class(node)
                if isinstance(node.value, ast.Name) and node.value.id == "self" and cd is not None:
                    ci = self.repo.cls(m, cd.name)
                    if ci is not None and not any(c.name == "HoppingParams" for c in self.repo.mro(ci)):
                        continue
                out.append((m.rel, q, k, node))
        return out

    def _live(self, node):
        """the code containing `node` can run: it is not inside a plain function whose name is mentioned nowhere in the toolkit
        (special methods and decorated functions are invoked implicitly)"""
        fd = enclosing_func(node)
        if not isinstance(fd, (ast.FunctionDef, ast.AsyncFunctionDef)):
            return True
        if fd.decorator_list or (fd.name.startswith("__") and fd.name.endswith("__")):
            return True
        return self._referenced(fd.name)

    def _referenced(self, fname):
        """the function / method name is mentioned somewhere in the toolkit other than at its definition"""
        for m in self.repo.tk_modules(include_tests=True):
            for n in ast.walk(m.tree):
                if (isinstance(n, ast.Attribute) and n.attr == fname) or (isinstance(n, ast.Name) and n.id == fname):
                    return True
                if isinstance(n, ast.Constant) and n.value == fname:
                    return True                     # getattr(obj, "name")
        return False

    def _unmemo(self, out, raw):
        """A resolve() that remembers its last result.  When the value resolve() returns reads attributes that resolve()
        itself stores (state kept between calls), the returned term is a function of that state and says nothing by
        itself.  It is normalised to the remembered computation only when this is PROVEN for every state the object can
        be in -- an inductive invariant over the calls of resolve(), checked on resolved terms (no shapes of statements):

            returned term   ...(HIT(V) if K == KEY else MISS)...   K, V: slots of the stored attributes (`self.A` or
                                                                      `self.A[i]`), KEY / MISS free of that state
            invariant       K is None, or V == CALC evaluated for the inputs K was built from
            (1) the constructor leaves K = None and KEY is a tuple / the frame number (never equal to None)
            (2) every normal exit of resolve() leaves V' == (V if K == KEY else CALC) and K' == KEY (or K on a hit), read
                from the final environment of the forward substitution, and HIT(CALC) is the term MISS: a hit returns
                the same function of the remembered value as a miss returns of the computed one
            (3) nobody else stores the attributes (who-writes scan over the toolkit)
            (4) the key is complete: every input of CALC is a component of KEY or an attribute / class-level table that
                only the constructor stores (same scan)

        Under (1)-(4) a hit returns HIT(CALC of the current inputs) == MISS, so resolve() returns what it returns with
        MISS in the place of the conditional -- for every call sequence; the formula rules then judge that term.  Each of the four facts is
        recorded as an obligation (C07.R10).  Anything that does not have this form, or where a fact cannot be
        established, is ANALYSIS-ERROR: a stale memo is a matter for the witness sequences of R7 (resolve() folded
        repeatedly on one object), which report a concrete counterexample."""
        self.memo = None
        stored = set()
        for _c, o in G.leaves(out):
            env = o[2] if o[0] == "ret" else o[1] if o[0] == "fall" else {}
            stored |= {k for k, v in env.items() if k.startswith("self.") and v != V(k)}
        state = {x[1] for x in G.subterms(raw) if x[0] == "v" and x[1] in stored}
        if not state:
            return raw
        what = "HoppingParams.resolve() returns a value that depends on %s, which resolve() itself stores" % ", ".join(sorted(state))

        def slot(t):
            return (t[0] == "v" and t[1] in state) or (t[0] == "idx" and t[1][0] == "v" and t[1][1] in state and t[2][0] == "c")

        def has_state(t):
            return any(x[0] == "v" and x[1] in state for x in G.subterms(t))
        def slots_of(t, acc):
            if slot(t):
                if t not in acc:
                    acc.append(t)
                return acc
            for y in t[1:]:
                if isinstance(y, tuple):
                    slots_of(y, acc)
            return acc
        cands = []
        for x in G.subterms(raw):
            if x[0] == "ite" and x[1][0] == "cmp" and x[1][1] == "==" and has_state(x[2]) and not has_state(x[3]):
                ks = [y for y in x[1][2:] if slot(y)]
                key = [y for y in x[1][2:] if not has_state(y)]
                if len(ks) == 1 and len(key) == 1 and (x, ks[0], key[0]) not in cands:
                    cands.append((x, ks[0], key[0]))
        if len(cands) != 1:
            raise AnalysisError("%s, not as one remembered result `.. V .. if K == key else computation`; unclassifiable" % what)
        x, Ks, KEY = cands[0]
        vs = [y for y in slots_of(x[2], []) if y != Ks]
        if len(vs) != 1:
            raise AnalysisError("%s: the arm taken on a hit reads %d remembered values; unclassifiable" % (what, len(vs)))
        Vs = vs[0]

        def project(t, i):
            if t is None:
                return None
            if t[0] == "tuple":
                return t[i + 1] if 0 <= i < len(t) - 1 else None
            if t[0] == "ite":
                a, b = project(t[2], i), project(t[3], i)
                return None if a is None or b is None else G.ite_(t[1], a, b)
            if t[0] == "v":
                return ("idx", t, C(i))
            return None

        def final(o, k):
            if o[0] == "ret":
                return o[2].get(k, V(k))
            if o[0] == "fall":
                return o[1].get(k, V(k))
            if o[0] == "raise":
                return None                 # an exit by exception selects no channel; the next call has its own key
            a, b = final(o[2], k), final(o[3], k)
            return b if a is None else a if b is None else G.ite_(o[1], a, b)

        def of_slot(s, get):
            return get(s[1]) if s[0] == "v" else project(get(s[1][1]), s[2][1])
        line = self.resolve.lineno
        names = {Ks: "K", Vs: "V"}
        txt = lambda t: G.show(t, names)[:200]
        # (1) cold start
        k0 = of_slot(Ks, lambda a: self.init_env.get(a))
        fnp = V(self.fn_param)
        if k0 != V("None") or not (KEY[0] == "tuple" or KEY == fnp):
            raise AnalysisError("%s: the constructor leaves the remembered key `%s` = %s and the key compared is `%s`; a first call "
                                "that cannot hit is not established; unclassifiable" % (
                                    what, G.show(Ks), G.show(k0) if k0 is not None else "?", G.show(KEY)[:80]))
        # (2) preservation: what a miss stores, and the hit arm with it in the place of the remembered value is the miss arm
        v1 = of_slot(Vs, lambda a: final(out, a))
        k1 = of_slot(Ks, lambda a: final(out, a))
        stored_ok = v1 is not None and v1[0] == "ite" and v1[1] == x[1] and v1[2] == Vs and not has_state(v1[3]) and \
            k1 in (KEY, G.ite_(x[1], Ks, KEY))
        if not stored_ok:
            raise AnalysisError("%s: resolve() leaves `%s` = %s and `%s` = %s, not the key compared and a value computed on a miss; "
                                "unclassifiable" % (what, G.show(Ks), txt(k1) if k1 is not None else "?", G.show(Vs),
                                                    txt(v1) if v1 is not None else "?"))
        CALC = v1[3]
        hit = G.renorm(x[2], lambda t: CALC if t == Vs else KEY if t == Ks else None)
        if hit != x[3]:
            raise AnalysisError("%s: on a hit `%s` is returned, on a miss `%s` with `%s` remembered; not the same function of the "
                                "remembered value; unclassifiable" % (what, txt(x[2]), G.show(x[3])[:120], G.show(CALC)[:120]))
        new = G.renorm(raw, lambda t: x[3] if t == x else None)
        if has_state(new):
            raise AnalysisError("%s, also outside the remembered result `%s`; unclassifiable" % (what, G.show(Vs)))
        # (3) no other writer of the state
        attrs = sorted({(s[1] if s[0] == "v" else s[1][1]).split(".", 1)[1] for s in (Ks, Vs)})
        for a in attrs:
            for mrel, q, k, node in self._other_writers(a):
                if mrel == F_GSM and q == "HoppingParams.resolve" and k == "store":
                    continue
                if not self._live(node):
                    continue
                raise AnalysisError("%s; `%s` is also written (%s) in %s (%s); unclassifiable" % (what, a, k, q, mrel))
        # (4) the key covers every input of the remembered computation
        comps = KEY[1:] if KEY[0] == "tuple" else (KEY,)
        hole = V("<key component>")
        rest = sorted(variables(G.renorm(CALC, lambda t: hole if t in comps else None)) - {hole}, key=repr)
        consts = []
        for v in rest:
            a = v[1].split(".", 1)[1] if v[1].startswith("self.") else None
            if a is None or "." in a or not (v[1] in self.init_env or a in self.ci.attrs) or a in attrs:
                raise AnalysisError("%s: the remembered computation reads `%s`, which is neither part of the key `%s` nor an "
                                    "attribute only the constructor stores; unclassifiable" % (what, v[1], G.show(KEY)[:80]))
            w = [(mrel, q, k) for mrel, q, k, node in self._other_writers(a) if self._live(node)]
            if w:
                raise AnalysisError("%s: the remembered computation reads `%s`, which is not part of the key and is written (%s) in "
                                    "%s (%s); unclassifiable" % (what, v[1], w[0][2], w[0][1], w[0][0]))
            consts.append(v[1])
        L = self.L
        func = "HoppingParams.resolve"
        memo = "remembered result of resolve() (`%s` returned when `%s` equals the key)" % (G.show(Vs), G.show(Ks))
        L.ob("C07.R10", F_GSM, "HoppingParams.__init__", "%s: the constructor leaves no key that a call can hit" % memo,
             "%s = None, key a tuple / the frame number" % G.show(Ks), "%s = %s, key %s" % (G.show(Ks), G.show(k0), G.show(KEY)[:120]),
             True, self.init.lineno)
        L.ob("C07.R10", F_GSM, func, "%s: every exit of resolve() leaves the key compared and the value returned" % memo,
             "K' = key, V' = (V if K == key else computation); hit arm with the computation == miss arm",
             "K' = %s, V' = (V if K == key else %s)" % (txt(k1), G.show(CALC)[:160]), True, line)
        L.ob("C07.R10", F_GSM, func, "%s: only the constructor and resolve() store %s" % (memo, ", ".join(attrs)),
             [], [], True, line)
        L.ob("C07.R10", F_GSM, func, "%s: every input of the remembered computation is part of the key or stored by the "
             "constructor only" % memo, "key components / constructor-only attributes",
             "key %s; constructor-only: %s" % (G.show(KEY)[:120], ", ".join(consts) or "none"), True, line)
        L.floor("C07.R10", "facts established for the remembered result of resolve()", 4, 4)
        self.memo = {"key": G.show(KEY)[:200], "key_slot": G.show(Ks), "value_slot": G.show(Vs), "constructor_only_inputs": consts}
        L.extra["resolve_memo"] = self.memo
        return new

    def _resolve(self):
        fd = self.resolve
        ps = [a.arg for a in fd.args.args]
        if len(ps) != 2:
            raise AnalysisError("HoppingParams.resolve: expected (self, fn), found %r" % ps)
        self.fn_param = ps[1]
        sym = G.PySym(self.repo, self.mod, self.ci)
        out = sym.run(fd)
        self.raw = self._unmemo(out, sym.result(out))
        A = self.attr
        ma_par = self.ma_par
        # the mask attribute, by role: an attribute the constructor stores (other than hsn/maio/ma) that
        # resolve() combines with `&` -- however its value is written
        others = {k for k in self.init_env if k.startswith("self.") and k not in (A["hsn"], A["maio"], A["ma"])}
        used = sorted({o[1] for x in G.subterms(self.raw) if x[0] == "&" for o in x[1:] if o[0] == "v" and o[1] in others})
        if len(used) > 1:
            raise AnalysisError("HoppingParams.resolve combines %d constructor attributes with `&` (%s); the 2^NBIN mask is "
                                "unclassifiable" % (len(used), used))
        A["pnm"] = used[0] if used else None
        self.pnm_init = None
        if used:
            # its defining term over N (evidence and dependency check only)
            self.pnm_init = G.renorm(self.init_env[used[0]], lambda t: N if t == ("call", "len", ma_par) else None)
        fnp = V(self.fn_param)
        # the random-number table: the class-level list that resolve() indexes
        tabs = sorted({x[1][1] for x in G.subterms(self.raw) if x[0] == "idx" and x[1][0] == "v" and x[1][1].startswith("self.")
                       and x[1][1].split(".", 1)[1] in self.ci.attrs})
        if len(tabs) != 1:
            raise AnalysisError("HoppingParams.resolve indexes %d class-level tables (%s); RNTABLE is unclassifiable" % (len(tabs), tabs))
        self.table_attr = tabs[0].split(".", 1)[1]

        def ren(t):
            if t == ("call", "len", V(A["ma"])):
                return N
            if A["pnm"] and t == V(A["pnm"]):
                return PNM
            return {V(A["hsn"]): HSN, V(A["maio"]): MAIO, V(A["ma"]): MA, fnp: FN, V(tabs[0]): RN}.get(t)
        self.ren = ren
        self.term, self.inline_masks = to_spec_symbols(self.raw, ren)
        self._writers()
        for m in self.repo.tk_modules():
            for node, k in attr_accesses(m.tree, self.table_attr):
                if k != "load":
                    self.L.ob("C07.R1", m.rel, qualname(node), "writer of the hopping table `%s` (%s)" % (self.table_attr, k),
                              "the table is never written", "%s in %s" % (k, qualname(node)), False, node.lineno)


# ------------------------------------------------------------------------------
# C side

def _record_name(qt):
    """`struct X` (qualifiers dropped) -> X; None for anything that is not a plain struct object type"""
    m = re.fullmatch(r"struct (\w+)", " ".join(w for w in (qt or "").split() if w not in ("const", "volatile")))
    return m.group(1) if m else None


def _node_record(n):
    t = (n or {}).get("type", {})
    return _record_name(t.get("desugaredQualType") or t.get("qualType"))


def _aggregate(n):
    """the expression has a struct / union / array-of-struct object type (not a pointer to one)"""
    t = (n or {}).get("type", {})
    qt = t.get("desugaredQualType") or t.get("qualType") or ""
    return "*" not in qt and "(" not in qt and re.search(r"\b(struct|union)\b", qt) is not None


def record_leaves(tu, rec, seen=()):
    """[(member path, integer type)] of the scalar members of struct `rec`, nested structs expanded in declaration order.
    AnalysisError for members the forward substitution has no scalar reading of (arrays, unions, bit-fields, pointers to
    be compared member by member are fine: a pointer is a scalar)."""
    r = tu.records.get(rec)
    if r is None or rec in seen:
        raise AnalysisError("struct %s is not declared in the translation unit; unclassifiable" % rec)
    if r.get("tagUsed") not in (None, "struct"):
        raise AnalysisError("%s %s is copied / compared member by member; unclassifiable" % (r.get("tagUsed"), rec))
    out = []
    for c in kids(r):
        if kind(c) != "FieldDecl":
            continue
        t = c.get("type", {})
        qt = t.get("desugaredQualType") or t.get("qualType") or ""
        if c.get("isBitfield") or "[" in qt or not c.get("name"):
            raise AnalysisError("struct %s: member `%s` of type `%s` (array, bit-field or anonymous member) has no scalar reading; "
                                "unclassifiable" % (rec, c.get("name"), qt))
        sub = _record_name(qt)
        if sub is not None:
            out += [((c["name"],) + p, ty) for p, ty in record_leaves(tu, sub, seen + (rec,))]
        elif re.search(r"\b(struct|union)\b", qt) and "*" not in qt:
            raise AnalysisError("struct %s: member `%s` of type `%s` has no scalar reading; unclassifiable" % (rec, c["name"], qt))
        else:
            out.append(((c["name"],), t.get("qualType") or qt))
    return out


class _StructCL(G._CL):
    """_CL plus struct objects handled member by member: `a = b`, `a = *p`, `a = (struct S){...}`, `a.m = b.m` for struct
    members, `struct S x = ...` -- every scalar member becomes an entry `a.m.k` of the environment (the text clang's
    canonical printing gives the member access), so that a later `a.m.k` reads what was stored.  A struct-valued
    expression in any other position (argument, return value) is outside the vocabulary."""

    def _lvalue(self, n):
        n = strip(n)
        # `a.m.k = v`: a chain of `.` member accesses down from a variable / from `p->m` of one of the function's own pointers
        cur = n
        while kind(cur) == "MemberExpr" and not cur.get("isArrow") and kind(strip(kids(cur)[0])) == "MemberExpr":
            cur = strip(kids(cur)[0])
        if cur is not n and kind(cur) == "MemberExpr" and kind(strip(kids(cur)[0])) == "DeclRefExpr":
            return ctext(n)
        return G._CL._lvalue(self, n)

    def _base(self, n):
        """(text, separator) such that member path p of the struct lvalue n is the environment key text + sep + '.'.join(p)"""
        n = strip(n)
        k = kind(n)
        if k == "DeclRefExpr":
            return ctext(n), "."
        if k == "MemberExpr":
            self._lvalue(n)
            return ctext(n), "."
        if k == "UnaryOperator" and n.get("opcode") == "*" and kind(strip(kids(n)[0])) == "DeclRefExpr":
            p = ctext(strip(kids(n)[0]))
            if p in self.env:
                raise AnalysisError("forward substitution (C): `*%s` of a re-pointed pointer is outside the vocabulary" % p)
            return p, "->"
        raise AnalysisError("forward substitution (C): struct object `%s` is outside the vocabulary" % ctext(n)[:60])

    def struct_value(self, n, rec):
        """{member path: term} of a struct-valued expression"""
        m = strip(n)
        k = kind(m)
        leaves = record_leaves(self.tu, rec)
        if k == "CompoundLiteralExpr" and kids(m):
            return self.struct_value(kids(m)[0], rec)
        if k == "ImplicitValueInitExpr":
            return {p: C(0) for p, _ in leaves}
        if k == "InitListExpr":
            fields = [c for c in kids(self.tu.records[rec]) if kind(c) == "FieldDecl"]
            items = kids(m)
            if len(items) != len(fields) or m.get("field") is not None:
                raise AnalysisError("forward substitution (C): initialiser `%s` of struct %s is outside the vocabulary" % (ctext(m)[:60], rec))
            out = {}
            for fd, it in zip(fields, items):
                sub = _record_name(fd.get("type", {}).get("desugaredQualType") or fd.get("type", {}).get("qualType"))
                if sub is not None:
                    for p, v in self.struct_value(it, sub).items():
                        out[(fd["name"],) + p] = v
                elif kind(it) == "ImplicitValueInitExpr":
                    out[(fd["name"],)] = C(0)
                else:
                    out[(fd["name"],)] = self.lower(it)
            return out
        if k == "ConditionalOperator":
            c = self.lower(kids(m)[0])
            a, b = self.struct_value(kids(m)[1], rec), self.struct_value(kids(m)[2], rec)
            return {p: G.ite_(c, a[p], b[p]) for p, _ in leaves}
        if k == "BinaryOperator" and m.get("opcode") == "=":
            self.lower(m)
            return self.struct_value(kids(m)[0], rec)
        text, sep = self._base(m)
        return {p: self.env.get(text + sep + ".".join(p), V(text + sep + ".".join(p))) for p, _ in leaves}

    def store_struct(self, lhs, vals):
        text, sep = self._base(lhs)
        for p in sorted(vals):
            key = text + sep + ".".join(p)
            self.env[key] = vals[p]
            self.sym.stores.append((tuple(self.sym.path), key, vals[p]))

    def lower(self, n):
        m = strip(n)
        if _aggregate(m) and kind(m) != "CallExpr":
            rec = _node_record(m)
            if rec is None:
                raise AnalysisError("forward substitution (C): `%s` of type `%s` is outside the vocabulary" % (
                    ctext(m)[:60], m.get("type", {}).get("qualType", "?")))
            if kind(m) == "BinaryOperator" and m.get("opcode") == "=":
                vals = self.struct_value(kids(m)[1], rec)
                self.store_struct(kids(m)[0], vals)
                return V(ctext(kids(m)[0]))
            # the initialiser of a struct variable (block() binds the variable's name; the members are bound here)
            cur, par = n, self.tu.parent.get(id(n))
            while par is not None and kind(par) in SKIP:
                cur, par = par, self.tu.parent.get(id(par))
            if par is not None and kind(par) == "VarDecl":
                name = par.get("name")
                for p, v in sorted(self.struct_value(m, rec).items()):
                    self.env[name + "." + ".".join(p)] = v
                return V(name)
            raise AnalysisError("forward substitution (C): struct value `%s` is used other than in a member-wise copy; outside the "
                                "vocabulary" % ctext(m)[:60])
        return G._CL.lower(self, n)


class _StructSym(G.CSym):
    """CSym with struct objects handled member by member (_StructCL); remembers which functions of the file were substituted"""

    def __init__(self, tu, opaque=()):
        G.CSym.__init__(self, tu, opaque)
        self.substituted = set()

    def lower(self, n, env):
        return G.renorm(_StructCL(self, env).lower(n))

    def call(self, m, lw):
        self.substituted.add(ctext(kids(m)[0]))
        return G.CSym.call(self, m, lw)


class CGen:
    """the firmware's generator forward-substituted as it is written: the returned term and, when the function keeps
    objects of static storage between calls, what it leaves in them (terms over the inputs and the previous contents)"""
    HOP = "rfch_hop_seq_gen"

    def __init__(self, L):
        self.L = L
        self.tu = tu = TU(L.repo, "fw", "layer1/rfch.c", L=L)
        L.unit(F_SYNC_H)
        self.f = f = tu.func(self.HOP)
        L.fn(F_RFCH, self.HOP)
        ps = [p.get("name") for p in tu.fparams(f)]
        if len(ps) != 5:
            raise AnalysisError("%s(): expected (t, hsn, maio, n, arfcn_tbl), found %r" % (self.HOP, ps))
        self.params = ps
        t = ps[0]
        self.sym = sym = _StructSym(tu)
        self.out = sym.run(f)
        self.raw = sym.result(self.out)
        if sym.effects:
            raise AnalysisError("%s(): calls %s(); unclassifiable" % (self.HOP, sym.effects[0][1]))
        self.time = {k: V("%s->%s" % (t, k)) for k in ("fn", "t1", "t2", "t3")}
        self.inputs = set(self.time.values()) | {V(x) for x in ps[1:]}
        self.stored = set()
        for _c, o in G.leaves(self.out):
            env = o[2] if o[0] == "ret" else o[1] if o[0] == "fall" else {}
            self.stored |= {k for k, v in env.items() if v != V(k)}
        self._state()

    @staticmethod
    def root(name):
        return re.split(r"->|\.|\[", name, 1)[0]

    def allowed_functions(self):
        """the generator and the functions of the file substituted into it"""
        return {self.HOP} | {n for n in self.sym.substituted if n in self.tu.functions and
                             any(kind(c) == "CompoundStmt" for c in kids(self.tu.functions[n]))}

    def _static_decl(self, name, what):
        """the declaration of the object of static storage duration `name` the generator keeps between calls"""
        tu = self.tu
        local = [d for fn in sorted(self.allowed_functions()) for d in walk(tu.body(tu.functions[fn]))
                 if kind(d) == "VarDecl" and d.get("name") == name]
        if len(local) > 1 or (local and local[0].get("storageClass") != "static"):
            raise AnalysisError("%s; `%s` is a local variable read before it is assigned; unclassifiable" % (what, name))
        d = local[0] if local else tu.vars.get(name)
        if d is None:
            raise AnalysisError("%s; `%s` is not declared in the translation unit; unclassifiable" % (what, name))
        if d.get("storageClass") != "static":
            raise AnalysisError("%s; `%s` is not static: other translation units may write it; unclassifiable" % (what, name))
        qt = d.get("type", {}).get("qualType", "")
        if "volatile" in qt.split():
            raise AnalysisError("%s; `%s` is volatile; unclassifiable" % (what, name))
        return d

    def _state(self):
        """state: what the returned term reads besides the parameters and file-level arrays the function only reads (tables).
        Per scalar member: its integer type and the constant the object holds before the first call."""
        tu = self.tu
        params = set(self.params)
        written = {self.root(k) for k in self.stored}

        def is_table(name):
            d = tu.vars.get(name)
            return d is not None and name not in params and name not in written and \
                array_extent(d.get("type", {}).get("qualType")) is not None
        reads = sorted({x[1] for x in G.subterms(self.raw) if x[0] == "v" and self.root(x[1]) not in params and not is_table(x[1])})
        self.state, self.state_types, self.state_init, self.state_decls = [], {}, {}, {}
        self.state_error = None
        if not reads:
            return
        what = "%s() returns a value that depends on %s, kept between calls" % (self.HOP, ", ".join(reads[:4]))
        try:
            for r in sorted({self.root(x) for x in reads}):
                d = self._static_decl(r, what)
                self.state_decls[r] = d
                rec = _node_record(d)
                init = [c for c in kids(d) if kind(c) not in ("", None) and not kind(c).endswith("Attr")]
                if rec is not None:
                    leaves = [(r + "." + ".".join(p), ty) for p, ty in record_leaves(tu, rec)]
                    vals = _StructCL(self.sym, {}).struct_value(init[-1], rec) if init else None
                    inits = [(r + "." + ".".join(p), vals[p] if vals is not None else C(0)) for p, _ in record_leaves(tu, rec)]
                elif _aggregate(d) or "[" in d.get("type", {}).get("qualType", ""):
                    raise AnalysisError("%s; `%s` of type `%s` has no scalar reading; unclassifiable" % (
                        what, r, d.get("type", {}).get("qualType", "?")))
                else:
                    leaves = [(r, d.get("type", {}).get("qualType", ""))]
                    v = tu.fold(init[-1]) if init else 0
                    inits = [(r, C(v) if v is not None else None)]
                for (k, ty), (_, v) in zip(leaves, inits):
                    if v is None or v[0] != "c":
                        raise AnalysisError("%s; `%s` is not initialised with a constant; unclassifiable" % (what, k))
                    self.state.append(k)
                    self.state_types[k] = ty
                    self.state_init[k] = v[1]
            odd = [x for x in reads if x not in self.state_types]
            if odd:
                raise AnalysisError("%s; `%s` is not a scalar member of an object of static storage; unclassifiable" % (what, odd[0]))
        except AnalysisError as e:
            self.state_error = str(e)
            self.state = reads

    def final(self, key):
        return self.sym.final(self.out, key)


def _flatten_nested(t):
    """(X if b else Y) if a else Y  ==  X if (a and b) else Y: nested tests of one decision are one condition"""
    def leaf(x):
        if x[0] != "ite":
            return None
        c, a, b = x[1], G.renorm(x[2], leaf), G.renorm(x[3], leaf)
        if a[0] == "ite" and a[3] == b:
            return G.ite_(("and", c, a[1]), a[2], b)
        if a[0] == "ite" and a[2] == b:
            return G.ite_(("and", c, ("not", a[1])), a[3], b)
        if b[0] == "ite" and b[3] == a:
            return G.ite_(("and", ("not", c), b[1]), b[2], a)
        if b[0] == "ite" and b[2] == a:
            return G.ite_(("and", ("not", c), ("not", b[1])), b[3], a)
        return G.ite_(c, a, b)
    return G.renorm(t, leaf)


def _negation(c):
    """the condition `not c` with the negation pushed to the atoms (De Morgan)"""
    if c[0] == "not":
        return c[1]
    if c[0] in ("and", "or"):
        return G.truth(({"and": "or", "or": "and"}[c[0]],) + tuple(_negation(x) for x in c[1:]))
    return ("not", c)


class CSide(CGen):
    def __init__(self, L, gen):
        self.__dict__.update(gen.__dict__)
        self.L = L
        tu, f, sym, ps = self.tu, self.f, self.sym, self.params
        t, hsn, maio, n, tbl = ps
        self.raw = self._unmemo()
        self.fold = CFold(tu, sym)
        tabs = sorted({x[1][1] for x in G.subterms(self.raw) if x[0] == "idx" and x[1][0] == "v" and x[1][1] in tu.vars
                       and x[1][1] not in ps and array_extent(tu.vars[x[1][1]].get("type", {}).get("qualType")) is not None})
        if len(tabs) != 1:
            raise AnalysisError("%s() indexes %d file-level arrays (%s); the RNTABLE copy is unclassifiable" % (self.HOP, len(tabs), tabs))
        self.table_name = tabs[0]
        self.table = V(tabs[0])
        m = {V("%s->fn" % t): FN, V("%s->t1" % t): V("T1"), V("%s->t2" % t): V("T2"), V("%s->t3" % t): V("T3"),
             V(hsn): HSN, V(maio): MAIO, V(n): N, V(tbl): MA, self.table: RN}
        self.ren = lambda x: m.get(x)
        self.term, self.masks = to_spec_symbols(self.raw, self.ren)
        # the helper computing the mask (for reporting): the one value-only callee of the generator, if any
        callees = [name for name, fd in tu.functions.items() if name != self.HOP and
                   any(kind(c) == "CompoundStmt" for c in kids(fd)) and calls_to(tu.body(f), name)]
        if len(callees) > 1:
            callees = [c for c in callees if sym.value_only(tu.functions[c])]
        self.mask_fn = callees[0] if len(callees) == 1 else self.HOP
        L.fn(F_RFCH, self.mask_fn)

    C_BOX = {"fn": (0, G.HYPERFRAME - 1), "t1": (0, 2047), "t2": (0, 25), "t3": (0, 50)}

    def _box(self):
        t, hsn, maio, n, tbl = self.params
        box = {self.time[k]: iv for k, iv in self.C_BOX.items()}
        box.update({V(hsn): (0, 63), V(maio): (0, 63), V(n): (1, 64)})
        return box

    def _writers(self, what):
        """who-writes scan of the objects kept between calls: every reference in the translation unit, classified by its AST
        context.  Outside the generator and the functions substituted into it only reads are admitted; inside, reads and
        the stores the forward substitution modelled (anything else -- an address taken, the object handed to a function --
        is unclassifiable).  A substituted function that stores must not be callable from anywhere else."""
        tu = self.tu
        allowed = self.allowed_functions()
        ids = {d.get("id"): r for r, d in self.state_decls.items()}
        storing, outside = set(), []
        for fname, fd in sorted(tu.functions.items()):
            if not any(kind(c) == "CompoundStmt" for c in kids(fd)):
                continue
            for x in walk(tu.body(fd)):
                if kind(x) != "DeclRefExpr" or x.get("referencedDecl", {}).get("id") not in ids:
                    continue
                name = ids[x["referencedDecl"]["id"]]
                cur, par = x, tu.parent.get(id(x))
                unevaluated = False
                q = par
                while q is not None and kind(q) != "FunctionDecl":
                    if kind(q) == "UnaryExprOrTypeTraitExpr":
                        unevaluated = True
                    q = tu.parent.get(id(q))
                if unevaluated:
                    continue
                while par is not None and (kind(par) == "ParenExpr" or (kind(par) == "MemberExpr" and not par.get("isArrow"))):
                    cur, par = par, tu.parent.get(id(par))
                k = kind(par)
                if k == "ImplicitCastExpr" and par.get("castKind") == "LValueToRValue":
                    continue                                        # a read
                store = (k == "BinaryOperator" and par.get("opcode") == "=" and kids(par)[0] is cur) or \
                    (k == "CompoundAssignOperator" and kids(par)[0] is cur) or \
                    (k == "UnaryOperator" and par.get("opcode") in ("++", "--"))
                if store and fname in allowed:
                    storing.add(fname)
                    continue
                if store and k == "BinaryOperator":
                    outside.append((fname, cur, kids(par)[1]))      # judged by the caller: admitted when it cannot create a hit
                    continue
                if store:
                    raise AnalysisError("%s; `%s` is also written in %s(); unclassifiable" % (what, name, fname))
                raise AnalysisError("%s; `%s` is used as operand of %s%s in %s() (address taken / handed on); unclassifiable" % (
                    what, name, k, " " + par.get("opcode") if par is not None and par.get("opcode") else "", fname))
        for w in sorted(storing - {self.HOP}):
            wd = tu.functions[w]
            if wd.get("storageClass") != "static":
                raise AnalysisError("%s; %s(), which stores it, is not static and may be called from elsewhere; unclassifiable" % (what, w))
            for fname, fd in sorted(tu.functions.items()):
                if not any(kind(c) == "CompoundStmt" for c in kids(fd)):
                    continue
                for x in walk(tu.body(fd)):
                    if kind(x) == "DeclRefExpr" and x.get("referencedDecl", {}).get("name") == w and \
                            x.get("referencedDecl", {}).get("kind") == "FunctionDecl" and fname not in allowed:
                        raise AnalysisError("%s; %s(), which stores it, is also used in %s(); unclassifiable" % (what, w, fname))
        return sorted(storing), outside

    def _unmemo(self):
        """A generator that remembers its last result in objects of static storage duration (the counterpart of
        PySide._unmemo).  The returned term is then a function of that state and says nothing by itself.  It is normalised
        to the remembered computation only when this is PROVEN for every state the objects can be in -- an inductive
        invariant over the calls of the generator, checked on the forward-substituted terms, not on statement shapes:

            returned term   HIT(V..) if H else MISS          H: conjunction of `K_i == KEY_i` (K_i a member of the state, KEY_i
                                                             free of it), tests of one member against constants (`valid`) and
                                                             conditions on the inputs alone;  MISS free of the state
            invariant       H cannot hold, or V_j == CALC_j evaluated for the inputs the K_i were stored from
            (1) cold start: with the static initialiser (zero without one) H is false for every input of the domain box
            (2) preservation, read from the final environment of the forward substitution: when H holds nothing the
                invariant speaks of is changed; when it does not, every K_i is left equal to KEY_i and every V_j to a term CALC_j
                free of the state, each within the range of the member's integer type on the domain box (no truncation);
                HIT with CALC_j / KEY_i in the place of V_j / K_i is the term MISS
            (3) nobody else stores the objects: static storage, who-writes scan of the translation unit by AST context
            (4) the key is complete: every input CALC_j reads is a KEY_i, a table the file only reads, or a component of the
                GSM time that the compared components determine (FN <-> T1, T2, T3: one frame number, C19)

        Under (1)-(4) a hit returns HIT(CALC of the current inputs) == MISS for every call sequence; the formula rules then
        judge MISS.  Each fact is an obligation (C07.R10).  Anything that does not have this form, or where a fact cannot be
        established, is ANALYSIS-ERROR: a stale memo is a matter for the call sequences of r10_c_sequences, which fold the
        function with the state carried from call to call and report a concrete pair of calls."""
        self.memo = None
        raw = self.raw
        if not self.state:
            return raw
        if self.state_error:
            raise AnalysisError(self.state_error)
        S = {V(k) for k in self.state}
        what = "%s() returns a value that depends on %s, kept between calls" % (
            self.HOP, ", ".join(sorted(x[1] for x in variables(raw) if x in S)[:4]))

        def has_state(t):
            return any(x in S for x in G.subterms(t))
        raw = _flatten_nested(raw)
        finals = {k: _flatten_nested(self.final(k)) for k in self.state if k in self.stored}
        conds = []
        for term in [raw] + [finals[k] for k in sorted(finals)]:
            for x in G.subterms(term):
                if x[0] == "ite" and has_state(x[1]) and x[1] not in conds:
                    conds.append(x[1])
        if len(conds) != 1:
            raise AnalysisError("%s, not as one remembered result `.. V .. if K == key else computation` (%d conditions on the "
                                "state); unclassifiable" % (what, len(conds)))
        cond = conds[0]
        pol = cond[0] != "or"                          # `if (!valid || K != key) compute` is the same decision, negated
        H = cond if pol else _negation(cond)
        atoms = list(H[1:]) if H[0] == "and" else [H]
        keys, flags, guards = [], [], []
        for a in atoms:
            if not has_state(a):
                guards.append(a)
                continue
            vs = [x for x in variables(a) if x in S]
            if a[0] == "cmp" and a[1] == "==" and len(vs) == 1 and vs[0] in a[2:] and \
                    not has_state([y for y in a[2:] if y != vs[0]][0]) and [y for y in a[2:] if y != vs[0]][0][0] != "c":
                keys.append((vs[0], [y for y in a[2:] if y != vs[0]][0]))
            elif len(vs) == 1 and variables(a) == {vs[0]}:
                flags.append((vs[0], a))
            else:
                raise AnalysisError("%s: the remembered result is used under `%s`, which is not a comparison of one remembered "
                                    "value with the inputs; unclassifiable" % (what, G.show(a)[:100]))
        HIT, MISS = G.assume(raw, cond, pol), G.assume(raw, cond, not pol)
        if has_state(MISS):
            raise AnalysisError("%s, also when `%s` does not hold; unclassifiable" % (what, G.show(H)[:120]))
        Ks = [k for k, _ in keys]
        if len(set(Ks)) != len(Ks):
            raise AnalysisError("%s: `%s` is compared twice; unclassifiable" % (what, sorted(k[1] for k in Ks if Ks.count(k) > 1)[0]))
        Vs = sorted((x for x in variables(HIT) if x in S), key=repr)
        if not Vs or any(v in Ks or v in [f for f, _ in flags] for v in Vs):
            raise AnalysisError("%s: on a hit `%s` is returned; not a function of remembered values only; unclassifiable" % (
                what, G.show(HIT)[:120]))
        box = self._box()
        line = self.tu.line(self.f)
        # (1) cold start
        init = {V(k): C(v) for k, v in self.state_init.items()}
        cold = G.decide_cond(G.renorm(H, lambda x: init.get(x)), box)
        if cold is not False:
            raise AnalysisError("%s: with the initial contents (%s) the test `%s` is not false for every input of the domain; a "
                                "first call that cannot hit is not established; unclassifiable" % (
                                    what, ", ".join("%s = %d" % (k[1], init[k][1]) for k in sorted(set(Ks) | {f for f, _ in flags})[:8]),
                                    G.show(H)[:160]))
        # (2) preservation
        def fits(k, term):
            ty = _c_int_type(self.state_types[k[1]])
            if ty is None:
                raise AnalysisError("%s: `%s` of type `%s` is not an integer of known width; unclassifiable" % (
                    what, k[1], self.state_types[k[1]]))
            lo, hi = (-(1 << (ty[0] - 1)), (1 << (ty[0] - 1)) - 1) if ty[1] else (0, (1 << ty[0]) - 1)
            iv = G.interval(term, box)
            if not (iv[0] >= lo and iv[1] <= hi):
                raise AnalysisError("%s: `%s` (%s) is stored from `%s`, which is in %s on the domain and may be truncated; "
                                    "unclassifiable" % (what, k[1], self.state_types[k[1]], G.show(term)[:80], G.ivtxt(iv)))
        calc = {}
        for k in list(Ks) + Vs + [f for f, _ in flags]:
            fin = finals.get(k[1], k)
            on_hit, on_miss = G.assume(fin, cond, pol), G.assume(fin, cond, not pol)
            key_of = dict(keys).get(k)
            if on_hit != k and not (key_of is not None and on_hit == key_of):
                raise AnalysisError("%s: a hit leaves `%s` = %s; unclassifiable" % (what, k[1], G.show(on_hit)[:100]))
            if k in Ks:
                if on_miss != key_of:
                    raise AnalysisError("%s: `%s` is compared with `%s` but a miss leaves it = %s; the key is not the one compared; "
                                        "unclassifiable" % (what, k[1], G.show(key_of)[:60], G.show(on_miss)[:100]))
                fits(k, key_of)
            elif k in Vs:
                if has_state(on_miss) or k[1] not in finals:
                    raise AnalysisError("%s: a miss leaves `%s` = %s, not a value computed from the inputs; unclassifiable" % (
                        what, k[1], G.show(on_miss)[:100]))
                fits(k, on_miss)
                calc[k] = on_miss
            elif has_state(on_miss) and on_miss != k:
                raise AnalysisError("%s: a miss leaves `%s` = %s; unclassifiable" % (what, k[1], G.show(on_miss)[:100]))
        sub = dict(keys)
        sub.update(calc)
        hit = G.renorm(HIT, lambda x: sub.get(x))
        if hit != MISS:
            raise AnalysisError("%s: on a hit `%s` is returned, on a miss `%s` with `%s` remembered; not the same function of the "
                                "remembered value; unclassifiable" % (what, G.show(HIT)[:120], G.show(MISS)[:120],
                                                                       "; ".join(G.show(c)[:80] for c in calc.values())))
        # (3) who writes
        storing, outside = self._writers(what)
        resets = []
        for fname, lhs, rhs in outside:
            # a store from elsewhere (an invalidation when the channel is reconfigured ...) keeps the invariant when it stores
            # constants with which the test cannot hold, whatever the other members contain
            rec = _node_record(strip(lhs))
            try:
                if rec is not None:
                    vals = {ctext(lhs) + "." + ".".join(pth): v
                            for pth, v in _StructCL(self.sym, {}).struct_value(rhs, rec).items()}
                else:
                    v = self.tu.fold(rhs)
                    vals = {ctext(lhs): C(v) if v is not None else None}
            except AnalysisError:
                vals = {ctext(lhs): None}
            if any(v is None or v[0] != "c" or V(k) not in S for k, v in vals.items()) or \
                    G.decide_cond(G.renorm(H, lambda x: vals.get(x[1]) if x[0] == "v" else None), box) is not False:
                raise AnalysisError("%s; `%s` is also written in %s() (`%s = %s`), which is not a store of constants that rules a hit "
                                    "out; unclassifiable" % (what, ctext(lhs)[:40], fname, ctext(lhs)[:40], ctext(rhs)[:40]))
            resets.append("%s(): %s = %s" % (fname, ctext(lhs)[:40], ctext(rhs)[:40]))
        # (4) completeness of the key
        comps = [kt for _, kt in keys]
        hole = V("<key component>")
        time = self.time
        rest = set()
        for k, c in calc.items():
            for x in G.subterms(c):
                if x[0] == "idx" and not (x[1][0] == "v" and x[1][1] in self.tu.vars and x[1] not in self.inputs):
                    raise AnalysisError("%s: the remembered computation `%s` reads the contents of `%s`, which a key cannot "
                                        "cover; unclassifiable" % (what, G.show(c)[:80], G.show(x[1])[:40]))
            rest |= {v for v in variables(G.renorm(c, lambda x: hole if x in comps else None)) if v != hole and v in self.inputs}
        determined = []
        have = {n for n, v in time.items() if v in comps}
        if "fn" in have or {"t1", "t2", "t3"} <= have:
            determined = sorted((v for v in rest if v in time.values()), key=repr)
            rest -= set(determined)
        if rest:
            raise AnalysisError("%s: the remembered computation reads %s, which %s not part of the key `%s`; unclassifiable "
                                "(the call sequences of C07.R10 decide whether a stale result is observable)" % (
                                    what, ", ".join("`%s`" % v[1] for v in sorted(rest, key=repr)), "is" if len(rest) == 1 else "are",
                                    ", ".join(G.show(c)[:30] for c in comps)))
        L = self.L
        memo = "remembered result of %s() (`%s` used when `%s`)" % (self.HOP, ", ".join(v[1] for v in Vs), G.show(H)[:200])
        L.ob("C07.R10", F_RFCH, self.HOP, "%s: the initial contents cannot be hit" % memo,
             "the test is false for every input of the domain", "false with %s" % ", ".join(
                 "%s = %d" % (k[1], init[k][1]) for k in sorted(set(Ks) | {f for f, _ in flags})), True, line)
        L.ob("C07.R10", F_RFCH, self.HOP, "%s: a miss leaves every compared member equal to what it is compared with and the value "
             "computed, without truncation; a hit changes nothing" % memo,
             "K' = key, V' = computation; hit arm with the computation == miss arm",
             "%s; %s" % (", ".join("%s' = %s" % (k[1], G.show(kt)[:40]) for k, kt in keys),
                         ", ".join("%s' = %s" % (k[1], G.show(c)[:120]) for k, c in sorted(calc.items()))), True, line)
        L.ob("C07.R10", F_RFCH, self.HOP, "%s: only the generator (and the helpers substituted into it) store %s, any other "
             "function only constants with which the test cannot hold" % (memo, ", ".join(sorted(self.state_decls))),
             [], sorted(set(resets)), True, line)
        L.ob("C07.R10", F_RFCH, self.HOP, "%s: every input of the remembered computation is part of the key" % memo,
             "key components / tables that are only read",
             "key %s%s" % (", ".join(G.show(c)[:30] for c in comps),
                           "; %s determined by the compared components of the same GSM time (one frame number)" % ", ".join(
                               v[1] for v in determined) if determined else ""), True, line)
        L.floor("C07.R10", "facts established for the remembered result of %s()" % self.HOP, 4, 4)
        self.memo = {"key": [G.show(c)[:60] for c in comps], "value": [v[1] for v in Vs], "flags": [G.show(a)[:60] for _, a in flags],
                     "stored_by": storing, "determined_by_the_frame_number": [v[1] for v in determined]}
        L.extra["generator_memo"] = self.memo
        return MISS


# ------------------------------------------------------------------------------
# rules

def _table_vs_reference(L, side, file, func, tab, line, n_decl, ref):
    L.require("C07.R1", file, func, "%s has the 114 entries of TS 45.002 table 6.2.3" % side,
              {"declared": 114, "initialised": 114}, {"declared": n_decl, "initialised": len(tab)}, line=line)
    for i in range(114):
        got = tab[i] if i < len(tab) else None
        L.require("C07.R1", file, func, "%s[%d] equals entry %d of TS 45.002 table 6.2.3" % (side, i, i), ref[i], got, line=line)
    L.floor("C07.R1", "%s entries" % side, len(tab), 114)


def r1_py_table(L, repo, py, spec):
    """R1, simulator: HoppingParams.RNTABLE is table 6.2.3; returns the folded table"""
    node = py.ci.attrs.get(py.table_attr)
    if node is None:
        raise AnalysisError("HoppingParams.%s vanished" % py.table_attr)
    try:
        ptab = Ev(repo, py.mod, self_cls=py.ci).ev(node)
    except (Unknown, Raised) as e:
        raise AnalysisError("HoppingParams.RNTABLE is not a literal table: %s" % e)
    if not isinstance(ptab, (list, tuple)) or not all(isinstance(x, int) and not isinstance(x, bool) for x in ptab):
        raise AnalysisError("HoppingParams.RNTABLE is not a list of integers")
    ptab = list(ptab)
    _table_vs_reference(L, "Python HoppingParams.RNTABLE", F_GSM, "HoppingParams", ptab, node.lineno, len(ptab), spec["RNTABLE"])
    return ptab


def r1_c_table(L, cs, spec):
    """R1, firmware: rn_table is table 6.2.3 and is only read; returns (initialiser, declared extent)"""
    tu = cs.tu
    v = tu.var(cs.table_name)
    ext = array_extent(v.get("type", {}).get("qualType"))
    init = tu.init_value(kids(v)[-1]) if kids(v) else None
    if not isinstance(init, list) or not all(isinstance(x, int) for x in init):
        raise AnalysisError("rn_table initialiser is not a list of integer constants")
    _table_vs_reference(L, "C rn_table", F_RFCH, "rn_table", init, tu.line(v), ext, spec["RNTABLE"])
    # C: the table is only read
    vid = v.get("id")
    uses = 0
    for name, fd in tu.functions.items():
        for x in walk(fd):
            if kind(x) == "DeclRefExpr" and x.get("referencedDecl", {}).get("id") == vid:
                # an operand of sizeof is not evaluated (ARRAY_SIZE(rn_table)): it neither reads nor writes the table
                cur, unevaluated = x, False
                while cur is not None and kind(cur) != "FunctionDecl":
                    cur = tu.parent.get(id(cur))
                    if cur is not None and kind(cur) == "UnaryExprOrTypeTraitExpr":
                        unevaluated = True
                        break
                if unevaluated:
                    continue
                uses += 1
                chain = []
                cur = x
                for _ in range(3):
                    cur = tu.parent.get(id(cur))
                    chain.append((kind(cur), cur.get("castKind")) if cur else None)
                ok = chain[0] == ("ImplicitCastExpr", "ArrayToPointerDecay") and chain[1] == ("ArraySubscriptExpr", None) \
                    and chain[2] == ("ImplicitCastExpr", "LValueToRValue")
                L.ob("C07.R1", F_RFCH, name, "rn_table is only read (indexed rvalue), never written or passed on",
                     "rn_table[i] as rvalue", [c[0] if c else None for c in chain], ok, tu.line(x))
    L.floor("C07.R1", "uses of rn_table", uses, 1)
    return init, ext


def r1_same_table(L, py, ptab, ctab):
    node = py.ci.attrs.get(py.table_attr)
    L.require("C07.R1", F_GSM, "HoppingParams", "Python and C tables are identical", ctab[0], ptab,
              line=node.lineno if node is not None else None)


def mask_verdict(L, file, func, what, values, line, evidence):
    """one obligation: the folded mask equals 2^NBIN - 1 for every N of the domain"""
    bad = [(n, nbin_mask(n), v) for n, v in values if v != nbin_mask(n)]
    found = "equal for all %d values of N" % len(values) if not bad else "differs for %d of %d values of N: %s" % (
        len(bad), len(values), ", ".join("N = %d (expected %d, found %d)" % b for b in bad[:6]) + (" ..." if len(bad) > 6 else ""))
    if evidence:
        found += " [%s]" % evidence
    L.ob("C07.R2", file, func, "2^NBIN mask (%s) equals 2^NBIN - 1 = (1 << bits(N)) - 1 for every N in 1..64" % what,
         "equal for all 64 values of N", found, not bad and len(values) == 64, line)
    L.floor("C07.R2", "mask values folded for %s" % func, len(values), 64)


def structure(t):
    """evidence only: the OR-of-shifts reading of a mask term, when it has that shape"""
    sh = mask_shape(t, N) if t is not None else None
    if sh is None or t[0] != "|":
        return "written as %s" % G.show(t)[:120] if t is not None else ""
    return "OR of N >> k for k in %s%s" % (sorted(sh[0]), "" if not sh[1] else " and other operands %s" % [G.show(x) for x in sh[1]])


def _fold_masks(L, file, func, masks, line, what, call=None, reset=None):
    """every mask term (a function of N) folded for each N of the domain; returns the number of masks"""
    for mterm in masks:
        deps = sorted(x[1] for x in variables(mterm) if x != N)
        L.ob("C07.R2", file, func, "the mask (%s) is a function of N only" % what, [], deps, not deps, line)
        vals = []
        for n in DOMAIN_N:
            if reset is not None:
                reset()
            v = eval_term(mterm, {N: n, HSN: 1, MAIO: 0}, call)
            if v is None:
                raise AnalysisError("%s: the 2^NBIN mask `%s` cannot be folded for N = %d; unclassifiable" % (
                    func, G.show(mterm)[:120], n))
            vals.append((n, v))
        mask_verdict(L, file, func, what, vals, line, structure(mterm))
    return len(masks)


def r2_py_mask(L, repo, py):
    """R2, simulator: the mask attribute is folded through the constructor itself for every N of the domain"""
    nmasks = 0
    if py.attr.get("pnm"):
        nmasks += 1
        hp, mp_, ap = py.init_params
        vals = []
        for n in DOMAIN_N:
            ev = Ev(repo, py.mod, env={hp: 1, mp_: 0, ap: [(0, 0)] * n}, self_cls=py.ci)
            try:
                r = ev.run_block(py.init.body)
            except Raised as e:
                raise AnalysisError("HoppingParams.__init__ raises %s for a mobile allocation of %d channels; the mask cannot be folded" % (
                    e.cls, n))
            except Unknown as e:
                raise AnalysisError("HoppingParams.__init__ cannot be folded for N = %d (%s); the 2^NBIN mask is unclassifiable" % (n, e))
            v = ev.env.get(py.attr["pnm"])
            if isinstance(v, bool) or not isinstance(v, int):
                raise AnalysisError("HoppingParams.__init__: %s does not fold to an integer for N = %d" % (py.attr["pnm"], n))
            vals.append((n, v))
        mask_verdict(L, F_GSM, "HoppingParams.__init__", "the attribute resolve() applies with `&`", vals, py.init.lineno,
                     structure(py.pnm_init))
        ma_par = py.ma_par
        pn = py.init_env[py.attr["pnm"]]
        deps = sorted(x[1] for x in variables(pn) if x != ma_par)
        L.ob("C07.R2", F_GSM, "HoppingParams.__init__",
             "the mask is a function of the length of the list stored as the mobile allocation only",
             [], deps, not deps and any(x == ("call", "len", ma_par) for x in G.subterms(pn)), py.init.lineno)
    nmasks += _fold_masks(L, F_GSM, "HoppingParams.resolve", py.inline_masks, py.resolve.lineno,
                          "expression applied with `&` in resolve()")
    L.extra["mask_reference"] = {str(n): nbin_mask(n) for n in DOMAIN_N}
    L.floor("C07.R2", "2^NBIN masks (Python)", nmasks, 1)


def r2_c_mask(L, cs):
    """R2, firmware: the value rfch_hop_seq_gen applies with `&`, folded for every N of the domain"""
    def reset():
        cs.fold.steps = 0
    nmasks = _fold_masks(L, F_RFCH, cs.mask_fn, cs.masks, cs.tu.line(cs.tu.functions[cs.mask_fn]),
                         "value rfch_hop_seq_gen applies with `&`", cs.fold.call, reset)
    L.extra["mask_reference"] = {str(n): nbin_mask(n) for n in DOMAIN_N}
    if len(cs.masks) != 1:
        L.require("C07.R2", F_RFCH, cs.HOP, "one 2^NBIN mask is used by the firmware's hopping formula", 1, len(cs.masks),
                  line=cs.tu.line(cs.f))
    L.floor("C07.R2", "2^NBIN masks (C)", nmasks, 1)


OPERAND = V("<operand>")
REDUCTION_FOLD_CAP = 4000000      # (operand value, N) pairs one reduction may be folded for


def _domain_box(n):
    """the property's domain for one allocation size: 2^NBIN fixed by N, HSN / MAIO in 0..63, time components in range"""
    return {N: (n, n), P: (nbin_mask(n) + 1,) * 2, HSN: (0, 63), MAIO: (0, 63), FN: (0, G.HYPERFRAME - 1),
            V("T1"): (0, 2047), V("T2"): (0, 25), V("T3"): (0, 50)}


def _subst(t, old, new):
    """t with every occurrence of the sub-term `old` replaced -- purely syntactic, the result is only folded"""
    if t == old:
        return new
    if t[0] in ("c", "v"):
        return t
    if old[0] == "+" and t[0] == "+":
        # sums are flat in the normal form: `old - 2*N` does not contain `old` as a sub-term, but all of its operands
        rest = list(t[1:])
        for o in old[1:]:
            if o not in rest:
                break
            rest.remove(o)
        else:
            return ("+", new) + tuple(_subst(x, old, new) for x in rest)
    return (t[0],) + tuple(_subst(x, old, new) if isinstance(x, tuple) else x for x in t[1:])


def _term_size(t):
    return sum(1 for _ in G.subterms(t))


def reduction_by_fold(x, settle, rntable, pending):
    """x: a sub-term of the hopping term built with conditional subtractions (`red`) -- a chain of them, a chain behind
    a threshold with a `%` fall-back (a division-free reduction helper, inlined), ...  Decided by its semantics, not by
    its shape: if x is a function f(S, N) of ONE operand sub-term S and of the allocation size only (every other leaf of
    x lies inside S), f is folded by the checker's own arithmetic for every N of the domain 1..64 and every integer of
    the interval enclosure of S for that N (2^NBIN fixed by N; HSN, MAIO in 0..63; T1..T3 in their ranges; table values
    from the reference table).  The enclosure contains every value the operand can take, the domain is finite, the
    fold is exhaustive: f(s, N) == s mod N on all of it proves x == S mod N for every input of the property.
    Returns (settled S, f with the operand named <operand>, pairs folded, text of the enclosure) for the largest such
    S, or None when no operand sub-term makes x a reduction modulo N on its whole enclosure (nothing is decided then).
    `pending` is the caller's list of obligations not yet recorded: what settling a rejected candidate operand added to
    it is taken back (a sub-term is judged only where it really takes part in the result)."""
    cands, seen = [], set()
    for S in G.subterms(x):
        if S is x or S in seen or S[0] in ("c", "cmp", "not", "and", "or") or S in (N, P):
            continue
        seen.add(S)
        cands.append(S)
    cands.sort(key=lambda s: (-_term_size(s), repr(s)))
    for S in cands:
        f = _subst(x, S, OPERAND)
        vs = variables(f)
        if OPERAND not in vs or not vs <= {OPERAND, N, P}:
            continue
        try:
            fn = G.term_fn(f, {OPERAND: "x", N: "n", P: "p"}, ["x", "n", "p"])
        except AnalysisError:
            continue
        mark = len(pending)
        Ss = settle(S)
        ivs, total = [], 0
        for n in DOMAIN_N:
            iv = G.interval(Ss, _domain_box(n), {RN: rntable})
            if not (iv[0] >= 0 and iv[1] < G.INF):
                ivs = None
                break
            ivs.append((n, int(iv[0]), int(iv[1])))
            total += int(iv[1]) - int(iv[0]) + 1
        ok = ivs is not None and total <= REDUCTION_FOLD_CAP
        try:
            ok = ok and all(fn(v, n, nbin_mask(n) + 1) == v % n for n, lo, hi in ivs for v in range(lo, hi + 1))
        except (G._Outside, ArithmeticError, TypeError, ValueError):
            ok = False
        if not ok:
            del pending[mark:]
            continue
        his = [hi for _, _, hi in ivs]
        return Ss, f, total, "x in 0..%d for N = 1, ..., 0..%d for N = 64 (largest bound %d)" % (his[0], his[-1], max(his))
    return None


def settle_reductions(L, file, func, term, line, rntable, names):
    """`x = S; if (x >= N) x -= N` (one conditional subtraction) is S mod N
    exactly when S <= 2N - 1.  Decided with the interval of S for every N of
    the domain (2^NBIN fixed by N; HSN, MAIO in 0..63; T1..T3 in their
    ranges).  Proven -> rewritten to mod silently; not within 2N - 1 -> the
    reduction is reported (R3) and the comparison continues with mod.
    Anything else built from conditional subtractions (a chain of them, a chain behind a threshold test with a `%`
    fall-back: an inlined division-free reduction helper) is decided by reduction_by_fold -- an exhaustive fold over the
    finite domain of (operand value, N): equal to `operand mod N` everywhere -> rewritten to mod (obligation recorded);
    otherwise the sub-term stays as it is written and the formula rule (R3) decides the whole term by folding it on its
    witness families -- such an arrangement is never reported by itself."""
    memo = {}
    pending = []        # obligations / evidence in the order they were found; recorded once the whole term is settled

    def settle(t):
        return G.renorm(t, leaf, band_pnm)

    def composite(x):
        """a conditional arrangement around conditional subtractions, a chain of them, or one by another modulus"""
        if x[0] == "ite":
            return "red" in G.heads(x)
        return x[0] == "red" and (x[1][0] == "red" or x[2] != N)

    def leaf(x):
        if x[0] not in ("ite", "red"):
            return None
        if x in memo:
            pending.extend(memo[x][1])
        else:
            mark = len(pending)
            r = leaf1(x)
            memo[x] = (r, pending[mark:])
        return memo[x][0]

    def folded(r):
        S, f, k, encl = r
        pending.append(("C07.R3", file, func,
             "hopping formula of %s: the division-free reduction `%s` of x = %s equals x mod N for every value of x and "
             "every N in 1..64" % (func, G.show(f, {OPERAND: "x"})[:200], G.show(S, names)[:150]),
             "equal to x mod N on the whole finite domain",
             "equal for all %d (x, N) pairs: %s (exhaustive fold over the interval enclosure of the operand)" % (k, encl),
             True, line))
        pending.append({"reduction": G.show(f, {OPERAND: "x"})[:200], "operand": G.show(S, names)[:200], "pairs": k})
        return X.mod(S, N)

    def leaf1(x):
        if composite(x):
            r = reduction_by_fold(x, settle, rntable, pending)
            if r is not None:
                return folded(r)
            if x[0] == "red":
                # no operand makes it a reduction modulo N on its whole enclosure: left as written, decided by R3's fold
                return ("red", settle(x[1]), settle(x[2]))
            return None
        if x[0] != "red":
            return None
        S, m = settle(x[1]), settle(x[2])
        if m != N:
            return ("red", S, m)
        # an operand with an undecided conditional subtraction inside has no meaningful enclosure of its own: it is
        # enclosed as if those were reductions, and this one is then undecided as well (settled with them below)
        inner = "red" in G.heads(S)
        Sm = G.renorm(S, lambda t: X.mod(t[1], t[2]) if t[0] == "red" else None, band_pnm) if inner else S
        bad = []
        for n in DOMAIN_N:
            rng = _domain_box(n)
            iv = G.interval(Sm, rng, {RN: rntable})
            if not (iv[0] >= 0 and iv[1] <= 2 * n - 1):
                bad.append((n, iv))
        if bad and S[0] == "ite" and not inner:
            # the operand is itself conditional (`if (x >= 2n) x -= n; if (x >= n) x -= n` ...): the enclosure of the
            # whole operand says little; the arrangement may still be a reduction of a smaller operand inside it
            r = reduction_by_fold(("red", S, m), settle, rntable, pending)
            if r is not None:
                return folded(r)
        ob = ("C07.R3", file, func,
              "hopping formula of %s: the single conditional subtraction `x = %s; if x >= N: x -= N` is a reduction modulo N "
              "only for operands <= 2N - 1" % (func, G.show(Sm, names)[:150]),
              "operand <= 2N - 1 for every N in 1..64 (HSN, MAIO in 0..63)",
              ("holds for all 64 values of N" + (" provided the conditional subtractions inside the operand are reductions"
                                                  if inner else "")) if not bad else
              "operand can exceed 2N - 1 for %d of 64 values of N: %s" % (
                  len(bad), ", ".join("N = %d: operand in %s, 2N - 1 = %d" % (n, G.ivtxt(iv), 2 * n - 1) for n, iv in bad[:3])),
              not bad and not inner, line)
        if bad or inner:
            # the enclosure ignores the conditions under which the subtraction is reached (`if (x < 2n) ... x -= n`) and
            # correlations between operands: it proves a reduction, it does not refute one.  Kept as written; whether it
            # matters is decided below on the whole term.
            pending.append(("suspect", ("red", S, m), ob))
            return ("red", S, m)
        pending.append(ob)
        return X.mod(S, m)
    out = G.renorm(term, leaf, band_pnm)
    suspects = {}
    for o in pending:
        if isinstance(o, dict):
            fl = L.extra.setdefault("reductions_folded", {}).setdefault(func, [])
            if o not in fl:
                fl.append(o)
        elif o[0] == "suspect":
            suspects[o[1]] = o[2]
        else:
            L.ob(*o)
    present = {x for x in G.subterms(out) if x in suspects}
    if present:
        # a single conditional subtraction without an interval proof: refuted only by an input of the property's domain on
        # which it is reached with an operand >= 2N and the selected channel changes -- the term as written and the term
        # with `mod N` in its place are folded on the witness families of R3 and compared with each other
        def to_mod(t):
            return X.mod(G.renorm(t[1], to_mod, band_pnm), G.renorm(t[2], to_mod, band_pnm)) if t in present else None
        as_mod = G.renorm(out, to_mod, band_pnm)
        k, w = fold_pair(out, as_mod, rntable)
        if w is not None:
            for x in sorted(present, key=repr):
                ob = suspects[x]
                L.ob(*(ob[:5] + ("%s -- e.g. %s" % (ob[5], w),) + ob[6:]))
            out = as_mod            # reported; the comparison with the specification term continues with mod
        else:
            def interval_proofs():
                for x in sorted(present, key=repr):
                    L.ob(*suspects[x])
            L.structural("C07.R3 %s: every single conditional subtraction has an interval proof operand <= 2N - 1" % func,
                         interval_proofs)
            L.extra.setdefault("reductions_without_interval_proof", {})[func] = {
                "reductions": sorted(G.show(x, names)[:200] for x in present),
                "decided": "the term selects the same channel as with `mod N` in their place on all %d witnesses" % k}
    left = sorted({G.show(x, names)[:200] for x in G.subterms(out) if x[0] == "red"})
    if left:
        L.extra.setdefault("reductions_left_to_witnesses", {})[func] = left
    return out


def spec_py():
    return spec_terms(FN, *[G.spec_decomposition(FN)[k] for k in ("t1", "t2", "t3")])


def spec_c():
    return spec_terms(FN, V("T1"), V("T2"), V("T3"))


def prune_unreachable(L, func, term, rng, rntable):
    """arms that cannot be taken for any input of the property's domain (a defensive `raise` behind a bound that the
    ranges already guarantee, an assertion that always holds) do not take part in the comparison: their conditions
    are decided by intervals over the domain box (sound, no enumeration); undecided conditions stay in the term"""
    def ren(t):
        if t == ("call", "len", RN):
            return C(len(rntable))
        return None
    log = []
    out = G.prune(G.renorm(term, ren, band_pnm), rng, {RN: rntable}, band_pnm, log)
    if log:
        L.extra.setdefault("unreachable_arms", {})[func] = sorted(
            {"%s is always %s" % (G.show(c)[:160], "true" if v else "false") for c, v in log})
    return out


DOMAIN_BOX = {HSN: (0, 63), MAIO: (0, 63), N: (1, 64), P: (2, 128), FN: (0, G.HYPERFRAME - 1),
              V("T1"): (0, 2047), V("T2"): (0, 25), V("T3"): (0, 50)}


def settle_py(L, py, rntable):
    """the simulator's term with its conditional subtractions settled and inside the vocabulary of the specification term;
    the formula, T1R, index and return-path rules read it (none of them gives a verdict on a term with opaque parts)"""
    py.rntable = rntable
    py.term = G.euclid(prune_unreachable(L, "HoppingParams.resolve", py.term, DOMAIN_BOX, rntable), band_pnm)
    py.term = settle_reductions(L, F_GSM, "HoppingParams.resolve", py.term, py.resolve.lineno, rntable, spec_py()["names"])
    check_vocabulary(py.term, "HoppingParams.resolve")
    return py


def settle_c(L, cs, rntable):
    """same for the firmware's term"""
    cs.rntable = rntable
    cs.term = G.euclid(prune_unreachable(L, cs.HOP, cs.term, DOMAIN_BOX, rntable), band_pnm)
    cs.term = settle_reductions(L, F_RFCH, cs.HOP, cs.term, cs.tu.line(cs.f), rntable, spec_c()["names"])
    check_vocabulary(cs.term, cs.HOP)
    return cs


def r3_py_formula(L, py):
    """R3, simulator: the value returned by resolve() is the TS 45.002 6.2.3 term"""
    sp = spec_py()
    compare_formula(L, F_GSM, "HoppingParams.resolve", py.term, ("idx", MA, sp["mai"]), sp["names"], py.resolve.lineno, "py", py.rntable)
    L.floor("C07.R3", "formula terms compared (Python)", 1, 1)


def r3_c_formula(L, cs):
    """R3, firmware: the value returned by rfch_hop_seq_gen() is the TS 45.002 6.2.3 term"""
    sc = spec_c()
    want = G.ite_(X.cmp_("==", MA, C(0)), sc["mai"], ("idx", MA, sc["mai"]))
    found = cs.term
    if not any(a == X.cmp_("==", MA, C(0)) for a in G.atoms_of(found)):
        want = ("idx", MA, sc["mai"])
    compare_formula(L, F_RFCH, cs.HOP, found, want, sc["names"], cs.tu.line(cs.f), "c", cs.rntable)
    L.floor("C07.R3", "formula terms compared (C)", 1, 1)


def rn_indices(t):
    return [x[2] for x in G.subterms(t) if x[0] == "idx" and x[1] == RN]


def t1_uses(I, T1):
    """parents of every occurrence of T1 inside the index term I"""
    out = []

    def rec(x, parent):
        if x == T1:
            out.append(parent)
            return
        for y in x[1:]:
            if isinstance(y, tuple):
                rec(y, x)
    rec(I, None)
    return out


def r4_decomposition(L, repo):
    G.r1_decomposition(L, repo, rule="C07.R4", hopping_only=True)


INDEX_WITNESS_T1 = (0, 31, 32, 63, 64, 101, 1984, 2047)


def fold_index(I, want, rntable, hsns=range(64), limit=3):
    """the RNTABLE index term folded for every HSN of `hsns`, T1 around the multiples of 32 / 64 and at the end of its
    range and every (T2, T3) pair: (witnesses, [text of those where it differs from `want`(a term) or leaves 0..113])"""
    f = G.term_fn(("tuple", I, want if want is not None else C(0)), TERM_NAMES, TERM_PARAMS)
    rn = tuple(rntable)
    k, bad = 0, []
    for hsn in hsns:
        for t1 in INDEX_WITNESS_T1:
            for fn in range(t1 * 1326, t1 * 1326 + 1326):
                k += 1
                try:
                    a, b = f(fn, t1, fn % 26, fn % 51, hsn, 0, 1, 2, (0,), rn)
                except (G._Outside, ArithmeticError, TypeError, ValueError) as e:
                    raise AnalysisError("RNTABLE index cannot be folded for HSN = %d, FN = %d: %s" % (hsn, fn, e))
                if (want is not None and a != b) or (want is None and not 0 <= a <= 113):
                    bad.append("HSN = %d, FN = %d (T1 = %d, T3 = %d): index %s%s" % (
                        hsn, fn, t1, fn % 51, a, ", specification %s" % b if want is not None else ""))
                    if len(bad) >= limit:
                        return k, bad
    return k, bad


def r4_t1r(L, file, func, term, T1, T3, line, rntable):
    """R4: T1 enters the RNTABLE index only as T1R = T1 mod 64.  Recognised directly when every occurrence of T1 in the
    index is the operand of `mod 64`; an index written otherwise (e.g. the reduction applied after the xor) is folded
    on witnesses against (HSN xor (T1 mod 64)) + T3: a differing witness is a violation, agreement leaves the
    structural clause open without an alarm."""
    idxs = []
    for I in rn_indices(term):
        if I not in idxs:
            idxs.append(I)
    L.floor("C07.R4", "RNTABLE accesses in %s" % func, len(idxs), 1)
    key = "T1R = T1 mod 64 (`t1 & 63`) is what enters the RNTABLE index"
    for I in idxs:
        uses = sorted({("T1 mod %d" % p[2][1]) if (p is not None and p[0] == "mod" and p[1] == T1 and p[2][0] == "c")
                       else "T1 unreduced" for p in t1_uses(I, T1)})
        if uses == ["T1 mod 64"]:
            L.require("C07.R4", file, func, key, ["T1 mod 64"], uses, line=line)
            continue
        want = X.add(X.bxor(HSN, X.mod(T1, C(64))), T3)
        k, bad = fold_index(I, want, rntable)
        if bad:
            L.ob("C07.R4", file, func, key, ["T1 mod 64"], "%s -- e.g. %s" % (uses, bad[0]), False, line)
            continue
        L.ob("C07.R4", file, func, key, ["T1 mod 64"],
             "%s -- the index equals (HSN xor (T1 mod 64)) + T3 on all %d witnesses (structural proof open)" % (uses, k), True, line)
        L.structural("C07.R4 %s: every occurrence of T1 in the RNTABLE index is reduced mod 64" % func,
                     L.require, "C07.R4", file, func, key, ["T1 mod 64"], uses)


def r4_py_t1r(L, py):
    d = G.spec_decomposition(FN)
    r4_t1r(L, F_GSM, "HoppingParams.resolve", py.term, d["t1"], d["t3"], py.resolve.lineno, py.rntable)


def r4_c_t1r(L, cs):
    r4_t1r(L, F_RFCH, cs.HOP, cs.term, V("T1"), V("T3"), cs.tu.line(cs.f), cs.rntable)


def _index_bound(L, file, func, term, size, rng, line, note, rntable):
    """R5: interval enclosure of the index (closes the clause for every input); an enclosure that is too wide decides
    nothing by itself (operands may be correlated): the index is then folded on the witnesses of fold_index and only
    a witness that leaves the table is a violation"""
    key = "RNTABLE index (HSN xor T1R) + T3 stays inside the table (<= 63 + 50 < 114)"
    for I in rn_indices(term):
        v = G.interval(I, rng)
        if v[0] >= 0 and v[1] <= size - 1 and v[1] <= 113:
            L.ob("C07.R5", file, func, key, "[0, %d]" % (size - 1), "%s (%s)" % (G.ivtxt(v), note), True, line)
            continue
        if size < 114:
            L.ob("C07.R5", file, func, key, "[0, %d]" % (size - 1), "%s (%s); the table holds %d entries" % (G.ivtxt(v), note, size),
                 False, line)
            continue
        hs = rng.get(HSN, (0, 63))
        hsns = range(int(max(hs[0], -64)), int(min(hs[1], 255)) + 1) if hs[0] > -G.INF and hs[1] < G.INF else range(-64, 256)
        k, bad = fold_index(I, None, rntable, hsns)
        if bad:
            L.ob("C07.R5", file, func, key, "[0, %d]" % (size - 1), "%s (%s) -- e.g. %s" % (G.ivtxt(v), note, bad[0]), False, line)
            continue
        L.ob("C07.R5", file, func, key, "[0, %d]" % (size - 1),
             "inside 0..113 on all %d witnesses (%s; interval enclosure %s too wide: structural proof open)" % (k, note, G.ivtxt(v)),
             True, line)
        L.structural("C07.R5 %s: interval enclosure of the RNTABLE index" % func, L.ob, "C07.R5", file, func, key,
                     "[0, %d]" % (size - 1), G.ivtxt(v), False)


def fold_hsn_guard(L, py):
    """(candidates folded, [(hsn, stored value) accepted by the constructor and stored outside 0..63])"""
    hp, mp_, ap = py.init_params
    k, bad = 0, []
    for h in list(range(-70, 300)) + [1 << 16, -(1 << 16), (1 << 32) + 5]:
        ev = Ev(py.repo, py.mod, env={hp: h, mp_: 0, ap: [(0, 0), (1, 1), (2, 2)]}, self_cls=py.ci)
        k += 1
        try:
            ev.run_block(py.init.body)
        except Raised:
            continue
        except (Unknown, TypeError, ValueError, ArithmeticError, LookupError, AttributeError, RecursionError) as e:
            raise AnalysisError("HoppingParams.__init__ cannot be folded for hsn = %d (%s); the HSN range check is unclassifiable" % (h, e))
        v = ev.env.get(py.attr["hsn"])
        if isinstance(v, bool) or not isinstance(v, int) or not 0 <= v <= 63:
            bad.append((h, v))
    return k, bad


def r5_py_bound(L, py, ptab):
    """R5, simulator: HSN range where it enters, and the table index under it"""
    hv = py.init_env[py.attr["hsn"]]
    iv = (-G.INF, G.INF)
    for c, pol in py.init_conds:
        iv = G.refine(c, pol, hv, iv)
    key = "HSN is range-checked (0..63) on the only path that stores self.hsn"
    guards = "%s from guards %s" % (G.ivtxt(iv), [G.show(G.truth(c if p else ("not", c))) for c, p in py.init_conds])
    if hv[0] == "v" and iv[0] >= 0 and iv[1] <= 63:
        L.ob("C07.R5", F_GSM, "HoppingParams.__init__", key, "[0, 63]", guards, True, py.init.lineno)
    else:
        # the guard is not written as comparisons of the parameter with constants: the constructor is folded for
        # HSN candidates on both sides of the range; a candidate it accepts and stores outside 0..63 is a violation
        k, bad = fold_hsn_guard(L, py)
        if bad:
            L.ob("C07.R5", F_GSM, "HoppingParams.__init__", key, "[0, 63]",
                 "%s -- e.g. HoppingParams(hsn = %d, ...) is accepted and stores %s = %r" % (guards, bad[0][0], py.attr["hsn"], bad[0][1]),
                 False, py.init.lineno)
        else:
            L.ob("C07.R5", F_GSM, "HoppingParams.__init__", key, "[0, 63]",
                 "every one of %d candidates in -70..299 and at +-2^16, 2^32 + 5 is rejected or stored inside 0..63 (guard shape not "
                 "recognised: structural proof open)" % k, True, py.init.lineno)
            L.structural("C07.R5 HoppingParams.__init__: interval of the stored HSN from the constructor's guards", L.ob,
                         "C07.R5", F_GSM, "HoppingParams.__init__", key, "[0, 63]", guards, False)
            iv = (0, 63)
    hs = (max(iv[0], 0), min(iv[1], 63)) if iv[0] >= 0 and iv[1] <= 63 else iv
    _index_bound(L, F_GSM, "HoppingParams.resolve", py.term, len(ptab), {HSN: hs}, py.resolve.lineno,
                 "HSN range from the constructor guard", py.rntable)


def r5_c_bound(L, cs, ctab):
    init, cext = ctab
    _index_bound(L, F_RFCH, cs.HOP, cs.term, min(cext or 0, len(init)),
                 {HSN: (0, 63), V("T1"): (0, 2047), V("T2"): (0, 25), V("T3"): (0, 50)}, cs.tu.line(cs.f),
                 "HSN in 0..63 (property domain), gsm_time invariant", cs.rntable)


def r6_py_returns(L, py):
    # resolve returns MA[...] on every path
    lv = list(G.ite_leaves(py.term))
    bad = [G.show(x)[:60] for x in lv if not (x[0] == "idx" and x[1] == MA)]
    L.ob("C07.R6", F_GSM, "HoppingParams.resolve", "every path of resolve() returns self.ma[mai]", [], bad, not bad,
         py.resolve.lineno)
    # one leaf when both hopping modes share the exit that adds MAIO, two when each returns on its own
    L.floor("C07.R6", "return paths of resolve()", len(lv), 1)


def _returned_leaves(t, conds=()):
    """(path conditions, leaf) of a returned term: through conditionals, also under a constant projection"""
    if t[0] == "ite":
        for x in _returned_leaves(t[2], conds + ((t[1], True),)):
            yield x
        for x in _returned_leaves(t[3], conds + ((t[1], False),)):
            yield x
    elif t[0] == "idx" and t[2][0] == "c" and t[1][0] == "ite":
        for c, leaf in _returned_leaves(t[1], conds):
            yield c, ("idx", leaf, t[2])
    else:
        yield conds, t


def _is_resolve(c):
    return c[0] == "call" and c[1].endswith(".resolve")


def _canon_resolve(c):
    """`fh = self.fh; fh.resolve(fn)` (receiver read through a local) is the same call as `self.fh.resolve(fn)`"""
    if c[1] == ".resolve" and len(c) > 2 and c[2][0] == "v":
        return ("call", c[2][1] + ".resolve") + c[3:]
    return c


def _memo_check(L, repo, q, leaf, conds, fnp, line):
    """a value the getter returns without calling resolve(): accepted only as a memo of it -- read from one attribute
    `self.A[j]` under the path conditions `self.A[a] is self.fh` and `self.A[b] == fn`, every store to A in the toolkit
    being None or a tuple whose element j is (element a).resolve(element b).  Anything else is unclassifiable."""
    chain, base = [], leaf
    while base[0] == "idx" and base[2][0] == "c":
        chain.append(base[2][1])
        base = base[1]
    if base[0] != "v" or not base[1].startswith("self.") or not chain:
        raise AnalysisError("%s returns `%s` on a hopping path without calling resolve(); unclassifiable" % (q, G.show(leaf)[:80]))
    j = chain[-1]
    pos = set()
    for c, pol in conds:
        if pol:
            pos |= set(c[1:]) if c[0] == "and" else {c}
    a = [x for x in pos if x[0] == "cmp" and x[1] == "is" and V("self.fh") in x[2:] and any(
        y[0] == "idx" and y[1] == base and y[2][0] == "c" for y in x[2:])]
    b = [x for x in pos if x[0] == "cmp" and x[1] == "==" and V(fnp) in x[2:] and any(
        y[0] == "idx" and y[1] == base and y[2][0] == "c" for y in x[2:])]
    key = "%s returns the memo `%s` only for the HoppingParams object in use and the frame number it was given" % (q, G.show(leaf))
    if len(a) != 1 or len(b) != 1:
        L.ob("C07.R6", F_TRX, q, key, "guards `%s[a] is self.fh` and `%s[b] == %s`" % (base[1], base[1], fnp),
             sorted(G.show(x) for x in pos), False, line)
        return
    ia = [y for y in a[0][2:] if y[0] == "idx"][0][2][1]
    ib = [y for y in b[0][2:] if y[0] == "idx"][0][2][1]
    L.ob("C07.R6", F_TRX, q, key, "guards on the object and the frame number", sorted(G.show(x) for x in (a[0], b[0])), True, line)
    name = base[1].split(".", 1)[1]
    nw = 0
    for m in repo.tk_modules():
        # the writers are read from the source as written: the loader's normaliser may fold a memoising helper away
        try:
            raw = ast.parse(m.src)
        except SyntaxError as e:
            raise AnalysisError("cannot parse %s: %s" % (m.rel, e))
        set_parents(raw)
        for node, k in attr_accesses(raw, name):
            if k == "load":
                continue
            wq = qualname(node)
            par = getattr(node, "_parent", None)
            wkey = "memo `%s` is written only as None or (object, frame number, object.resolve(frame number))" % base[1]
            if k != "store" or not isinstance(par, ast.Assign):
                L.ob("C07.R6", m.rel, wq, wkey, "plain assignment", k, False, node.lineno)
                continue
            if isinstance(par.value, ast.Constant) and par.value.value is None:
                continue
            fd, cd = enclosing_func(node), enclosing_class(node)
            ci = repo.cls(m, cd.name) if cd is not None else None
            if not isinstance(fd, ast.FunctionDef):
                raise AnalysisError("store to %s outside a function; unclassifiable" % base[1])
            sym = G.PySym(repo, m, ci)
            for _c, o in G.leaves(sym.run(fd)):
                env = o[2] if o[0] == "ret" else o[1] if o[0] == "fall" else {}
                v = env.get(base[1], base)
                if v == base or v == V("None"):
                    continue                        # not stored on this path / reset to None
                nw += 1
                ok = v[0] == "tuple" and len(v) - 1 > max(ia, ib, j) and _is_resolve(v[j + 1]) and v[ia + 1][0] == "v" and \
                    _canon_resolve(v[j + 1]) == ("call", v[ia + 1][1] + ".resolve", v[ib + 1])
                L.ob("C07.R6", m.rel, wq, wkey, "(x, n, x.resolve(n)) at positions (%d, %d, %d)" % (ia, ib, j), G.show(v)[:160], ok,
                     node.lineno)
    L.floor("C07.R6", "stores of the memo %s" % base[1], nw, 1)


GETTER_FNS = (0, 1, 51, G.HYPERFRAME - 1)        # FN = 0 is a frame number like any other; T3 = 0; the last frame


def r6_getter_fold(L, repo):
    """C07.R12 decides the clause "the selected channel is MA[MAI] ... for every TDMA frame number" at the point where
    the simulator consumes it: Transceiver.get_rx_freq(fn) / get_tx_freq(fn) with a hopping configuration installed.
    The getter's source is folded by the whitelisted evaluator (consteval; nothing of the repository runs) with
    `self.fh` an object whose resolve() is recorded and answers a distinct (Rx, Tx) pair per frame number, the fixed
    tuning a pair of other values, for the frame numbers 0, 1, 51 and 2715647.  Required: the Rx (Tx) element of
    resolve(fn) for the frame number given.  A getter that returns the fixed tuning (or anything else) for one of these
    frames makes the transceiver leave the hopping sequence in that frame -- it does not select MA[MAI] there.  Decided
    on values, not on the shape of the guard; a body outside the evaluator's vocabulary (a memo kept on the object,
    ...) gives no verdict here and is left to the symbolic rule R6."""
    from consteval import Opaque
    skip = (Unknown, TypeError, ValueError, ArithmeticError, LookupError, AttributeError, RecursionError)
    n, notes = 0, L.extra.setdefault("getter_fold", {})
    for name, idx in (("get_rx_freq", 0), ("get_tx_freq", 1)):
        ci, fd = repo.need_method("transceiver", "Transceiver", name)
        q = "Transceiver.%s" % name
        L.unit(F_TRX)
        L.fn(F_TRX, q)
        ps = [a.arg for a in fd.args.args]
        if len(ps) != 2:
            raise AnalysisError("%s: expected (self, fn)" % q)
        bad, k = [], 0
        try:
            for fn in GETTER_FNS:
                calls = []
                ev = Ev(repo, ci.mod, self_cls=ci)
                env = dict(ev._bindargs(fd, ["<self>", fn], {}))
                del env[ps[0]]
                env.update({"self._rx_freq": Opaque("fixed Rx tuning"), "self._tx_freq": Opaque("fixed Tx tuning"),
                            "self.fh": Opaque("self.fh")})
                ev.env = env

                def res(a, calls=calls):
                    calls.append(tuple(a))
                    return (Opaque("resolve(%s)[0]" % ", ".join(map(repr, a))), Opaque("resolve(%s)[1]" % ", ".join(map(repr, a))))
                ev.hooks = {"self.fh.resolve": res}
                try:
                    r = ev.run_block(fd.body)
                    got = r[1] if isinstance(r, tuple) and len(r) == 2 and r[0] == "ret" else None
                except Raised as e:
                    got = "<raises %s>" % e.cls
                want = Opaque("resolve(%d)[%d]" % (fn, idx))
                k += 1
                if got != want:
                    bad.append((fn, getattr(got, "text", repr(got))))
        except skip as e:
            notes[q] = "not folded (%s); left to C07.R6" % str(e)[:80]
            continue
        n += k
        L.ob("C07.R12", F_TRX, q, "%s(FN) with frequency hopping configured returns self.fh.resolve(FN)[%d] for FN = %s" % (
            name, idx, ", ".join(map(str, GETTER_FNS))), "resolve(FN)[%d] for all %d frame numbers" % (idx, k),
            "resolve(FN)[%d] for all %d frame numbers" % (idx, k) if not bad else "; ".join(
                "FN = %d: %s" % b for b in bad), not bad, fd.lineno)
    if not notes:
        L.floor("C07.R12", "getter folds (2 getters x %d frame numbers)" % len(GETTER_FNS), n, 2 * len(GETTER_FNS))


def _domain_truth(c, fnp):
    """truth value of a path condition of a frequency getter for every call of the property's domain -- a hopping
    configuration installed (`self.fh` is not None) and `fn` a frame number (an integer, not None) -- or None when
    that does not decide it"""
    k = c[0]
    if k == "c":
        return bool(c[1])
    if k == "not":
        v = _domain_truth(c[1], fnp)
        return None if v is None else not v
    if k in ("and", "or"):
        vs = [_domain_truth(x, fnp) for x in c[1:]]
        if k == "and":
            return False if any(v is False for v in vs) else True if all(v is True for v in vs) else None
        return True if any(v is True for v in vs) else False if all(v is False for v in vs) else None
    if k == "cmp" and c[1] in ("==", "is", "!=", "is not") and V("None") in c[2:] and (V("self.fh") in c[2:] or V(fnp) in c[2:]):
        return c[1] in ("!=", "is not")
    return None


def r6_getters(L, repo):
    mod = repo.mod("transceiver")
    L.unit(F_TRX)
    n = 0
    for name in ("get_rx_freq", "get_tx_freq"):
        ci, fd = repo.need_method("transceiver", "Transceiver", name)
        q = "Transceiver.%s" % name
        L.fn(F_TRX, q)
        ps = [a.arg for a in fd.args.args]
        if len(ps) != 2:
            raise AnalysisError("%s: expected (self, fn)" % q)
        sym = G.PySym(repo, mod, ci)
        res = sym.result(sym.run(fd))
        calls = [_canon_resolve(x) for x in G.subterms(res) if _is_resolve(x)]
        if not calls:
            L.ob("C07.R6", F_TRX, q, "%s resolves the hopping frequency through fh.resolve()" % name, ">= 1 call", G.show(res)[:120],
                 False, fd.lineno)
        for c in calls:
            n += 1
            L.ob("C07.R6", F_TRX, q, "%s calls self.fh.resolve() with the frame number it was given" % name,
                 "self.fh.resolve(%s)" % ps[1], G.show(c), c == ("call", "self.fh.resolve", V(ps[1])), fd.lineno)
        # what is returned while hopping is configured without calling resolve() (a memo) must be justified
        nofh = X.cmp_("==", V("self.fh"), V("None"))
        for conds, leaf in _returned_leaves(res):
            if any(_is_resolve(x) for x in G.subterms(leaf)):
                continue
            if any((c == nofh and pol) or (c[0] == "and" and pol and nofh in c[1:]) for c, pol in conds):
                continue
            if any(_domain_truth(c, ps[1]) not in (None, pol) for c, pol in conds):
                continue            # a path no call of the property's domain takes (hopping configured, fn a frame number)
            if not calls:
                continue            # already reported
            _memo_check(L, repo, q, leaf, conds, ps[1], fd.lineno)
    L.floor("C07.R6", "resolve() call sites in the frequency getters", n, 2)
    r6_fh_stores(L, repo)


def _local_bindings(fd, name):
    """value expressions of every binding of the local `name` in function fd (nested scopes included), or None when
    it is a parameter or is bound other than by a plain `name = value` / `name: T = value` (loop target, unpacking,
    with ... as, augmented assignment, import, global / nonlocal, del ...)"""
    a = fd.args
    params = {x.arg for x in a.args + a.kwonlyargs + getattr(a, "posonlyargs", [])}
    params |= {x.arg for x in (a.vararg, a.kwarg) if x is not None}
    if name in params:
        return None
    vals = []
    for n in ast.walk(fd):
        if isinstance(n, (ast.Global, ast.Nonlocal)) and name in n.names:
            return None
        if isinstance(n, (ast.Import, ast.ImportFrom)) and any((al.asname or al.name.split(".")[0]) == name for al in n.names):
            return None
        if isinstance(n, (ast.FunctionDef, ast.AsyncFunctionDef, ast.ClassDef)) and n is not fd and n.name == name:
            return None
        if isinstance(n, ast.ExceptHandler) and n.name == name:
            return None
        if isinstance(n, ast.arg) and n.arg == name:
            return None                                     # parameter of a nested function / lambda: another variable
        if isinstance(n, ast.Name) and n.id == name and isinstance(n.ctx, (ast.Store, ast.Del)):
            par = getattr(n, "_parent", None)
            if isinstance(par, ast.Assign) and len(par.targets) == 1 and par.targets[0] is n:
                vals.append(par.value)
            elif isinstance(par, ast.AnnAssign) and par.target is n and par.value is not None:
                vals.append(par.value)
            elif isinstance(par, ast.AnnAssign) and par.target is n:
                continue                                    # bare annotation: binds nothing
            else:
                return None
    return vals


_NOT_AN_OBJECT = ("tuple", "list", "dict", "set", "frozenset", "str", "bytes", "bytearray", "int", "float", "bool", "len",
                  "sorted", "zip", "range", "enumerate", "map", "filter", "reversed", "sum", "min", "max", "abs", "repr")


def _fh_value(e, fd, depth=0):
    """what an expression stored as the hopping configuration evaluates to, by origin rather than by its text:
    'ok' -- None or the result of a HoppingParams(...) constructor call on every path; 'bad' -- a value that is
    certainly neither (a literal, a container, a string, arithmetic); None -- origin not decidable here.  A local name
    is followed to its definitions (all of them plain assignments in the same function: a local holds one of the
    values assigned to it, or the read raises)."""
    if isinstance(e, ast.Constant):
        return "ok" if e.value is None else "bad"
    if isinstance(e, ast.Call):
        f = e.func
        name = f.id if isinstance(f, ast.Name) else f.attr if isinstance(f, ast.Attribute) else None
        if name == "HoppingParams":
            return "ok"
        if isinstance(f, ast.Name) and name in _NOT_AN_OBJECT and (fd is None or _local_bindings(fd, name) == []):
            return "bad"                                    # a builtin that returns a container / number / string
        return None
    if isinstance(e, ast.IfExp):
        arms = [_fh_value(e.body, fd, depth), _fh_value(e.orelse, fd, depth)]
        return "bad" if "bad" in arms else "ok" if arms == ["ok", "ok"] else None
    if isinstance(e, ast.NamedExpr):
        return _fh_value(e.value, fd, depth)
    if isinstance(e, (ast.Tuple, ast.List, ast.Dict, ast.Set, ast.JoinedStr, ast.ListComp, ast.DictComp, ast.SetComp,
                      ast.GeneratorExp, ast.BinOp, ast.Compare, ast.Lambda)):
        return "bad"
    if isinstance(e, ast.Name) and fd is not None and depth < 4:
        if e.id in [x.arg for x in (fd.args.vararg, fd.args.kwarg) if x is not None] and \
                not any(isinstance(n, ast.Name) and n.id == e.id and isinstance(n.ctx, (ast.Store, ast.Del)) for n in ast.walk(fd)):
            return "bad"                                    # *args is a tuple, **kwargs a dict
        vals = _local_bindings(fd, e.id)
        if not vals:
            return None
        got = [_fh_value(v, fd, depth + 1) for v in vals]
        return "bad" if "bad" in got else "ok" if all(g == "ok" for g in got) else None
    return None


def r6_fh_stores(L, repo):
    """every store to an attribute `fh` of a transceiver leaves a HoppingParams object or None there -- decided on the
    origin of the stored value (constructor call / None, through local temporaries and conditional expressions)."""
    key = "`fh` holds a HoppingParams object or None"
    unknown, skipped = [], []
    for m in repo.tk_modules():
        for node, k in attr_accesses(m.tree, "fh"):
            if k == "load":
                continue
            q = qualname(node)
            cd = enclosing_class(node)
            if isinstance(node.value, ast.Name) and node.value.id == "self" and cd is not None:
                ci = repo.cls(m, cd.name)
                if ci is not None and not any(c.name == "Transceiver" for c in repo.mro(ci)):
                    # `self.fh` of a class that is no transceiver: another object's attribute of the same name
                    skipped.append("%s (%s)" % (q, m.rel))
                    continue
            par = getattr(node, "_parent", None)
            val = None
            if isinstance(par, ast.Assign) and any(t is node for t in par.targets):
                val = par.value
            elif isinstance(par, ast.AnnAssign) and par.target is node:
                if par.value is None:
                    continue                                # bare annotation: stores nothing
                val = par.value
            elif isinstance(par, (ast.Tuple, ast.List)) and isinstance(getattr(par, "_parent", None), ast.Assign) \
                    and isinstance(par._parent.value, (ast.Tuple, ast.List)) and len(par._parent.value.elts) == len(par.elts) \
                    and not any(isinstance(x, ast.Starred) for x in list(par.elts) + list(par._parent.value.elts)):
                val = par._parent.value.elts[[i for i, t in enumerate(par.elts) if t is node][0]]
            if k != "store" or val is None:
                # augmented assignment, del, loop / with target, unpacking of a computed value
                if k == "aug":
                    L.ob("C07.R6", m.rel, q, key, "HoppingParams(...) | None", "augmented assignment to `%s`" % canon(node), False,
                         node.lineno)
                else:
                    unknown.append("%s: %s of `%s`" % (q, k, canon(node)))
                continue
            fd = enclosing_func(node)
            if not isinstance(fd, (ast.FunctionDef, ast.AsyncFunctionDef)):
                fd = None
            verdict = _fh_value(val, fd)
            if verdict is None:
                unknown.append("%s stores `%s`" % (q, canon(val)[:80]))
                continue
            found = canon(val)
            if isinstance(val, ast.Name) and fd is not None and _local_bindings(fd, val.id):
                found = "%s (local, assigned %s)" % (val.id, " / ".join(sorted({canon(v)[:60] for v in _local_bindings(fd, val.id)})))
            L.ob("C07.R6", m.rel, q, key, "HoppingParams(...) | None", found, verdict == "ok", node.lineno)
    if skipped:
        L.extra["fh_stores_of_other_classes"] = sorted(set(skipped))
    if unknown:
        raise AnalysisError("the value stored as hopping configuration cannot be traced to HoppingParams(...) / None: %s; "
                            "unclassifiable" % "; ".join(unknown[:3]))


C_INT_TYPES = {"signed char": (8, True), "unsigned char": (8, False), "short": (16, True), "unsigned short": (16, False),
               "int": (32, True), "unsigned int": (32, False), "long long": (64, True), "unsigned long long": (64, False),
               "int8_t": (8, True), "uint8_t": (8, False), "int16_t": (16, True), "uint16_t": (16, False),
               "int32_t": (32, True), "uint32_t": (32, False), "int64_t": (64, True), "uint64_t": (64, False)}
CAST = "cast:"


def _c_int_type(node_or_type):
    """(bits, signed) of the integer type clang resolved for an AST node (typedefs desugared), or None when it is not one
    of the fixed-width / standard integer types whose width does not depend on the target's data model"""
    t = node_or_type.get("type", node_or_type) if isinstance(node_or_type, dict) else {"qualType": node_or_type}
    for qt in (t.get("desugaredQualType"), t.get("qualType")):
        if qt:
            r = C_INT_TYPES.get(" ".join(w for w in qt.split() if w not in ("const", "volatile")))
            if r is not None:
                return r
    return None


def _c_convert(v, bits, signed):
    """conversion of an integer value to an integer type of `bits` bits: modulo 2^bits (C11 6.3.1.3 for unsigned targets; the
    two's complement wrap gcc and clang define for signed ones)"""
    v &= (1 << bits) - 1
    return v - (1 << bits) if signed and v >= 1 << (bits - 1) else v


class _TypedCL(G._CL):
    """_CL that keeps the integer conversions clang resolved (IntegralCast nodes, implicit and explicit, and the result
    type of an arithmetic operator) around every term that depends on the value of the hopping generator's call -- as
    ('call', 'cast:<bits><s|u>', term).  Terms that do not depend on it are lowered exactly as before."""
    ARITH = ("+", "-", "*", "/", "%", "<<", ">>", "&", "|", "^", "~")

    def _depends(self, t):
        return any(x[0] == "call" and x[1] == self.sym.keep for x in G.subterms(t))

    def _conv(self, t, n):
        if not self._depends(t):
            return t
        ty = _c_int_type(n)
        if ty is None:
            raise AnalysisError("the value of %s() is converted to `%s`; unclassifiable" % (
                self.sym.keep, n.get("type", {}).get("qualType", "?")))
        c = "%s%d%s" % (CAST, ty[0], "s" if ty[1] else "u")
        return t if t[0] == "call" and t[1] == c else ("call", c, t)

    def lower(self, n):
        k = kind(n)
        if k in ("ImplicitCastExpr", "CStyleCastExpr") and n.get("castKind") == "IntegralCast" and kids(n):
            return self._conv(self.lower(kids(n)[0]), n)
        if k in SKIP and kids(n):
            return self.lower(kids(n)[0])
        t = G._CL.lower(self, n)
        if (k in ("BinaryOperator", "UnaryOperator") and n.get("opcode") in self.ARITH) or k == "CompoundAssignOperator" or \
                (k == "UnaryOperator" and n.get("opcode") in ("++", "--")):
            t = self._conv(t, n)
        elif k == "CallExpr" and t[0] == "call" and t[1] == self.sym.keep:
            t = self._conv(t, n)            # the call's value has the generator's return type
        return t


class _UseSym(G.CSym):
    """forward substitution that keeps a call of the hopping generator as an opaque term over its lowered arguments
    (locals and the parameters of extracted helpers substituted), whatever it is handed.  With `typed` the integer
    conversions applied to the call's value are kept as well (_TypedCL)."""

    def __init__(self, tu, keep, typed=False):
        G.CSym.__init__(self, tu)
        self.keep = keep
        self.typed = typed

    def lower(self, n, env):
        if not self.typed:
            return G.CSym.lower(self, n, env)
        return G.renorm(_TypedCL(self, env).lower(n))

    def call(self, m, lw):
        ks = kids(m)
        if ctext(ks[0]) == self.keep:
            return ("call", self.keep) + tuple(lw.lower(a) for a in ks[1:])
        return G.CSym.call(self, m, lw)


def _hop_uses_by_value(cs, g, gp):
    """[(argument texts, line)] of the generator calls whose value rfch_get_params() stores through its ARFCN output
    parameter, found by forward substitution of the whole function (helpers that are handed the caller's time
    substituted, temporaries resolved); AnalysisError when the function leaves the vocabulary"""
    tu = cs.tu
    if len(gp) < 2:
        raise AnalysisError("rfch_get_params(): expected (t, arfcn_p, ...)")
    sym = _UseSym(tu, cs.HOP)
    out = sym.run(g)
    val = sym.final(out, "*%s" % gp[1])
    uses = []
    for x in G.subterms(val):
        if x[0] == "call" and x[1] == cs.HOP:
            args = [G.show(a) for a in x[2:]]
            if args not in [u[0] for u in uses]:
                uses.append((args, tu.line(g), list(x[2:])))
    return uses


def _hop_uses_by_call_graph(cs, g, gp):
    """fallback: the call sites of the generator in rfch_get_params() and in the functions of the same file it reaches,
    the time argument traced back through the callers' parameters to rfch_get_params()'s own"""
    tu = cs.tu
    defined = {n: f for n, f in tu.functions.items() if any(kind(c) == "CompoundStmt" for c in kids(f))}
    gname = g.get("name")

    def callees(f):
        return {ctext(kids(c)[0]) for c in walk(tu.body(f)) if kind(c) == "CallExpr"} & set(defined)
    reach, todo = {gname}, [gname]
    while todo:
        for n in callees(defined[todo.pop()]):
            if n not in reach and n != cs.HOP:
                reach.add(n)
                todo.append(n)

    def own_time(fname, text, depth=0):
        """`text` is, in function fname, rfch_get_params()'s own time parameter handed down unchanged"""
        if fname == gname:
            return bool(gp) and text == gp[0]
        ps = [p.get("name") for p in tu.fparams(defined[fname])]
        if text not in ps or depth > 3:
            return False
        i = ps.index(text)
        sites = [(n, c) for n in reach for c in calls_to(tu.body(defined[n]), fname)]
        return bool(sites) and all(len(call_args(c)) == len(ps) and own_time(n, ctext(call_args(c)[i]), depth + 1) for n, c in sites)
    uses = []
    for n in sorted(reach):
        for c in calls_to(tu.body(defined[n]), cs.HOP):
            args = [ctext(a) for a in call_args(c)]
            if args and own_time(n, args[0]):
                args[0] = gp[0]
            elif args and n != gname:
                args[0] = "%s in %s()" % (args[0], n)
            uses.append((args, tu.line(c), None))
    return uses


USE_ROLES = ("hsn", "maio", "n")
USE_DOMAIN = {"hsn": (0, 63), "maio": (0, 63), "n": (1, 64)}       # the property's domain of each descriptor field


def _field_role(text):
    for r in USE_ROLES:
        if text.endswith("." + r) or text.endswith("->" + r):
            return r
    return None


def _use_witness(rntable, role, vals, got):
    """a frame on which the generator, handed `got` in place of the descriptor's `role`, selects another channel than
    TS 45.002 6.2.3 does for the descriptor (hsn, maio, n) = vals: text, or None when no tried frame differs"""
    want = dict(vals)
    for r in USE_ROLES:
        want.setdefault(r, {"hsn": 1, "maio": 0, "n": 5}[r])
    hand = dict(want, **{role: got})
    for hsn in sorted({want["hsn"], 0, 1, 63}) if "hsn" not in vals and role != "hsn" else (want["hsn"],):
        a = dict(want, hsn=hsn)
        b = dict(hand, hsn=hand["hsn"] if role == "hsn" else hsn)
        for fn in list(range(0, 2 * 1326)) + [FN_T1_64, FN_LAST]:
            mai = ref_select(rntable, a["hsn"], a["maio"], a["n"], fn)[0]
            if not (1 <= b["n"] <= 64 and 0 <= b["hsn"] <= 63 and b["maio"] >= 0):
                return "HSN = %d, MAIO = %d, N = %d: the generator is handed %s = %d, outside 3GPP TS 45.002 6.2.3" % (
                    a["hsn"], a["maio"], a["n"], role, got)
            sel = ref_select(rntable, b["hsn"], b["maio"], b["n"], fn)[0]
            if sel != mai:
                return "HSN = %d, MAIO = %d, N = %d, FN = %d: MA[%d] expected, the generator handed %s = %d selects MA[%d]" % (
                    a["hsn"], a["maio"], a["n"], fn, mai, role, got, sel)
    return None


def settle_use_argument(L, cs, role, term, line, rntable):
    """An argument of the generator call that is *computed* from fields of the hopping descriptor (a clamp, a mask, a
    conversion).  The property quantifies over HSN, MAIO in 0..63 and N in 1..64 only, so the argument is decided over
    that finite domain: (1) structurally -- the conditions / reductions of the term are decided by intervals over the
    domain box (G.prune: sound for every valuation) and the term collapses to the descriptor's field; (2) otherwise by
    folding the term (checker-side arithmetic on the normal form) for every value of the fields it reads: equal to
    the field `role` everywhere -> it *is* that field on the property's domain (complete: the domain is finite); a
    value of the domain on which it differs is confirmed by a frame on which the generator then selects another
    channel than TS 45.002 6.2.3 (violation, reported with it).  Returns the field's term, or None after a violation was
    recorded.  AnalysisError when the term reads anything but descriptor fields or leaves the folder's arithmetic."""
    vs = sorted(variables(term), key=repr)
    roles = {v: _field_role(v[1]) for v in vs}
    what = "rfch_get_params(): rfch_hop_seq_gen is handed `%s`" % G.show(term)[:80]
    if not vs or any(r is None for r in roles.values()) or G.heads(term) & {"call", "idx", "post", "loop"}:
        raise AnalysisError("%s; unclassifiable" % what)
    if len(vs) > 2:
        raise AnalysisError("%s for the parameter %s; unclassifiable" % (what, role))
    own = [v for v in vs if roles[v] == role]
    box = {v: USE_DOMAIN[roles[v]] for v in vs}
    dom = ", ".join("%s in %d..%d" % ((roles[v],) + USE_DOMAIN[roles[v]]) for v in vs)
    key = "the %s handed to rfch_hop_seq_gen, computed as `%s`, is one field of the hopping descriptor for every %s of the " \
        "property's domain" % (role, G.show(term)[:160], dom)
    # the terms are mathematical: they are what the C code computes only while no intermediate value can be truncated by
    # a store into a uint8_t local / parameter (the descriptor fields and the generator's parameters are uint8_t)
    for x in G.subterms(term):
        iv = G.interval(x, box)
        if not (iv[0] >= 0 and iv[1] <= 255):
            raise AnalysisError("%s: the intermediate value `%s` is in %s on the property's domain and may not survive a uint8_t "
                                "conversion; unclassifiable" % (what, G.show(x)[:60], G.ivtxt(iv)))
    log = []
    pruned = G.prune(term, box, None, None, log)
    if pruned in vs:
        L.ob("C07.R6", F_RFCH, "rfch_get_params", key, "a descriptor field",
             "%s (interval decision over the domain box: %s)" % (G.show(pruned), "; ".join(sorted(
                 {"%s is always %s" % (G.show(c)[:80], "true" if v else "false") for c, v in log})) or "normal form"), True, line)
        return pruned
    # exhaustive fold over the finite domain of the fields read
    k, differs = 0, {v: [] for v in vs}
    for combo in itertools.product(*[range(box[v][0], box[v][1] + 1) for v in vs]):
        env = dict(zip(vs, combo))
        got = eval_term(term, env)
        if got is None:
            raise AnalysisError("%s, which cannot be folded for %s; unclassifiable" % (
                what, ", ".join("%s = %d" % (roles[v], env[v]) for v in vs)))
        k += 1
        for v in vs:
            if got != env[v]:
                differs[v].append((env, got))
    same = [v for v in vs if not differs[v]]
    if same:
        v = own[0] if own and own[0] in same else same[0]
        L.ob("C07.R6", F_RFCH, "rfch_get_params", key, "a descriptor field",
             "equal to %s for all %d valuations of the domain (folded; complete)" % (G.show(v), k), True, line)
        return v
    if len(own) != 1:
        raise AnalysisError("%s for the parameter %s; unclassifiable" % (what, role))
    bad = differs[own[0]]
    for env, got in bad[:8]:
        w = _use_witness(rntable, role, {roles[v]: env[v] for v in vs}, got)
        if w is not None:
            L.ob("C07.R6", F_RFCH, "rfch_get_params",
                 "the %s handed to rfch_hop_seq_gen, computed as `%s`, is the descriptor's %s for every %s of the property's "
                 "domain" % (role, G.show(term)[:160], role, dom), G.show(own[0]),
                 "differs for %d of %d valuations of the domain, e.g. %s" % (len(bad), k, w), False, line)
            return None
    raise AnalysisError("%s, which differs from the descriptor's %s for %s but selects the same channel on every frame tried; "
                        "unclassifiable" % (what, role, ", ".join("%s = %d" % (roles[v], bad[0][0][v]) for v in vs)))


def r6_c_use(L, cs, rntable):
    # firmware: rfch_get_params hands its own time and the h1 parameters to the generator -- decided on the value stored
    # through the ARFCN output parameter, so the call may sit in rfch_get_params() itself or in a helper it calls
    tu = cs.tu
    g = tu.func("rfch_get_params")
    L.fn(F_RFCH, "rfch_get_params")
    gp = [p.get("name") for p in tu.fparams(g)]
    try:
        uses = _hop_uses_by_value(cs, g, gp)
        how = "forward substitution of rfch_get_params()"
    except AnalysisError as e:
        uses = _hop_uses_by_call_graph(cs, g, gp)
        how = "call sites reached from rfch_get_params() (%s)" % str(e)[:120]
    L.extra["generator_use"] = how
    L.floor("C07.R6", "rfch_hop_seq_gen calls that determine the ARFCN returned by rfch_get_params", len(uses), 1)
    plain = re.compile(r"(&|addr\()?[A-Za-z_][\w.\[\]>-]*\)?( in \w+\(\))?$")
    for args, line, terms in uses:
        roles = ["hsn", "maio", "n", "ma"]
        if terms is not None and len(terms) == 5:
            # computed arguments are decided over the property's finite domain of the descriptor fields they read
            args, violated = list(args), False
            for i, role in enumerate(USE_ROLES, 1):
                if terms[i][0] != "v":
                    v = settle_use_argument(L, cs, role, terms[i], line, rntable)
                    if v is None:
                        violated = True
                    else:
                        args[i] = G.show(v)
            if violated:
                continue
        odd = [a for a in args if not plain.match(a)]
        if terms is None:
            # call sites read as written (no forward substitution): a bare local / parameter name says nothing about
            # the value it holds
            odd += [a for a in args[1:] if re.match(r"[A-Za-z_]\w*$", a)]
        if odd:
            # an argument that is computed (masked, converted, selected) is not one of the recognised wrong shapes
            raise AnalysisError("rfch_get_params(): rfch_hop_seq_gen is handed `%s`; unclassifiable" % odd[0][:80])
        pre = {a[:-len(r) - 1] for a, r in zip(args[1:], roles) if a.endswith("." + r) or a.endswith("->" + r)}
        ok = len(args) == 5 and bool(gp) and args[0] == gp[0] and len(pre) == 1 and all(
            a.endswith("." + r) or a.endswith("->" + r) for a, r in zip(args[1:], roles))
        L.ob("C07.R6", F_RFCH, "rfch_get_params",
             "rfch_hop_seq_gen is called with the caller's GSM time and the (hsn, maio, n, ma) of one hopping descriptor",
             "(%s, X.hsn, X.maio, X.n, X.ma)" % (gp[0] if gp else "t"), args, ok, line)
    try:
        flds = dict(tu.record_fields("l1s_h1"))
    except AnalysisError:
        raise AnalysisError("struct l1s_h1 vanished from layer1/sync.h")
    L.ob("C07.R6", F_SYNC_H, "struct l1s_h1", "the firmware's mobile allocation holds the 64 channels of the property's domain",
         ">= 64", flds.get("ma"), (array_extent(flds.get("ma")) or 0) >= 64)


# ------------------------------------------------------------------------------
# R6 (split): a hopping channel description reaches the generator for every descriptor of the property's domain

SPLIT_FOLD_CAP = 300000           # valuations of (channel type, descriptor fields read, other objects) one fold may visit
SPLIT_OTHER_VALUES = (0, 1, 2)    # values tried for objects the split reads that are neither the flag nor the descriptor
HOPPING_FLAG = 1                  # the value of l1ctl's `h` for a hopping channel description (RR Channel Description, H = 1)


def _enumerators(tu):
    """name -> (value, id of its enum) of every enumerator declared anywhere in the translation unit (enums nested in a
    struct included: TU.enums lists the file-level ones only)"""
    out = {}
    for n in walk(tu.ast):
        if kind(n) != "EnumDecl":
            continue
        val = -1
        for c in kids(n):
            if kind(c) != "EnumConstantDecl":
                continue
            ks = [x for x in kids(c) if kind(x) not in ("", None) and not (kind(x) or "").endswith("Attr")]
            v = tu.fold(ks[0]) if ks else None
            val = v if v is not None else val + 1
            out.setdefault(c.get("name"), (val, n.get("id")))
    return out


def _shares_union(tu, a, b):
    """members named a and b are alternatives of one union declared in the translation unit"""
    for n in walk(tu.ast):
        if kind(n) == "RecordDecl" and n.get("tagUsed") == "union":
            names = {c.get("name") for c in kids(n) if kind(c) == "FieldDecl"}
            if a in names and b in names:
                return True
    return False


def _split_leaf(t, env):
    """the arm a conditional term selects under a valuation: (leaf, conditions taken as [(cond, value)]) or (None, cond)
    when a condition does not fold"""
    taken = []
    while t[0] == "ite":
        c = eval_term(t[1], env)
        if c is None:
            return None, t[1]
        taken.append((t[1], bool(c)))
        t = t[2] if c else t[3]
    return t, taken


def r6_c_split(L, cs, rntable):
    """C07.R6 (hopping / non-hopping split), firmware clause "for every ... mobile allocation of 1..64 channels ... the
    selected channel is MA[MAI]" at the observation point rfch_get_params(time) -> ARFCN with a hopping dedicated channel
    configured: whenever the channel description says hopping (the flag `h` stored next to the descriptor is set, a
    dedicated channel is established, the caller asks for the ARFCN) the value stored through the ARFCN output parameter
    is computed from the hopping generator's result -- for EVERY descriptor of the property's domain (HSN, MAIO in 0..63,
    N in 1..64), N = 1 included.  Decided by folding, not from the way the test is written: rfch_get_params() is
    forward-substituted (helpers substituted, the generator's call kept as an opaque term), the conditions on the way to
    the stored value are folded by the checker's own arithmetic for each valuation of the descriptor fields they read,
    each established channel type and the hopping flag set, and the arm reached must contain the generator's call.  A
    valuation of the domain that reaches another arm (e.g. N = 1 sent to the non-hopping branch, which reads the h0 view of
    the union the descriptor is stored in) is an input on which the firmware does not tune to MA[MAI]: VIOLATION with
    that valuation.  Conditions over other objects (a remembered result) are tried on a few values: a descriptor that
    reaches the generator for none of them gives no verdict (ANALYSIS-ERROR), never a violation."""
    tu = cs.tu
    g = tu.func("rfch_get_params")
    L.fn(F_RFCH, "rfch_get_params")
    gp = [p.get("name") for p in tu.fparams(g)]
    if len(gp) < 2:
        raise AnalysisError("rfch_get_params(): expected (t, arfcn_p, ...)")
    note = L.extra.setdefault("hopping_split", {})
    val = None
    for mk in (lambda: _UseSym(tu, cs.HOP), lambda: _UseStructSym(tu, cs.HOP)):
        try:
            sym = mk()
            val = sym.final(sym.run(g), "*%s" % gp[1])
            break
        except AnalysisError as e:
            note["status"] = "skipped: rfch_get_params() is not forward-substituted (%s)" % str(e)[:120]
    if val is None:
        return
    note.pop("status", None)
    gen_calls = [x for x in G.subterms(val) if x[0] == "call" and x[1] == cs.HOP]
    if not gen_calls:
        return          # (R6 use: the floor on generator calls reports this)
    is_gen = lambda t: any(x[0] == "call" and x[1] == cs.HOP for x in G.subterms(t))
    # the descriptor the generator is handed: <X>.h1.{hsn, maio, n}; the flag stored next to it: <X>.h
    descs = set()
    for c in gen_calls:
        for a in c[3:6]:
            for v in variables(a):
                if _field_role(v[1]):
                    descs.add(re.sub(r"(\.|->)(hsn|maio|n)$", "", v[1]))
    if len(descs) != 1:
        raise AnalysisError("rfch_get_params(): the generator is handed fields of %d objects (%s); unclassifiable" % (
            len(descs), ", ".join(sorted(descs))[:80]))
    desc = descs.pop()
    owner = re.sub(r"(\.|->)+\w+$", "", desc)
    member = re.split(r"\.|->", desc)[-1]
    flag = V(owner + ".h")
    chan = V(owner + ".type")
    enums = _enumerators(tu)
    # the conditions on the way to any arm
    conds = set()

    def collect(t):
        if t[0] == "ite":
            conds.add(t[1])
            collect(t[2])
            collect(t[3])
    collect(val)
    cvars = set()
    for c in conds:
        cvars |= variables(c)
    fixed, domain, other = {V(gp[1]): 1, flag: HOPPING_FLAG}, {}, []
    none_enum = None
    for v in sorted(cvars, key=repr):
        if v in fixed:
            continue
        if v[1] in enums:
            fixed[v] = enums[v[1]][0]
            continue
        if v == chan:
            continue
        r = _field_role(v[1])
        if r is not None and v[1].startswith(desc):
            domain[v] = range(USE_DOMAIN[r][0], USE_DOMAIN[r][1] + 1)
            continue
        other.append(v)
    if chan in cvars:
        # every established channel type: the enumerators of the type's enum but the one that means "no dedicated channel"
        ids = {enums[v[1]][1] for v in cvars if v[1] in enums}
        cmpd = [v for v in cvars if v[1] in enums]
        if len(ids) != 1 or not cmpd:
            raise AnalysisError("rfch_get_params(): `%s` is tested in a way that is not a comparison with enumerators of one enum; "
                                "unclassifiable" % _disp(chan[1]))
        eid = ids.pop()
        none_enum = [n for n, (val_, i) in enums.items() if i == eid and n.endswith("_NONE")]
        if len(none_enum) != 1:
            raise AnalysisError("rfch_get_params(): the enum of `%s` has no single `..._NONE` enumerator; unclassifiable" % _disp(chan[1]))
        types = sorted({val_ for n, (val_, i) in enums.items() if i == eid and n != none_enum[0]} - {enums[none_enum[0]][0]})
        if not types:
            raise AnalysisError("rfch_get_params(): no channel type besides %s; unclassifiable" % none_enum[0])
    else:
        types = [None]
    if len(other) > 4:
        raise AnalysisError("rfch_get_params(): the ARFCN stored depends on %d objects besides the channel type, the hopping flag "
                            "and the descriptor (%s ...); unclassifiable" % (len(other), ", ".join(_disp(v[1]) for v in other[:3])))
    dvars = sorted(domain, key=repr)
    size = len(types) * (len(SPLIT_OTHER_VALUES) ** len(other))
    for v in dvars:
        size *= len(domain[v])
    if size > SPLIT_FOLD_CAP and len(types) > 2:
        types = [types[0], types[-1]]
        size = size // max(1, len(types)) * 2
    if size > SPLIT_FOLD_CAP:
        raise AnalysisError("rfch_get_params(): the split reads %s; %d valuations exceed the fold; unclassifiable" % (
            ", ".join(_disp(v[1]) for v in dvars + other)[:120], size))
    k, bad, undecided, unfolded = 0, [], [], None
    for combo in itertools.product(*[domain[v] for v in dvars]):
        for ty in types:
            env0 = dict(fixed)
            env0.update(zip(dvars, combo))
            if ty is not None:
                env0[chan] = ty
            reached, miss = False, None
            for oc in itertools.product(SPLIT_OTHER_VALUES, repeat=len(other)):
                env = dict(env0)
                env.update(zip(other, oc))
                k += 1
                leaf, taken = _split_leaf(val, env)
                if leaf is None:
                    unfolded = taken
                    continue
                if is_gen(leaf):
                    reached = True
                    break
                if miss is None:
                    miss = (leaf, taken)
            if reached:
                continue
            if miss is None:
                continue
            (bad if not other else undecided).append((dict(zip(dvars, combo)), ty, miss))
    if unfolded is not None and not bad:
        raise AnalysisError("rfch_get_params(): the condition `%s` on the way to the ARFCN stored cannot be folded; unclassifiable" % (
            _disp(G.show(unfolded))[:120]))
    dom = ", ".join("%s in %d..%d" % ((_field_role(v[1]),) + USE_DOMAIN[_field_role(v[1])]) for v in dvars) or \
        "no descriptor field is read by the split"
    key = "rfch_get_params(): with a hopping channel description (`%s` set, a dedicated channel established, ARFCN asked for) the " \
          "ARFCN stored is computed from the result of %s() for every descriptor of the property's domain (HSN, MAIO in 0..63, " \
          "N in 1..64)" % (_disp(flag[1]), cs.HOP)
    want = "the generator's result on every valuation"
    note.update({"valuations_folded": k, "descriptor_fields_read": [_disp(v[1]) for v in dvars],
                 "other_objects_read": [_disp(v[1]) for v in other], "channel_types": [t for t in types if t is not None]})
    if bad:
        envb, ty, (leaf, taken) = bad[0]
        last = [c for c, pol in taken if variables(c) & (set(dvars) | {flag})]
        cond = last[-1] if last else taken[-1][0]
        pol = dict((c, p) for c, p in taken)[cond]
        alias = ""
        lv = [v[1] for v in variables(leaf)]
        for x in lv:
            if x.startswith(owner):
                m2 = re.split(r"\.|->", x[len(owner):].lstrip(".->"))[0]
                if m2 != member and _shares_union(tu, m2, member):
                    alias = "; `%s` is the %s view of the union the descriptor %s is stored in (sync.h): its bytes are the " \
                            "descriptor's hsn / maio, not a channel" % (_disp(x), m2, member)
        L.ob("C07.R6", F_RFCH, "rfch_get_params", key, want,
             "%s%s: `%s` is stored, not the generator's result (the test `%s` is %s there)%s; %d of %d valuations folded (%s) miss "
             "the generator" % (", ".join("%s = %d" % (_field_role(v[1]).upper() if _field_role(v[1]) != "n" else "N", envb[v])
                                          for v in dvars) or "every descriptor",
                                "" if ty is None else " (channel type %d)" % ty, _disp(G.show(leaf))[:80],
                                _disp(G.show(cond))[:120], "true" if pol else "false", alias, len(bad), k, dom), False, tu.line(g))
        return
    if undecided:
        envb, ty, (leaf, taken) = undecided[0]
        raise AnalysisError("rfch_get_params(): for %s the generator's result is stored for none of the tried values of %s; "
                            "unclassifiable" % (", ".join("%s = %d" % (_disp(v[1]), envb[v]) for v in dvars) or "a hopping channel",
                                                ", ".join(_disp(v[1]) for v in other)))
    L.ob("C07.R6", F_RFCH, "rfch_get_params", key, want,
         "the generator's result on all %d valuations folded (%s; channel types %s%s)" % (
             k, dom, ", ".join(str(t) for t in types if t is not None) or "not read",
             "; reached for some tried value of %s" % ", ".join(_disp(v[1]) for v in other) if other else ""), True, tu.line(g))
    L.floor("C07.R6", "valuations of the hopping split folded", k, 1)


# ------------------------------------------------------------------------------
# R9: the entry the generator selected reaches the caller of rfch_get_params() unchanged

GEN_RESULT = V("<MA[MAI]>")
ARFCN_FLAG_NAMES = ((0x8000, "ARFCN_PCS"), (0x4000, "ARFCN_UPLINK"))     # osmocom/gsm/gsm_utils.h
CARRY_FREE_VALUES = (1, 2)          # valuations of other state the stored value reads: tried only to refute


def arfcn_encodings():
    """every value a Mobile Allocation entry holds for a channel: ARFCN 0..1023 with any combination of the band /
    direction flags of the 16-bit ARFCN encoding (bits 15 and 14)"""
    for f in (0, 0x4000, 0x8000, 0xc000):
        for a in range(1024):
            yield f | a


def _arfcn_txt(e):
    fl = [n for b, n in ARFCN_FLAG_NAMES if e & b]
    return "0x%04x (ARFCN %d%s)" % (e, e & 0x3ff, "".join(" | " + n for n in fl))


def _depends_on_result(t):
    return any(x == GEN_RESULT for x in G.subterms(t))


def _carried_arms(t, conds=()):
    """(path conditions, sub-term) of the maximal sub-terms of a conditional term that depend on the generator's result,
    reached through conditionals whose conditions do not depend on it"""
    if t[0] == "ite" and not _depends_on_result(t[1]):
        for pol, arm in ((True, t[2]), (False, t[3])):
            if _depends_on_result(arm):
                for x in _carried_arms(arm, conds + ((t[1], pol),)):
                    yield x
    elif _depends_on_result(t):
        yield conds, t


def _cast_call(name, args):
    m = re.match(r"cast:(\d+)([su])$", name)
    if m is None or len(args) != 1:
        return None
    return _c_convert(args[0], int(m.group(1)), m.group(2) == "s")


def _reached_leaf(t, env):
    """the operand whose value a conditional term takes under a valuation (conversions looked through)"""
    while True:
        if t[0] == "ite":
            c = eval_term(t[1], env, _cast_call)
            if c is None:
                return t
            t = t[2] if c else t[3]
        elif t[0] == "call" and t[1].startswith(CAST):
            t = t[2]
        else:
            return t


def r9_c_carriage(L, cs):
    """C07.R9 decides a necessary condition of the firmware clause "the selected channel is MA[MAI]" at the observation
    point rfch_get_params(time) -> ARFCN: what rfch_get_params() stores through its ARFCN output parameter on a path that
    uses the generator's result is that result -- the Mobile Allocation entry MA[MAI] (R3) -- for EVERY value an entry can
    hold: ARFCN 0..1023 with the band / direction flags ARFCN_PCS (0x8000) and ARFCN_UPLINK (0x4000) of the 16-bit
    encoding.  Decided from the types clang resolved and by folding, not from the way it is written: the whole of
    rfch_get_params() (helpers substituted, temporaries resolved) is forward-substituted with every integer conversion
    applied to the generator's value kept (the return type of rfch_hop_seq_gen, the types of locals, parameters, operators
    and of the output parameter); the value stored, as a function of the selected entry, is folded by the checker's own
    arithmetic for each of the 4096 encodings (finite, exhaustive) and must equal the entry.  An entry for which another
    value is stored -- e.g. one with bit 15 set that is negative as a signed 16-bit result and is then taken for an error code
    -- is an input of the property's domain on which the firmware does not tune to MA[MAI] (and differs from the simulator):
    VIOLATION with that entry.  A stored value the folder cannot evaluate, or one that depends on other state without
    differing from the entry on the tried valuations, gives no verdict."""
    tu = cs.tu
    g = tu.func("rfch_get_params")
    L.fn(F_RFCH, "rfch_get_params")
    gp = [p.get("name") for p in tu.fparams(g)]
    if len(gp) < 2:
        raise AnalysisError("rfch_get_params(): expected (t, arfcn_p, ...)")
    gen_params = tu.fparams(cs.f)
    ety = _c_int_type(re.sub(r"[*\[].*$", "", gen_params[4].get("type", {}).get("qualType", "")).strip())
    if ety is None or ety[0] < 16:
        raise AnalysisError("%s(): the Mobile Allocation is handed over as `%s`; entries of 16 bits expected; unclassifiable" % (
            cs.HOP, gen_params[4].get("type", {}).get("qualType", "?")))
    rty_txt = cs.f.get("type", {}).get("qualType", "").split("(")[0].strip()
    sym = _UseSym(tu, cs.HOP, typed=True)
    out = sym.run(g)
    val = sym.final(out, "*%s" % gp[1])
    # one generator: its calls (whatever arguments, judged by R6) stand for the entry it selected
    val = G.renorm(val, lambda t: GEN_RESULT if t[0] == "call" and t[1] == cs.HOP else None)
    arms = list(_carried_arms(val))
    L.floor("C07.R9", "paths of rfch_get_params() that store a value computed from the generator's result", len(arms), 1)
    encs = list(arfcn_encodings())
    prefer = [0x8000 | 512, 0x4000 | 512, 0xc000 | 512, 512, 1, 1023]
    for i, (conds, post) in enumerate(arms):
        free = sorted((v for v in variables(post) if v != GEN_RESULT), key=repr)
        bad, k, unfolded, undecided = {}, 0, [], []
        for e in encs:
            ent = _c_convert(e, *ety)
            k += 1
            # first without any other state: a value the fold reaches this way does not depend on it
            got = eval_term(post, {GEN_RESULT: ent}, _cast_call)
            if got is not None:
                if got != ent:
                    bad[e] = (got, {GEN_RESULT: ent})
                continue
            if not free:
                unfolded.append(e)
                continue
            for fv in CARRY_FREE_VALUES:
                env = {v: fv for v in free}
                env[GEN_RESULT] = ent
                got = eval_term(post, env, _cast_call)
                if got is None:
                    unfolded.append(e)
                    break
                if got != ent:
                    bad[e] = (got, env)
                    break
            else:
                undecided.append(e)
        if unfolded and not bad:
            # (an entry on which another value is stored is a counterexample whatever happens for the entries that leave the
            # folder's arithmetic)
            raise AnalysisError("rfch_get_params(): the value `%s` stored through *%s cannot be folded for the Mobile "
                                "Allocation entry %s; unclassifiable" % (_disp(G.show(post))[:160], gp[1], _arfcn_txt(unfolded[0])))
        key = "rfch_get_params(): the ARFCN stored through the output parameter on a path that uses the result of %s() is the " \
            "Mobile Allocation entry it selected, for every 16-bit entry value (ARFCN 0..1023 with ARFCN_PCS / ARFCN_UPLINK)%s" % (
                cs.HOP, "" if len(arms) == 1 else " [path %d: %s]" % (
                    i + 1, " and ".join(G.show(G.truth(c if p else ("not", c)))[:60] for c, p in conds) or "always"))
        want = "the selected entry, for all %d encodings" % len(encs)
        if bad:
            e = ([x for x in prefer if x in bad] or sorted(bad))[0]
            got, env = bad[e]
            leaf = _reached_leaf(post, env)
            rty = _c_int_type(rty_txt)
            raw = _c_convert(env[GEN_RESULT], *rty) if rty else env[GEN_RESULT]
            what = "`%s` (= 0x%04x in this fold) is stored instead" % (_disp(G.show(leaf))[:80], got & 0xffff) \
                if leaf != GEN_RESULT else "0x%04x is stored" % (got & 0xffff)
            common = [n for b, n in ARFCN_FLAG_NAMES if all(x & b for x in bad)]
            L.ob("C07.R9", F_RFCH, "rfch_get_params", key, want,
                 "entry %s: %s() returns it as `%s` (value %d) and %s -- stored value `%s`; differs for %d of %d "
                 "encodings%s%s" % (_arfcn_txt(e), cs.HOP, rty_txt, raw, what, _disp(G.show(post))[:240], len(bad), len(encs),
                                    " (every one of them carries %s)" % " and ".join(common) if common else "",
                                    "; %d more leave the folder's arithmetic" % len(set(unfolded)) if unfolded else ""),
                 False, tu.line(g))
            continue
        if undecided:
            raise AnalysisError("rfch_get_params(): for the entry %s the value `%s` stored through *%s depends on %s besides the "
                                "generator's result and equals the entry on the valuations tried; unclassifiable" % (
                                    _arfcn_txt(undecided[0]), _disp(G.show(post))[:160], gp[1], ", ".join(_disp(v[1]) for v in free[:3])))
        L.ob("C07.R9", F_RFCH, "rfch_get_params", key, want,
             "equal for all %d encodings (stored value `%s`, %s() returns `%s`; exhaustive fold)" % (
                 len(encs), _disp(G.show(post))[:200], cs.HOP, rty_txt), True, tu.line(g))
    L.extra["arfcn_carriage"] = {"encodings_folded": len(encs), "paths": len(arms), "generator_return_type": rty_txt}


# ------------------------------------------------------------------------------
# R8: who writes the hopping descriptor that rfch_get_params() hands to the generator

DESC = "l1s_h1"                    # struct l1s_h1 { hsn, maio, n, ma[64] } (layer1/sync.h)
COPY_FUNCS = ("memcpy", "memmove", "__builtin_memcpy", "__builtin_memmove")
FW_LAYER1 = "src/target/firmware/layer1"
DESC_N_DOMAIN = (1, 64)            # the property's domain of N


def _qt(n):
    t = (n or {}).get("type", {})
    return t.get("desugaredQualType") or t.get("qualType") or ""


def _bare(qt):
    return " ".join(w for w in qt.replace("*", " * ").split() if w not in ("const", "volatile"))


def _is_desc(qt):
    return _bare(qt) == "struct %s" % DESC


def _is_desc_ptr(qt):
    return _bare(qt) == "struct %s *" % DESC


def _pointee_const(qt):
    return "const" in (qt or "").split("*")[0].split()


class _Site:
    """what one function does to one hopping descriptor object"""

    def __init__(self, obj):
        self.obj = obj
        self.whole = []        # (node, size expression | None): struct assignment / memcpy(&D, ...)
        self.fields = {}       # scalar field -> [(assignment node, rhs | None)]
        self.elems = []        # (assignment node, index expression, rhs): D.ma[i] = ...
        self.macopies = []     # (call node, size expression): memcpy(D.ma, ...)
        self.delegated = []    # (call node, callee): &D handed to a function of the same file taking struct l1s_h1 *

    def writes(self):
        return bool(self.whole or self.fields or self.elems or self.macopies)


class _DescScan:
    """Every use of an object of type struct l1s_h1 (and of pointers to one) in one function, classified by the AST
    context of the use -- resolved through clang's types, never through names: reads, stores of a scalar field, stores
    of ma[] elements, whole-object copies, copies into ma[], delegation to a helper of the same file, and anything else
    (address taken, handed to a function that may write it): `escapes`, which make the function unclassifiable."""

    def __init__(self, tu, f):
        self.tu, self.f = tu, f
        self.sites = {}
        self.escapes = []
        self.array_fields = {n for n, qt in tu.record_fields(DESC) if array_extent(qt) is not None}
        for n in walk(tu.body(f)):
            k = kind(n)
            if k == "MemberExpr":
                base = strip(kids(n)[0]) if kids(n) else None
                if base is None:
                    continue
                if n.get("isArrow") and _is_desc_ptr(_qt(base)):
                    self._field(n, "*" + ctext(base))
                elif not n.get("isArrow") and _is_desc(_qt(base)):
                    self._field(n, ctext(base))
            if k in ("MemberExpr", "DeclRefExpr", "ArraySubscriptExpr", "UnaryOperator") and _is_desc(_qt(n)) \
                    and n.get("valueCategory") == "lvalue" and not (k == "UnaryOperator" and n.get("opcode") != "*"):
                self._whole(n)
            if k == "DeclRefExpr" and _is_desc_ptr(_qt(n)):
                self._pointer(n)

    def site(self, obj):
        return self.sites.setdefault(obj, _Site(obj))

    def _up(self, n):
        """(parent, child below it) of n, parentheses skipped"""
        p = self.tu.parent.get(id(n))
        while p is not None and kind(p) == "ParenExpr":
            n, p = p, self.tu.parent.get(id(p))
        return p, n

    def _unevaluated(self, n):
        cur = self.tu.parent.get(id(n))
        while cur is not None and kind(cur) != "FunctionDecl":
            if kind(cur) == "UnaryExprOrTypeTraitExpr":
                return True
            cur = self.tu.parent.get(id(cur))
        return False

    def _escape(self, n, what):
        self.escapes.append("%s (line %s)" % (what, self.tu.line(n)))

    def _lvalue_use(self, n, obj, text, on_store):
        """n: an lvalue (scalar field / array element); its parent decides: read, store, or something else"""
        p, child = self._up(n)
        k = kind(p)
        if k == "ImplicitCastExpr" and p.get("castKind") == "LValueToRValue":
            return
        if k == "BinaryOperator" and p.get("opcode") == "=" and kids(p)[0] is child:
            on_store(p, kids(p)[1])
        elif k == "CompoundAssignOperator" and kids(p)[0] is child:
            on_store(p, None)
        elif k == "UnaryOperator" and p.get("opcode") in ("++", "--"):
            on_store(p, None)
        else:
            self._escape(n, "`%s` is used as operand of %s%s" % (text, k, " " + p.get("opcode") if p.get("opcode") else ""))

    def _field(self, fa, obj):
        if self._unevaluated(fa):
            return
        name = fa.get("name")
        text = ctext(fa)
        if name not in self.array_fields:
            self._lvalue_use(fa, obj, text, lambda node, rhs: self.site(obj).fields.setdefault(name, []).append((node, rhs)))
            return
        p, child = self._up(fa)
        if kind(p) == "ImplicitCastExpr" and p.get("castKind") == "ArrayToPointerDecay":
            q, ch = self._up(p)
            if kind(q) == "ArraySubscriptExpr" and kids(q)[0] is ch:
                self._elem(q, obj)
            else:
                self._pointer_use(p, obj, name)
        elif kind(p) == "UnaryOperator" and p.get("opcode") == "&":
            self._pointer_use(p, obj, name)
        else:
            self._escape(fa, "`%s` is used as operand of %s" % (text, kind(p)))

    def _elem(self, ase, obj):
        p, child = self._up(ase)
        if kind(p) == "UnaryOperator" and p.get("opcode") == "&":
            if self.tu.fold(kids(ase)[1]) == 0:
                self._pointer_use(p, obj, "ma")
            else:
                self._escape(ase, "address of `%s` taken" % ctext(ase))
            return
        idx = kids(ase)[1]
        self._lvalue_use(ase, obj, ctext(ase), lambda node, rhs: self.site(obj).elems.append((node, idx, rhs)) if rhs is not None
                         else self._escape(ase, "`%s` is updated in place" % ctext(ase)))

    def _whole(self, x):
        if self._unevaluated(x):
            return
        p, child = self._up(x)
        k = kind(p)
        if k == "MemberExpr" and not p.get("isArrow"):
            return                                  # a field access: _field
        if k == "ImplicitCastExpr" and p.get("castKind") == "LValueToRValue":
            return                                  # the value of the whole object is read
        if k == "BinaryOperator" and p.get("opcode") == "=" and kids(p)[0] is child:
            self.site(ctext(x)).whole.append((p, None))
        elif k == "UnaryOperator" and p.get("opcode") == "&":
            self._pointer_use(p, ctext(x), None)
        else:
            self._escape(x, "`%s` is used as operand of %s" % (ctext(x), k))

    def _pointer(self, ref):
        """a variable of type struct l1s_h1 *: `p->f` is handled as a field access of `*p`; the pointer handed to a
        copy function is a copy into `*p`; tests of the pointer are reads"""
        if self._unevaluated(ref):
            return
        p, child = self._up(ref)
        if not (kind(p) == "ImplicitCastExpr" and p.get("castKind") == "LValueToRValue"):
            return                                  # the pointer variable itself is assigned / declared
        q, ch = self._up(p)
        while q is not None and kind(q) in ("ImplicitCastExpr", "CStyleCastExpr", "ParenExpr") and q.get("castKind") != "PointerToBoolean":
            ch, q = q, self.tu.parent.get(id(q))
        if kind(q) == "CallExpr" and kids(q)[0] is not ch:
            self._pointer_use(p, "*" + ctext(ref), None)

    def _pointer_use(self, ptr, obj, field):
        """ptr: a pointer to the descriptor `obj` (field None) or to its array `field`; where does it go?"""
        cur, p = ptr, self.tu.parent.get(id(ptr))
        while p is not None and kind(p) in ("ImplicitCastExpr", "CStyleCastExpr", "ParenExpr"):
            cur, p = p, self.tu.parent.get(id(p))
        what = "`%s%s`" % (obj, "." + field if field else "")
        if not (kind(p) == "CallExpr" and kids(p)[0] is not cur):
            self._escape(ptr, "a pointer to %s is taken" % what)
            return
        i = [j for j, a in enumerate(kids(p)) if a is cur][0] - 1
        name = ctext(kids(p)[0])
        args = kids(p)[1:]
        if name in COPY_FUNCS and len(args) == 3:
            if i == 0:
                (self.site(obj).macopies if field else self.site(obj).whole).append((p, args[2]))
            elif i != 1:
                self._escape(ptr, "%s is the size argument of %s()" % (what, name))
            return
        callee = self.tu.functions.get(name)
        ps = self.tu.fparams(callee) if callee is not None else []
        pt = ps[i].get("type", {}).get("qualType", "") if i < len(ps) else None
        has_body = callee is not None and any(kind(c) == "CompoundStmt" for c in kids(callee))
        if pt is not None and "*" in pt and _pointee_const(pt):
            return
        if field is None and has_body and pt is not None and _is_desc_ptr(pt):
            self.site(obj).delegated.append((p, name))
            return
        if has_body and pt is not None and "*" in pt and _param_readonly(self.tu, callee, ps[i]):
            return
        self._escape(ptr, "%s is handed to %s(), which may write it" % (what, name))


def _param_readonly(tu, f, param):
    """the function only reads through its pointer parameter: every use is `p[i]` / `*p` as an rvalue or a test of p"""
    pid = param.get("id")
    for n in walk(tu.body(f)):
        if kind(n) != "DeclRefExpr" or n.get("referencedDecl", {}).get("id") != pid:
            continue
        p = tu.parent.get(id(n))
        if not (kind(p) == "ImplicitCastExpr" and p.get("castKind") == "LValueToRValue"):
            return False
        child, q = p, tu.parent.get(id(p))
        while q is not None and kind(q) == "ParenExpr":
            child, q = q, tu.parent.get(id(q))
        k = kind(q)
        if k == "ArraySubscriptExpr" and kids(q)[0] is child or k == "UnaryOperator" and q.get("opcode") == "*":
            r = tu.parent.get(id(q))
            while r is not None and kind(r) == "ParenExpr":
                r = tu.parent.get(id(r))
            if kind(r) == "ImplicitCastExpr" and r.get("castKind") == "LValueToRValue":
                continue
            return False
        if k == "ImplicitCastExpr" and q.get("castKind") == "PointerToBoolean":
            continue
        if k in ("ConditionalOperator", "IfStmt", "WhileStmt") and kids(q)[0] is child:
            continue
        if k == "UnaryOperator" and q.get("opcode") == "!":
            continue
        if k == "BinaryOperator" and q.get("opcode") in ("==", "!=", "&&", "||"):
            continue
        return False
    return True


def _copy_loop(tu, f, store, idx):
    """the `for` loop around an element store `D.ma[i] = ...`: (ForStmt, bound expression, 1 when the bound is inclusive,
    constant first index) when it is `for (i = s; i < B; i++)` (or `<=`, `!=`; `i += 1`; the variable declared in the loop or before) whose body
    executes the store once per iteration (no break / continue / return / goto, the counter written by the increment
    only, the store not under a condition).  AnalysisError otherwise: the number of entries copied is then not known."""
    where = "%s(): the store `%s`" % (f.get("name"), ctext(kids(store)[0]))
    iv = strip(idx)
    if kind(iv) != "DeclRefExpr":
        raise AnalysisError("%s is not indexed by a loop counter; unclassifiable" % where)
    vid = iv.get("referencedDecl", {}).get("id")
    cur = tu.parent.get(id(store))
    while cur is not None and kind(cur) == "CompoundStmt":
        cur = tu.parent.get(id(cur))
    if cur is None or kind(cur) != "ForStmt":
        raise AnalysisError("%s is not the unconditional body of a for loop; unclassifiable" % where)
    inner = cur["inner"]
    init, cond, inc, body = inner[0], inner[2], inner[3], inner[4]

    def is_var(n):
        n = strip(n)
        return kind(n) == "DeclRefExpr" and n.get("referencedDecl", {}).get("id") == vid
    start = None
    if init and kind(init) == "DeclStmt":
        for d in kids(init):
            if kind(d) == "VarDecl" and d.get("id") == vid and kids(d):
                start = tu.fold(kids(d)[-1])
    elif init and kind(strip(init)) == "BinaryOperator" and strip(init).get("opcode") == "=" and is_var(kids(strip(init))[0]):
        start = tu.fold(kids(strip(init))[1])
    if start is None or start < 0:
        raise AnalysisError("%s: the loop does not start its counter at a constant; unclassifiable" % where)
    c = strip(cond) if cond else None
    if c is None or kind(c) != "BinaryOperator" or c.get("opcode") not in ("<", "<=", "!=", ">", ">="):
        raise AnalysisError("%s: loop condition `%s` is unclassifiable" % (where, ctext(cond) if cond else ""))
    op, (a, b) = c.get("opcode"), kids(c)
    if is_var(b) and not is_var(a):
        a, b, op = b, a, {"<": ">", ">": "<", "<=": ">=", ">=": "<=", "!=": "!="}[op]
    if not is_var(a) or op not in ("<", "<=", "!="):
        raise AnalysisError("%s: loop condition `%s` is unclassifiable" % (where, ctext(cond)))
    i = strip(inc) if inc else None
    step = False
    if i is not None and kind(i) == "UnaryOperator" and i.get("opcode") == "++":
        step = is_var(kids(i)[0])
    elif i is not None and kind(i) == "CompoundAssignOperator" and i.get("opcode") == "+=":
        step = is_var(kids(i)[0]) and tu.fold(kids(i)[1]) == 1
    elif i is not None and kind(i) == "BinaryOperator" and i.get("opcode") == "=" and is_var(kids(i)[0]):
        r = strip(kids(i)[1])
        step = kind(r) == "BinaryOperator" and r.get("opcode") == "+" and (
            (is_var(kids(r)[0]) and tu.fold(kids(r)[1]) == 1) or (is_var(kids(r)[1]) and tu.fold(kids(r)[0]) == 1))
    if not step:
        raise AnalysisError("%s: the loop does not advance its counter by 1; unclassifiable" % where)
    for n in walk(body):
        k = kind(n)
        if k in ("BreakStmt", "ContinueStmt", "ReturnStmt", "GotoStmt"):
            raise AnalysisError("%s: the loop body leaves the loop early (%s); unclassifiable" % (where, k))
        if (k in ("BinaryOperator", "CompoundAssignOperator") and (k != "BinaryOperator" or n.get("opcode") == "=")
                or k == "UnaryOperator" and n.get("opcode") in ("++", "--", "&")) and is_var(kids(n)[0]):
            raise AnalysisError("%s: the loop body writes its counter; unclassifiable" % where)
    return cur, b, 1 if op == "<=" else 0, start


def _stored_texts(tu, f):
    """canonical text of every lvalue the function assigns (assignment, compound assignment, ++/--, destination of a
    copy function)"""
    out = set()
    for n in walk(tu.body(f)):
        k = kind(n)
        if (k == "BinaryOperator" and n.get("opcode") == "=") or k == "CompoundAssignOperator" or \
                (k == "UnaryOperator" and n.get("opcode") in ("++", "--")):
            out.add(ctext(kids(n)[0]))
        elif k == "CallExpr" and ctext(kids(n)[0]) in COPY_FUNCS and len(kids(n)) > 1:
            d = strip(kids(n)[1], True)
            out.add(ctext(kids(d)[0]) if kind(d) == "UnaryOperator" and d.get("opcode") == "&" else ctext(d))
    return out


def _overlaps(sym, stored):
    for t in stored:
        for a, b in ((sym, t), (t, sym)):
            if a == b or a.startswith(b + ".") or a.startswith(b + "->") or a.startswith(b + "["):
                return t
    return None


def _symbol_types(tu, exprs, loc):
    """canonical text -> C type of the lvalues read by the expressions (through initialised-once temporaries)"""
    out, todo, seen = {}, list(exprs), set()
    while todo:
        e = todo.pop()
        for n in walk(e):
            if kind(n) in ("DeclRefExpr", "MemberExpr"):
                out.setdefault(ctext(n), _qt(n).replace("const ", "").strip())
                d = loc.get(n.get("referencedDecl", {}).get("id")) if kind(n) == "DeclRefExpr" else None
                if d is not None and id(d) not in seen:
                    seen.add(id(d))
                    todo.append(kids(d)[-1])
    return out


def _desc_layout(tu):
    """(size of struct l1s_h1, offset of each field, size of each field) with natural alignment of its integer members"""
    off, offs, sizes, align = 0, {}, {}, 1
    rec = tu.records.get(DESC)
    if rec is not None and any(kind(c) == "FieldDecl" and c.get("isBitfield") for c in kids(rec)):
        # bit-field members: the byte machine's placement (every bit-field alone in its bytes), or no layout at all
        bm = _ByteMachine(tu)
        size, _a, fields = bm.layout(rec)
        if size is None or any(o is None or d is None for o, d, _n in fields.values()):
            raise AnalysisError("struct %s: bit-field members that share bytes; the layout is unclassifiable" % DESC)
        return size, {n: o for o, d, n in fields.values()}, {n: bm.sizeof(d)[0] for o, d, n in fields.values()}
    for name, qt in tu.record_fields(DESC):
        sz = type_size(qt)
        el = type_size(re.sub(r"\s*\[\d+\]", "", qt or ""))
        if sz is None or el is None:
            raise AnalysisError("struct %s: member `%s` of type %s; the layout is unclassifiable" % (DESC, name, qt))
        off = (off + el - 1) // el * el
        offs[name], sizes[name] = off, sz
        off += sz
        align = max(align, el)
    return (off + align - 1) // align * align, offs, sizes


def _callees(tu, f):
    return {ctext(kids(c)[0]) for c in walk(tu.body(f)) if kind(c) == "CallExpr"}


def _decide_count(K, Nn, types, prev):
    """Is the number of ma[] entries copied (term K) at least the n stored (term Nn) whenever that n is a Mobile
    Allocation length of the property's domain (1..64)?  Equal normal forms close it.  Otherwise both terms are folded
    for every valuation of the (at most two, 8-bit) fields they read -- a finite domain, complete.  Returns (True, text)
    or (False, witness text); AnalysisError when the terms read more than that or leave the folder's arithmetic."""
    if K == Nn:
        return True, "the number of entries copied is the n stored: %s" % _disp(G.show(K))
    vs = sorted(variables(K) | variables(Nn), key=repr)
    if G.heads(K) & {"call", "idx", "post", "loop"} or G.heads(Nn) & {"call", "idx", "post", "loop"}:
        raise AnalysisError("the count `%s` / the n stored `%s` is computed by a call or read from a table" % (G.show(K)[:60], G.show(Nn)[:60]))
    box = []
    for v in vs:
        r = G._CINT.get(types.get(v[1], ""))
        if r is None or r[1] - r[0] > 255:
            raise AnalysisError("`%s` of type `%s` has no small finite domain" % (v[1], types.get(v[1], "?")))
        box.append(range(r[0], r[1] + 1))
    if len(vs) > 2:
        raise AnalysisError("the count and the n stored read %d different values" % len(vs))
    best, k = None, 0
    for combo in itertools.product(*box):
        env = dict(zip(vs, combo))
        kv, nv = eval_term(K, env), eval_term(Nn, env)
        if kv is None or nv is None:
            raise AnalysisError("the count `%s` / the n stored `%s` cannot be folded for %s" % (
                G.show(K)[:60], G.show(Nn)[:60], ", ".join("%s = %d" % (v[1], env[v]) for v in vs)))
        k += 1
        if DESC_N_DOMAIN[0] <= nv <= DESC_N_DOMAIN[1] and kv < nv and (best is None or (nv, kv) < best[:2]):
            best = (nv, kv, env)
    if best is None:
        return True, "at least the n stored for every one of %d valuations of %s (count %s, n %s)" % (
            k, ", ".join(_disp(v[1]) for v in vs) or "constants", _disp(G.show(K)), _disp(G.show(Nn)))
    nv, kv, env = best
    return False, "%s: n = %d is stored but only %d of the %d entries of the Mobile Allocation are copied (ma[%d..%d] keep stale " \
        "ARFCNs; MAI can be any of 0..%d)" % (", ".join("%s = %d" % (_disp(v[1]), env[v]) for v in vs) or "always", nv, max(kv, 0), nv,
                                             max(kv, 0), nv - 1, nv - 1)


def _disp(text):
    """members of an anonymous union print as `dedicated..h1` / `req->.h1`"""
    return text.replace("..", ".").replace("->.", "->")


def _desc_site(L, tu, file, f, g, site, scan, writers):
    """obligations of one (function, descriptor object) pair; see r8_descriptor_writers"""
    fname = f.get("name")
    obj = _disp(site.obj)
    line = tu.line(f)
    key = "hopping descriptor `%s` written in %s(): the write installs a complete descriptor (whole-struct copy, or hsn, maio, " \
        "n and at least n entries of ma[] for the n stored)" % (obj, fname)
    want = "whole struct l1s_h1, or hsn + maio + n + ma[0..n-1]"
    size, offs, sizes = _desc_layout(tu)
    ext = array_extent(dict(tu.record_fields(DESC)).get("ma")) or 0
    fieldwise = bool(site.fields or site.elems or site.macopies)
    if site.delegated and (site.writes() or len(site.delegated) > 1):
        raise AnalysisError("%s(): `%s` is written here and handed to %s(); unclassifiable" % (fname, obj, site.delegated[0][1]))
    if site.delegated:
        return 0
    if site.whole and fieldwise or len(site.whole) > 1:
        raise AnalysisError("%s(): `%s` is copied as a whole and written field by field / twice; unclassifiable" % (fname, obj))
    loc = G.single_def_locals(tu, f)
    lower = lambda e: G.euclid(G.renorm(G._LocLower(tu, loc).lower(e)))
    if site.whole:
        node, sz = site.whole[0]
        if sz is None:
            L.ob("C07.R8", file, fname, key, want, "struct assignment", True, tu.line(node))
            return 1
        s = strip(sz)
        if kind(s) == "UnaryExprOrTypeTraitExpr" and s.get("name") == "sizeof" and _is_desc(sizeof_operand_type(s) or ""):
            L.ob("C07.R8", file, fname, key, want, "copy of sizeof(struct %s) bytes" % DESC, True, tu.line(node))
            return 1
        def fold_size(n):
            n = strip(n)
            v = tu.fold(n)
            if v is not None:
                return v
            if kind(n) == "UnaryExprOrTypeTraitExpr" and n.get("name") == "sizeof" and _is_desc(sizeof_operand_type(n) or ""):
                return size
            if kind(n) == "BinaryOperator" and n.get("opcode") in ("+", "-", "*", "/"):
                a, b = (fold_size(x) for x in kids(n))
                if a is None or b is None or (n.get("opcode") == "/" and b <= 0):
                    return None
                return {"+": a + b, "-": a - b, "*": a * b, "/": a // b if b > 0 and a >= 0 else None}[n.get("opcode")]
            return None
        v = fold_size(sz)
        if v is None:
            raise AnalysisError("%s(): `%s` is copied with the size `%s`; unclassifiable" % (fname, obj, ctext(sz)[:60]))
        n_end = offs.get("n", 0) + sizes.get("n", 1)
        covered = max(0, min(ext, (v - offs.get("ma", 0)) // max(1, sizes.get("ma", 2) // max(ext, 1)))) if v >= n_end else None
        if v >= size or (covered is not None and covered >= ext):
            L.ob("C07.R8", file, fname, key, want, "copy of %d bytes (struct %s has %d)" % (v, DESC, size), True, tu.line(node))
            return 1
        if covered is None:
            raise AnalysisError("%s(): `%s` is copied with %d bytes, which does not reach the field n; unclassifiable" % (fname, obj, v))
        L.ob("C07.R8", file, fname, key, want,
             "copy of %d bytes: n is taken over but only ma[0..%d]: for n = %d the entries ma[%d..%d] keep stale ARFCNs" % (
                 v, covered - 1, covered + 1, covered, covered), False, tu.line(node))
        return 1
    # field by field
    nst = site.fields.get("n", [])
    copies = len(site.macopies) + (1 if site.elems else 0)
    split = sorted((_reach_callees(tu, f) & writers) - {fname})
    if len(nst) != 1 or nst[0][1] is None or copies > 1 or (not nst and copies):
        raise AnalysisError("%s(): `%s` has %d stores of n and %d copies into ma[]; unclassifiable" % (fname, obj, len(nst), copies))
    A = g.node_of(nst[0][0])
    stored = ["n"] + sorted(k for k in site.fields if k != "n") + (["ma[]"] if copies else [])
    missing = [k for k in ("hsn", "maio") if k not in site.fields] + ([] if copies else ["ma[]"])
    if missing:
        if split:
            raise AnalysisError("%s(): `%s` gets %s here and %s() of the same file writes a descriptor too; a sequence split over "
                                "functions is unclassifiable" % (fname, obj, stored, split[0]))
        L.ob("C07.R8", file, fname, key, want, "n is stored (`%s`) but not %s: the descriptor keeps the previous %s" % (
            _disp(ctext(nst[0][1]))[:60], " / ".join(missing), " / ".join(missing)), False, tu.line(nst[0][0]))
        return 1
    # the branch edges every path to a node takes; leaving an earlier loop is not a condition of what follows it
    gset = lambda node: {(c.id, repr(l)) for c, l in g.guards(node)
                         if not (kind(c.ast) in ("ForStmt", "WhileStmt", "DoStmt") and not l)}
    if site.elems:
        loops = {id(_copy_loop(tu, f, st, idx)[0]) for st, idx, _ in site.elems}
        if len(loops) != 1:
            raise AnalysisError("%s(): ma[] of `%s` is stored in %d loops; unclassifiable" % (fname, obj, len(loops)))
        loop, bound, plus, start = _copy_loop(tu, f, site.elems[0][0], site.elems[0][1])
        B, cexpr, cline = g.node_of(loop), bound, tu.line(loop)
        if start > 0:
            # n >= 1 for every Mobile Allocation of the domain and MAI ranges over 0..n-1: ma[0] is needed
            L.ob("C07.R8", file, fname, key, want, "%s stored; ma[] by a loop that starts at index %d: ma[0..%d] are never copied" % (
                ", ".join(stored), start, start - 1), False, cline)
            return 1
        K = lower(bound) if not plus else X.add(lower(bound), C(1))
        how = "loop over i < %s" % ctext(bound) if not plus else "loop over i <= %s" % ctext(bound)
    else:
        call, sz = site.macopies[0]
        B, cexpr, cline = g.node_of(call), sz, tu.line(call)
        el = max(1, sizes.get("ma", 2) // max(ext, 1))
        K = G.euclid(G.div_(lower(sz), C(el)))
        how = "copy of `%s` bytes" % ctext(sz)
    for fld in ("hsn", "maio"):
        for node, _ in site.fields[fld]:
            if gset(g.node_of(node)) != gset(A):
                raise AnalysisError("%s(): `%s.%s` and `%s.n` are stored under different conditions; unclassifiable" % (fname, obj, fld, obj))
    if gset(B) != gset(A):
        raise AnalysisError("%s(): ma[] of `%s` is copied under other conditions than n is stored; unclassifiable" % (fname, obj))
    Nn = lower(nst[0][1])
    ntext = ctext(kids(nst[0][0])[0])
    types = _symbol_types(tu, [cexpr, nst[0][1]], loc)
    prev = V("previous " + ntext)
    order = None
    if V(ntext) in variables(K) | variables(Nn):
        types[prev[1]] = types.get(ntext, "uint8_t")
        if g.dominates(A, B) and A.id != B.id:
            K = G.euclid(G.renorm(K, lambda t: Nn if t == V(ntext) else None))
            order = "read after the store of n"
        elif g.reachable(B, A) and not g.reachable(A, B):
            K = G.renorm(K, lambda t: prev if t == V(ntext) else None)
            order = "read BEFORE the new n is stored"
        else:
            raise AnalysisError("%s(): the copy into ma[] of `%s` reads `%s`, stored on some paths before and on others after it; "
                                "unclassifiable" % (fname, obj, ntext))
        Nn = G.renorm(Nn, lambda t: prev if t == V(ntext) else None)
    st = _stored_texts(tu, f)
    for v in sorted(variables(K) | variables(Nn), key=repr):
        if v == prev:
            continue
        t = _overlaps(v[1], st - {ntext})
        if t is not None:
            raise AnalysisError("%s(): `%s`, which sizes the copy into ma[] of `%s` / is stored as n, is itself written (`%s`) in the "
                                "function; unclassifiable" % (fname, v[1], obj, t))
    try:
        ok, txt = _decide_count(K, Nn, types, prev)
    except AnalysisError as e:
        raise AnalysisError("%s(): hopping descriptor `%s`: %s; unclassifiable" % (fname, obj, e))
    L.ob("C07.R8", file, fname, key, want, "%s stored; ma[] by %s%s -- %s" % (
        ", ".join(stored), _disp(how), " (`%s` %s)" % (_disp(ntext), order) if order else "", txt), ok, cline)
    return 1


def _reach_callees(tu, f):
    """names of the functions defined in this file that f reaches through calls"""
    defined = {n: d for n, d in tu.functions.items() if any(kind(c) == "CompoundStmt" for c in kids(d))}
    seen, todo = set(), [f]
    while todo:
        for n in _callees(tu, todo.pop()):
            if n in defined and n not in seen:
                seen.add(n)
                todo.append(defined[n])
    return seen


def r8_descriptor_writers(L, tier):
    """C07.R8 decides a necessary condition of the firmware clause "the selected channel is MA[MAI] ... for the same
    inputs": rfch_get_params() takes hsn, maio, n and ma[] from a struct l1s_h1 (l1s.dedicated.h1), so the channel
    selected is the standard's for the *configured* parameters only if every site that writes such a descriptor -- the
    live one and the one staged for a starting time -- installs a complete one: the whole struct, or hsn, maio and n
    together with at least n entries of ma[] for the n it stores (an n taken over with fewer entries leaves
    ma[copied..n-1] stale, and MAI ranges over 0..n-1).  Who-writes scan of the firmware layer1 translation units that
    name a member of that type: every use of such an object is classified through clang's types and AST context
    (_DescScan); per function and object the stores are related by dominance in the CFG and by folded terms: the
    number of entries copied (loop bound / copy size over the element size) against the value stored in n, a read of
    the destination's own n being the *previous* n when the copy runs before the store.  Differing terms are folded
    for every valuation of the 8-bit fields they read (complete); a valuation of the property's domain (n in 1..64)
    with fewer entries copied than n is the violation, reported with it.  Anything the scan cannot classify (pointer
    escapes, a sequence split over functions, several stores) is ANALYSIS-ERROR, never a violation."""
    d = os.path.join(L.repo, FW_LAYER1)
    try:
        names = sorted(x for x in os.listdir(d) if x.endswith(".c"))
    except OSError as e:
        raise AnalysisError("firmware layer1 directory unreadable: %s" % e)
    head = _layer1_tu(L, "rfch.c")
    members = {DESC}
    for rec in head.records.values():
        for c in walk(rec):
            if kind(c) == "FieldDecl" and _is_desc(_qt(c)):
                members.add(c.get("name"))
    L.unit(F_SYNC_H)
    pat = re.compile(r"\b(%s)\b" % "|".join(re.escape(m) for m in sorted(members)))
    nsites, nfiles, seen = 0, 0, set()
    for name in names:
        try:
            with open(os.path.join(d, name), errors="replace") as fh:
                src = fh.read()
        except OSError as e:
            raise AnalysisError("%s unreadable: %s" % (name, e))
        # which translation units to parse (tier quick): only a file that names a member of the descriptor type (or
        # the type) can touch one without a pointer handed to it -- and pointers are followed from where they are taken
        named = bool(pat.search(strip_comments(src)))
        if tier != "thorough" and not named:
            continue
        try:
            tu = _layer1_tu(L, name)
        except AnalysisError as e:
            if named:
                raise
            L.extra.setdefault("descriptor_writer_scan_unparsed", []).append("%s: %s" % (name, str(e)[:120]))
            continue
        if DESC not in tu.records:
            if named:
                raise AnalysisError("%s names a hopping descriptor but struct %s is not declared there" % (name, DESC))
            continue                                # the type is not visible: no object of it can be touched
        nfiles += 1
        file = "%s/%s" % (FW_LAYER1, name)
        scans = {}
        for fn, fd in sorted(tu.functions.items()):
            if not any(kind(c) == "CompoundStmt" for c in kids(fd)):
                continue
            where = (fd.get("_file") or "", fn)
            sc = _DescScan(tu, fd)
            if sc.sites or sc.escapes:
                scans[fn] = (fd, sc, where)
        writers = {fn for fn, (fd, sc, _) in scans.items() if any(s.writes() for s in sc.sites.values())}
        for fn, (fd, sc, where) in sorted(scans.items()):
            if where in seen:
                continue                            # an inline function of a header, met in an earlier file
            seen.add(where)
            if sc.escapes:
                raise AnalysisError("%s(): hopping descriptor: %s; unclassifiable" % (fn, "; ".join(sc.escapes[:2])))
            if not any(s.writes() or s.delegated for s in sc.sites.values()):
                continue
            L.fn(file, fn)
            g = CCFG(tu, fd)
            for obj in sorted(sc.sites):
                nsites += _desc_site(L, tu, file, fd, g, sc.sites[obj], sc, writers)
    L.extra["descriptor_writer_scan"] = {"translation_units": nfiles, "sites": nsites, "members": sorted(members)}
    L.floor("C07.R8", "sites that write a hopping descriptor (struct l1s_h1) in firmware layer1", nsites, 2)


# ------------------------------------------------------------------------------
# R11: the take-over of the pending channel description at the starting time, folded over a byte memory

_BM_INT = {"char": (1, True), "signed char": (1, True), "unsigned char": (1, False), "_Bool": (1, False), "uint8_t": (1, False),
           "int8_t": (1, True), "short": (2, True), "unsigned short": (2, False), "uint16_t": (2, False), "int16_t": (2, True),
           "int": (4, True), "unsigned int": (4, False), "uint32_t": (4, False), "int32_t": (4, True), "long": (4, True),
           "unsigned long": (4, False), "size_t": (4, False), "long long": (8, True), "unsigned long long": (8, False),
           "uint64_t": (8, False), "int64_t": (8, True)}


def fn_returns_void(f):
    qt = (f or {}).get("type", {}).get("qualType", "")
    return f is None or qt.split("(")[0].strip() == "void"


class _Flow(Exception):
    def __init__(self, what, value=None):
        self.what, self.value = what, value


class _DivisionByZero(AnalysisError):
    def __init__(self, msg, expr):
        AnalysisError.__init__(self, msg)
        self.expr = expr


def bitfield_width(tu, fd):
    """width of a bit-field FieldDecl, by value (clang: the width is the ConstantExpr child of the declaration); None when
    it does not fold"""
    ws = [w for w in (tu.fold(c) for c in kids(fd) if kind(c).endswith(("Expr", "Literal", "Operator"))) if isinstance(w, int)]
    return ws[0] if len(ws) == 1 and ws[0] >= 0 else None


class _ByteMachine:
    """Concrete evaluation of a small C function over a byte memory (constant folding of ONE point of a finite scenario
    space): objects are regions of little-endian bytes laid out with natural alignment of their integer members (the
    assumption C07.R8 makes), members of a union share their bytes, memcpy / struct assignment / member stores move bytes.
    A byte nobody defined, a value that is not determined, a call whose effect on the memory is not known, goto, asm,
    switch: AnalysisError -- the machine never guesses."""

    def __init__(self, tu, background=None, max_steps=200000):
        self.tu = tu
        self.mem = {}                   # (region, offset) -> int 0..255 | pointer tuple | ('cont',)
        self.background = background    # (region, offset) -> int | None for a byte never written
        self.layouts = {}
        self.frames = [0]
        self.nframes = 0
        self.steps, self.max_steps = 0, max_steps
        self.depth = 0
        self.locals = {}
        self.member_bases = {}          # id(RecordDecl) -> {(region, offset)} of the objects of that record accessed
        self.max_depth = 4
        self.boot = False               # True: the run is the first after start-up (block-scope statics hold their initialiser)
        self.extern = None              # (name, integer arguments) -> value | None of a function defined in another file
        self.poison = False             # True: the undetermined result of an external call may be stored (the bytes become unreadable)

    # -- types ---------------------------------------------------------------
    def tdesc(self, t, owner=None):
        """type descriptor of a clang `type` dict: ('int', size, signed) | ('ptr', pointee text) | ('arr', elem, n) |
        ('rec', RecordDecl) | None; `owner` = (parent record, index of the FieldDecl) resolves an unnamed record type to the
        RecordDecl declared right before the field"""
        qt = (t or {}).get("desugaredQualType") or (t or {}).get("qualType") or ""
        return self._tdesc(" ".join(w for w in qt.split() if w not in ("const", "volatile")), (t or {}).get("qualType") or "", owner)

    def _tdesc(self, qt, sugar, owner):
        m = re.fullmatch(r"(.*?)\s*\[(\d+)\]((?:\[\d+\])*)", qt)
        if m:
            el = self._tdesc((m.group(1) + m.group(3)).strip(), "", owner)
            return ("arr", el, int(m.group(2))) if el is not None else None
        if qt.endswith("*") or "(*)" in qt:
            return ("ptr", qt[:-1].strip())
        if qt in _BM_INT:
            return ("int",) + _BM_INT[qt]
        s = " ".join(w for w in sugar.split() if w not in ("const", "volatile"))
        if s in _BM_INT:
            return ("int",) + _BM_INT[s]
        if qt.startswith("enum "):
            return ("int", 4, False)
        m = re.fullmatch(r"(struct|union) (\w+)", qt)
        if m:
            r = self.tu.records.get(m.group(2))
            return ("rec", r) if r is not None and kids(r) else None
        if re.match(r"(struct|union)\b", qt) and owner is not None:
            sibs = kids(owner[0])
            for j in range(owner[1] - 1, -1, -1):
                if kind(sibs[j]) == "RecordDecl":
                    return ("rec", sibs[j])
                if kind(sibs[j]) == "FieldDecl":
                    break
        return None

    def sizeof(self, d):
        if d is None:
            return None, 1
        if d[0] == "int":
            return d[1], d[1]
        if d[0] == "ptr":
            return 4, 4
        if d[0] == "arr":
            s, a = self.sizeof(d[1])
            return (None if s is None else s * d[2]), a
        size, align, _ = self.layout(d[1])
        return size, align

    def layout(self, rec):
        """(size | None, alignment, {FieldDecl id: (offset | None, descriptor, name)}); an offset is None behind a member
        whose size is not known (such a member is a memory region of its own)"""
        if id(rec) in self.layouts:
            return self.layouts[id(rec)]
        self.layouts[id(rec)] = (None, 1, {})        # a record containing itself by value does not exist; pointers are scalars
        union = rec.get("tagUsed") == "union"
        off, align, size, fields = 0, 1, 0, {}
        bits = self._bitfields(rec)
        bit = 0                                  # bit cursor inside the run of bit-fields that ends at byte `off`
        for i, c in enumerate(kids(rec)):
            if kind(c) != "FieldDecl":
                continue
            d = None if c.get("isBitfield") else self.tdesc(c.get("type"), (rec, i))
            if c.get("isBitfield") and bits is not None and off is not None and not union:
                # System V / AAPCS placement: at the next bit unless the member would straddle a storage unit of its
                # declared type; the machine models a bit-field that starts a byte and shares its bytes with no other
                # member (loads / stores see `width` bits), any other one stays an object of unknown size
                unit, signed, width = bits[c.get("id")]
                start = bit if bit else off * 8
                if width == 0 or start // (8 * unit) != (start + width - 1) // (8 * unit):
                    start = (start + 8 * unit - 1) // (8 * unit) * (8 * unit)
                if width:
                    fields[c.get("id")] = (start, width, unit, signed, c.get("name"))
                bit = start + width
                off = (bit + 7) // 8
                size, align = off, max(align, unit)
                continue
            bit = 0
            s, a = self.sizeof(d)
            if s is None or off is None:
                fields[c.get("id")] = (None, d, c.get("name"))
                off = off if union else None
                size = None
                continue
            if union:
                fields[c.get("id")] = (0, d, c.get("name"))
                size = None if size is None else max(size, s)
            else:
                off = (off + a - 1) // a * a
                fields[c.get("id")] = (off, d, c.get("name"))
                off += s
                size = off
            align = max(align, a)
        placed = [(k, v) for k, v in fields.items() if len(v) == 5]
        for k, (start, width, unit, signed, name) in placed:
            mine = set(range(start // 8, (start + width + 7) // 8))
            shared = any(k2 != k and mine & set(range(v[0] // 8, (v[0] + v[1] + 7) // 8)) for k2, v in placed)
            if start % 8 == 0 and not shared and size is not None:
                fields[k] = (start // 8, ("int", len(mine), signed, width), name)
            else:
                fields[k] = (None, None, name)
                size = None
        if size is not None:
            size = (size + align - 1) // align * align
        self.layouts[id(rec)] = (size, align, fields)
        return self.layouts[id(rec)]

    def _bitfields(self, rec):
        """{FieldDecl id: (bytes of the declared type, signed, width)} of the bit-field members of a record; None when one
        of them has a type or a width the machine cannot fold"""
        out = {}
        for i, c in enumerate(kids(rec)):
            if kind(c) == "FieldDecl" and c.get("isBitfield"):
                d = self.tdesc(c.get("type"), (rec, i))
                w = bitfield_width(self.tu, c)
                if d is None or d[0] != "int" or w is None or w > 8 * d[1]:
                    return None
                out[c.get("id")] = (d[1], d[2], w)
        return out

    def flat_fields(self, rec, base=0):
        """{member name: (offset, descriptor)} of a record, the members of anonymous struct / union members included"""
        out = {}
        for fid, (off, d, name) in self.layout(rec)[2].items():
            if off is None:
                continue
            if name:
                out[name] = (base + off, d)
            elif d is not None and d[0] == "rec":
                out.update(self.flat_fields(d[1], base + off))
        return out

    # -- memory --------------------------------------------------------------
    def _byte(self, region, off):
        v = self.mem.get((region, off))
        if v is None and self.background is not None:
            v = self.background(region, off)
        if v is None:
            raise AnalysisError("byte machine: `%s` + %d is read but was never defined; unclassifiable" % (region, off))
        return v

    def load(self, a):
        region, off, d = a
        if d is None:
            raise AnalysisError("byte machine: an object of a type without known size is read; unclassifiable")
        if d[0] == "ptr":
            v = self._byte(region, off)
            if isinstance(v, tuple) and v[0] == "undef":
                raise AnalysisError("byte machine: a pointer that is not determined is read; unclassifiable")
            if isinstance(v, tuple) and v[0] != "cont":
                return v
            bs = [self._byte(region, off + i) for i in range(4)]
            if all(isinstance(b, int) and b == 0 for b in bs):
                return 0
            raise AnalysisError("byte machine: a pointer is read from bytes that do not hold one; unclassifiable")
        if d[0] == "int":
            bs = [self._byte(region, off + i) for i in range(d[1])]
            if not all(isinstance(b, int) for b in bs):
                raise AnalysisError("byte machine: an integer is read from the bytes of a pointer; unclassifiable")
            v = sum(b << (8 * i) for i, b in enumerate(bs))
            w = d[3] if len(d) > 3 else 8 * d[1]           # a bit-field holds `w` bits (padding bits are not part of the value)
            v &= (1 << w) - 1
            return v - (1 << w) if d[2] and v >= 1 << (w - 1) else v
        size = self.sizeof(d)[0]
        if size is None:
            raise AnalysisError("byte machine: an object of unknown size is read; unclassifiable")
        return ("agg", [self._byte(region, off + i) for i in range(size)])

    def store(self, a, v):
        region, off, d = a
        if isinstance(v, tuple) and v[0] == "agg":
            for i, b in enumerate(v[1]):
                self.mem[(region, off + i)] = b
            return
        if v is None and self.poison and d is not None and d[0] in ("int", "ptr"):
            for i in range(4 if d[0] == "ptr" else d[1]):
                self.mem[(region, off + i)] = ("undef",)        # reading it back is an error, not a guess
            return
        if v is None:
            raise AnalysisError("byte machine: a value that is not determined is stored; unclassifiable")
        if d is None or d[0] not in ("int", "ptr"):
            raise AnalysisError("byte machine: scalar store into an object that is not a scalar; unclassifiable")
        if isinstance(v, tuple):
            if d[0] != "ptr":
                raise AnalysisError("byte machine: a pointer is stored into an integer; unclassifiable")
            self.mem[(region, off)] = v
            for i in range(1, 4):
                self.mem[(region, off + i)] = ("cont",)
            return
        size = 4 if d[0] == "ptr" else d[1]
        if d[0] == "int" and len(d) > 3:
            v &= (1 << d[3]) - 1                           # the store into a bit-field keeps its low `width` bits
        for i in range(size):
            self.mem[(region, off + i)] = (v >> (8 * i)) & 0xFF

    def copy(self, dst, src, n):
        if not (isinstance(dst, tuple) and dst[0] == "p" and isinstance(src, tuple) and src[0] == "p" and isinstance(n, int)):
            raise AnalysisError("byte machine: copy with operands that are not determined; unclassifiable")
        if n < 0 or n > 1 << 16:
            raise AnalysisError("byte machine: copy of %d bytes; unclassifiable" % n)
        data = [self._byte(src[1], src[2] + i) for i in range(n)]
        for i, b in enumerate(data):
            self.mem[(dst[1], dst[2] + i)] = b

    # -- expressions ---------------------------------------------------------
    def _wrap(self, v, n):
        d = self.tdesc(n.get("type"))
        if isinstance(v, int) and d is not None and d[0] == "int":
            v &= (1 << (8 * d[1])) - 1
            if d[2] and v >= 1 << (8 * d[1] - 1):
                v -= 1 << (8 * d[1])
        return v

    def _var_region(self, ref):
        rd = ref.get("referencedDecl", {})
        name = rd.get("name")
        key = ("local", rd.get("id"))
        fr = self.frames[-1]
        if (key, fr) in self.locals:
            return "%s#%d" % (name, fr), self.locals[(key, fr)]
        if (key, "static") in self.locals:
            return "%s#static" % name, self.locals[(key, "static")]
        if name in self.tu.vars:
            return name, self.tdesc(self.tu.vars[name].get("type"))
        raise AnalysisError("byte machine: `%s` is not a variable of the function or of the file; unclassifiable" % name)

    def addr(self, n):
        n = strip(n)
        k = kind(n)
        if k == "DeclRefExpr":
            region, d = self._var_region(n)
            return (region, 0, d)
        if k == "MemberExpr":
            b = kids(n)[0]
            if n.get("isArrow"):
                p = self.eval(b)
                if not (isinstance(p, tuple) and p[0] == "p"):
                    raise AnalysisError("byte machine: `%s` through a pointer that is not determined; unclassifiable" % ctext(n)[:60])
                region, off, d = p[1], p[2], p[3]
            else:
                region, off, d = self.addr(b)
            if d is None or d[0] != "rec":
                raise AnalysisError("byte machine: member `%s` of an object whose record type is not known; unclassifiable" % ctext(n)[:60])
            self.member_bases.setdefault(id(d[1]), set()).add((region, off))
            f = self.layout(d[1])[2].get(n.get("referencedMemberDecl"))
            if f is None:
                raise AnalysisError("byte machine: member `%s` is not declared in its record; unclassifiable" % ctext(n)[:60])
            if f[0] is None:
                return ("%s+%d.%s" % (region, off, f[2] or n.get("referencedMemberDecl")), 0, f[1])
            return (region, off + f[0], f[1])
        if k == "ArraySubscriptExpr":
            p, i = self.eval(kids(n)[0]), self.eval(kids(n)[1])
            if isinstance(p, int) and isinstance(i, tuple):
                p, i = i, p
            return self._deref(self._padd(p, i), n)
        if k == "UnaryOperator" and n.get("opcode") == "*":
            return self._deref(self.eval(kids(n)[0]), n)
        raise AnalysisError("byte machine: `%s` (%s) as an object is outside the vocabulary" % (ctext(n)[:60], k))

    def _deref(self, p, n):
        if not (isinstance(p, tuple) and p[0] == "p"):
            raise AnalysisError("byte machine: `%s` through a pointer that is not determined; unclassifiable" % ctext(n)[:60])
        return (p[1], p[2], p[3])

    def _padd(self, p, i):
        if not (isinstance(p, tuple) and p[0] == "p" and isinstance(i, int)):
            raise AnalysisError("byte machine: pointer arithmetic on operands that are not determined; unclassifiable")
        s = self.sizeof(p[3])[0]
        if s is None:
            raise AnalysisError("byte machine: pointer arithmetic over an object of unknown size; unclassifiable")
        return ("p", p[1], p[2] + i * s, p[3])

    def static_desc(self, n):
        """descriptor of an lvalue expression without evaluating it (operand of sizeof)"""
        n = strip(n)
        k = kind(n)
        if k == "DeclRefExpr":
            return self._var_region(n)[1]
        if k == "MemberExpr":
            b = strip(kids(n)[0])
            d = self.static_desc(b)
            if n.get("isArrow"):
                d = self._pointee(b)
            if d is None or d[0] != "rec":
                return None
            f = self.layout(d[1])[2].get(n.get("referencedMemberDecl"))
            return f[1] if f else None
        if k == "ArraySubscriptExpr":
            d = self.static_desc(kids(n)[0])
            return d[1] if d is not None and d[0] == "arr" else None
        return None

    def _pointee(self, n):
        t = (n.get("type") or {})
        qt = t.get("desugaredQualType") or t.get("qualType") or ""
        return self._tdesc(" ".join(w for w in qt.rstrip().rstrip("*").split() if w not in ("const", "volatile")), "", None) \
            if qt.rstrip().endswith("*") else None

    def _int(self, v, n):
        if not isinstance(v, int):
            raise AnalysisError("byte machine: `%s` is not determined; unclassifiable" % ctext(n)[:60])
        return v

    def eval(self, n):
        self.steps += 1
        if self.steps > self.max_steps:
            raise AnalysisError("byte machine: step limit; unclassifiable")
        k = kind(n)
        ks = kids(n)
        if k in ("ParenExpr", "ConstantExpr"):
            return self.eval(ks[0])
        if k in ("IntegerLiteral", "CharacterLiteral"):
            return int(n["value"])
        if k == "StringLiteral":
            return ("s", n.get("value"))
        if k == "ImplicitCastExpr" or k == "CStyleCastExpr":
            ck = n.get("castKind")
            if ck == "LValueToRValue":
                return self.load(self.addr(ks[0]))
            if ck == "ArrayToPointerDecay":
                if kind(strip(ks[0])) == "StringLiteral":
                    return ("s", strip(ks[0]).get("value"))
                region, off, d = self.addr(ks[0])
                return ("p", region, off, d[1] if d is not None and d[0] == "arr" else None)
            if ck == "FunctionToPointerDecay":
                return ("f", ctext(ks[0]))
            if ck == "NullToPointer":
                return 0
            if ck in ("PointerToBoolean", "IntegralToBoolean"):
                v = self.eval(ks[0])
                return int(v != 0) if v is not None else None
            if ck == "ToVoid":
                self.eval(ks[0])
                return None
            v = self.eval(ks[0])
            if ck == "BitCast" and isinstance(v, tuple) and v[0] == "p":
                pd = self._pointee(n)
                return ("p", v[1], v[2], pd if pd is not None else v[3])
            if ck in ("IntegralCast", "NoOp", "BitCast"):
                return self._wrap(v, n)
            raise AnalysisError("byte machine: conversion %s is outside the vocabulary" % ck)
        if k == "DeclRefExpr":
            if n.get("referencedDecl", {}).get("kind") == "EnumConstantDecl":
                v = self.tu.fold(n)
                if v is None:               # an enumerator of an enum declared inside a struct (TU.enums lists file-level ones)
                    if getattr(self, "_enums", None) is None:
                        self._enums = _enumerators(self.tu)
                    v = self._enums.get(n["referencedDecl"].get("name"), (None,))[0]
                return v
            raise AnalysisError("byte machine: `%s` used as a value without conversion; unclassifiable" % ctext(n)[:40])
        if k == "UnaryExprOrTypeTraitExpr":
            if n.get("name") != "sizeof":
                raise AnalysisError("byte machine: %s is outside the vocabulary" % n.get("name"))
            d = self.tdesc(n.get("argType")) if "argType" in n else self.static_desc(ks[0])
            s = self.sizeof(d)[0]
            if s is None:
                s = self.tu.fold(n)
            if s is None:
                raise AnalysisError("byte machine: `%s` cannot be sized; unclassifiable" % ctext(n)[:60])
            return s
        if k == "UnaryOperator":
            op = n.get("opcode")
            if op == "&":
                region, off, d = self.addr(ks[0])
                return ("p", region, off, d)
            if op in ("++", "--"):
                a = self.addr(ks[0])
                cur = self.load(a)
                new = self._padd(cur, 1 if op == "++" else -1) if isinstance(cur, tuple) else \
                    self._wrap(self._int(cur, n) + (1 if op == "++" else -1), n)
                self.store(a, new)
                return cur if n.get("isPostfix") else new
            v = self.eval(ks[0])
            if op == "!":
                return int(v == 0) if v is not None else None
            v = self._int(v, n)
            return self._wrap({"-": -v, "+": v, "~": ~v}[op], n) if op in "-+~" else None
        if k == "BinaryOperator":
            op = n.get("opcode")
            if op == "=":
                a = self.addr(ks[0])
                v = self.eval(ks[1])
                self.store(a, v)
                return v
            if op == ",":
                self.eval(ks[0])
                return self.eval(ks[1])
            if op in ("&&", "||"):
                a = self.eval(ks[0])
                if a is None:
                    raise AnalysisError("byte machine: `%s` is not determined; unclassifiable" % ctext(ks[0])[:60])
                if (op == "&&") != bool(a != 0):
                    return int(a != 0)
                b = self.eval(ks[1])
                if b is None:
                    raise AnalysisError("byte machine: `%s` is not determined; unclassifiable" % ctext(ks[1])[:60])
                return int(b != 0)
            a, b = self.eval(ks[0]), self.eval(ks[1])
            return self._binop(op, a, b, n)
        if k == "CompoundAssignOperator":
            a = self.addr(ks[0])
            v = self._binop(n.get("opcode")[:-1], self.load(a), self.eval(ks[1]), n)
            d = a[2]
            if isinstance(v, int) and d is not None and d[0] == "int":
                v &= (1 << (8 * d[1])) - 1
                v = v - (1 << (8 * d[1])) if d[2] and v >= 1 << (8 * d[1] - 1) else v
            self.store(a, v)
            return v
        if k == "ConditionalOperator":
            c = self.eval(ks[0])
            if c is None:
                raise AnalysisError("byte machine: `%s` is not determined; unclassifiable" % ctext(ks[0])[:60])
            return self.eval(ks[1] if c != 0 else ks[2])
        if k == "CallExpr":
            return self.call(n)
        raise AnalysisError("byte machine: expression %s `%s` is outside the vocabulary" % (k, ctext(n)[:60]))

    def _binop(self, op, a, b, n):
        if isinstance(a, tuple) or isinstance(b, tuple):
            if op == "+":
                return self._padd(a, b) if isinstance(a, tuple) else self._padd(b, a)
            if op == "-" and isinstance(b, int):
                return self._padd(a, -b)
            if op in ("==", "!=") and (a == 0 or b == 0 or (a[0] == "p" and b[0] == "p")):
                return int((a == b) == (op == "=="))
            raise AnalysisError("byte machine: operator %s on a pointer; unclassifiable" % op)
        a, b = self._int(a, n), self._int(b, n)
        if op in ("/", "%"):
            if b == 0:
                # every operand is a determined value of this point of the scenario space: the function, run on this
                # state, divides by zero (a fact a rule may report; like any AnalysisError when nobody asks for it)
                raise _DivisionByZero("byte machine: division by zero; unclassifiable", ctext(n)[:80])
            q = abs(a) // abs(b) * (1 if (a < 0) == (b < 0) else -1)
            return self._wrap(q if op == "/" else a - b * q, n)
        if op in ("<<", ">>") and not 0 <= b < 64:
            raise AnalysisError("byte machine: shift by %d; unclassifiable" % b)
        f = {"+": lambda: a + b, "-": lambda: a - b, "*": lambda: a * b, "<<": lambda: a << b, ">>": lambda: a >> b,
             "&": lambda: a & b, "|": lambda: a | b, "^": lambda: a ^ b, "<": lambda: int(a < b), ">": lambda: int(a > b),
             "<=": lambda: int(a <= b), ">=": lambda: int(a >= b), "==": lambda: int(a == b), "!=": lambda: int(a != b)}.get(op)
        if f is None:
            raise AnalysisError("byte machine: operator %s is outside the vocabulary" % op)
        return self._wrap(f(), n)

    # -- calls and statements ------------------------------------------------
    def call(self, n):
        ks = kids(n)
        name = ctext(ks[0])
        if name == "__builtin_constant_p":
            return 0                    # either answer is allowed for an expression that is not a constant; nothing is evaluated
        args = [self.eval(a) for a in ks[1:]]
        if name in COPY_FUNCS and len(args) == 3:
            self.copy(args[0], args[1], args[2])
            return args[0]
        if name in ("memset", "__builtin_memset") and len(args) == 3:
            if not (isinstance(args[0], tuple) and args[0][0] == "p" and isinstance(args[1], int) and isinstance(args[2], int)
                    and 0 <= args[2] <= 1 << 16):
                raise AnalysisError("byte machine: memset with operands that are not determined; unclassifiable")
            for i in range(args[2]):
                self.mem[(args[0][1], args[0][2] + i)] = args[1] & 0xFF
            return args[0]
        f = self.tu.functions.get(name)
        if f is not None and any(kind(c) == "CompoundStmt" for c in kids(f)):
            return self.run(f, args)
        ps = self.tu.fparams(f) if f is not None else []
        if self.extern is not None and args and all(isinstance(v, int) for v in args) and not fn_returns_void(f):
            return self.extern(name, args)      # a value-only function of another file: folded there, or None (not determined)
        for i, v in enumerate(args):
            if isinstance(v, tuple) and v[0] == "p":
                pt = ps[i].get("type", {}).get("qualType", "") if i < len(ps) else ""
                if not ("*" in pt and _pointee_const(pt)):
                    raise AnalysisError("byte machine: %s() is handed a pointer into `%s` and may write it; unclassifiable" % (name, v[1]))
        return None                     # an external function: its value is not determined, the memory modelled is not its business

    def run(self, f, args=()):
        ps = self.tu.fparams(f)
        if len(ps) != len(args) or f.get("variadic") or self.depth >= self.max_depth:
            raise AnalysisError("byte machine: call of %s() cannot be bound; unclassifiable" % f.get("name"))
        self.nframes += 1
        fr = self.nframes
        self.frames.append(fr)
        self.depth += 1
        try:
            for p, v in zip(ps, args):
                d = self.tdesc(p.get("type"))
                self.locals[(("local", p.get("id")), fr)] = d
                if v is not None:
                    self.store(("%s#%d" % (p.get("name"), fr), 0, d), v)
            try:
                self.exec(self.tu.body(f))
            except _Flow as e:
                if e.what == "return":
                    return e.value
                raise AnalysisError("byte machine: `%s` outside a loop; unclassifiable" % e.what)
            return None
        finally:
            self.depth -= 1
            self.frames.pop()

    def _switch(self, st):
        """switch over a determined integer; the labels are statements of the switch's own block (a label inside a nested
        statement -- Duff's device -- and GNU case ranges are outside the vocabulary)"""
        inner = [c for c in st["inner"] if kind(c) is not None]
        body = inner[-1]
        v = self._int(self.eval(inner[-2]), inner[-2])
        if kind(body) != "CompoundStmt":
            raise AnalysisError("byte machine: switch without a block; unclassifiable")

        def deep(n, top):
            for c in kids(n):
                if kind(c) == "SwitchStmt":
                    continue
                if kind(c) in ("CaseStmt", "DefaultStmt") and not top:
                    raise AnalysisError("byte machine: case label inside a nested statement; unclassifiable")
                deep(c, top and kind(c) in ("CaseStmt", "DefaultStmt"))
        deep(body, True)
        stmts = kids(body)
        start = dflt = None
        for i, x in enumerate(stmts):
            while kind(x) in ("CaseStmt", "DefaultStmt"):
                xs = [c for c in kids(x) if kind(c) is not None]
                if kind(x) == "DefaultStmt":
                    dflt = i if dflt is None else dflt
                else:
                    if len(xs) != 2:
                        raise AnalysisError("byte machine: case range; unclassifiable")
                    cv = self.tu.fold(xs[0])
                    if cv is None:
                        raise AnalysisError("byte machine: case label `%s` does not fold; unclassifiable" % ctext(xs[0])[:40])
                    if cv == v and start is None:
                        start = i
                x = xs[-1]
        start = dflt if start is None else start
        if start is None:
            return
        try:
            for x in stmts[start:]:
                while kind(x) in ("CaseStmt", "DefaultStmt"):
                    x = [c for c in kids(x) if kind(c) is not None][-1]
                self.exec(x)
        except _Flow as e:
            if e.what != "break":
                raise

    def _cond(self, c):
        v = self.eval(c)
        if v is None:
            raise AnalysisError("byte machine: condition `%s` is not determined; unclassifiable" % ctext(c)[:60])
        return v != 0

    def exec(self, st):
        self.steps += 1
        if self.steps > self.max_steps:
            raise AnalysisError("byte machine: step limit; unclassifiable")
        k = kind(st)
        if k is None or k == "NullStmt":
            return
        if k == "CompoundStmt":
            for x in kids(st):
                self.exec(x)
        elif k == "DeclStmt":
            for d in kids(st):
                if kind(d) != "VarDecl":
                    continue
                if d.get("storageClass") == "static" and self.boot:
                    # first call after start-up: the object holds its initialiser (zero without one) when first reached
                    desc = self.tdesc(d.get("type"))
                    if (("local", d.get("id")), "static") in self.locals:
                        continue
                    size = self.sizeof(desc)[0]
                    init = [c for c in kids(d) if kind(c) is not None]
                    v = self.tu.fold(init[-1]) if init else 0
                    if size is None or v is None or (init and (desc is None or desc[0] != "int")):
                        raise AnalysisError("byte machine: block-scope object `%s` of static storage without a constant scalar "
                                            "initialiser; unclassifiable" % d.get("name"))
                    self.locals[(("local", d.get("id")), "static")] = desc
                    for i in range(size):
                        self.mem[("%s#static" % d.get("name"), i)] = (v >> (8 * i)) & 0xFF if init else 0
                    continue
                if d.get("storageClass") in ("static", "extern"):
                    raise AnalysisError("byte machine: block-scope object `%s` of static storage; unclassifiable" % d.get("name"))
                fr = self.frames[-1]
                desc = self.tdesc(d.get("type"))
                self.locals[(("local", d.get("id")), fr)] = desc
                init = [c for c in kids(d) if kind(c) is not None]
                if init:
                    if kind(strip(init[-1])) == "InitListExpr":
                        raise AnalysisError("byte machine: initialiser list of `%s`; unclassifiable" % d.get("name"))
                    self.store(("%s#%d" % (d.get("name"), fr), 0, desc), self.eval(init[-1]))
        elif k == "IfStmt":
            inner = st["inner"]
            he = st.get("hasElse", False)
            if self._cond(inner[-3] if he else inner[-2]):
                self.exec(inner[-2] if he else inner[-1])
            elif he:
                self.exec(inner[-1])
        elif k in ("WhileStmt", "ForStmt", "DoStmt"):
            inner = st["inner"]
            if k == "ForStmt":
                init, cond, inc, body = inner[0], inner[2], inner[3], inner[4]
            elif k == "WhileStmt":
                init, cond, inc, body = None, inner[-2], None, inner[-1]
            else:
                init, cond, inc, body = None, inner[1], None, inner[0]
            if init:
                self.exec(init)
            first = k == "DoStmt"
            while first or not cond or self._cond(cond):
                first = False
                try:
                    self.exec(body)
                except _Flow as e:
                    if e.what == "break":
                        break
                    if e.what != "continue":
                        raise
                if inc:
                    self.eval(inc)
        elif k == "SwitchStmt":
            self._switch(st)
        elif k == "ReturnStmt":
            ks = kids(st)
            raise _Flow("return", self.eval(ks[0]) if ks else None)
        elif k == "BreakStmt":
            raise _Flow("break")
        elif k == "ContinueStmt":
            raise _Flow("continue")
        elif k.endswith("Operator") or k.endswith("Expr"):
            self.eval(st)
        else:
            raise AnalysisError("byte machine: statement %s is outside the vocabulary" % k)


_LAYER1_TUS = {}


_INSTALLERS = {}        # id(L) -> the L1CTL handlers (R14) and take-over functions (R11) found, for R15


def _layer1_tu(L, name):
    """the translation unit of one firmware layer1 file, parsed once per run (R8 and R11 read the same files); the stub
    include path of cfront has no <inttypes.h> (prim_freq.c prints with PRIu32): declarations-only stand-in found behind
    every other include directory"""
    cache = _LAYER1_TUS.setdefault(id(L), {})
    if name not in cache:
        tmp = tempfile.mkdtemp(prefix="c07l1-", dir=os.environ.get("TMPDIR") or "/var/tmp")
        try:
            with open(os.path.join(tmp, "inttypes.h"), "w") as fh:
                fh.write("#include <stdint.h>\n#define PRIu32 \"u\"\n#define PRId32 \"d\"\n#define PRIx32 \"x\"\n"
                         "#define PRIu16 \"u\"\n#define PRIu8 \"u\"\n#define PRIu64 \"llu\"\n")
            try:
                cache[name] = TU(L.repo, "fw", "layer1/%s" % name, L=L, extra_flags=("-idirafter", tmp))
            except AnalysisError as e:
                cache[name] = e
        finally:
            shutil.rmtree(tmp, ignore_errors=True)
    if isinstance(cache[name], AnalysisError):
        raise cache[name]
    return cache[name]


def _channel_record(tu, bm):
    """(RecordDecl, flat fields) of the record that holds hopping descriptors (struct l1s_h1 members, directly or through
    anonymous unions): the channel description `l1s.dedicated`"""
    found = []
    for r in walk(tu.ast):
        if kind(r) != "RecordDecl" or r.get("tagUsed") == "union" or not kids(r):
            continue
        flat = bm.flat_fields(r)
        descs = [n for n, (o, d) in flat.items() if d is not None and d[0] == "rec" and d[1].get("name") == DESC]
        if len(descs) >= 2:
            found.append((r, flat, sorted(descs)))
    if len(found) != 1:
        raise AnalysisError("%d records hold a live and a pending hopping descriptor (struct %s members); the channel description "
                            "is unclassifiable" % (len(found), DESC))
    return found[0]


def _channel_ids(bm, rec):
    """{FieldDecl id: member name} of a record, the members of its anonymous struct / union members included"""
    out = {}
    for fid, (o, d, nm) in bm.layout(rec)[2].items():
        if nm:
            out[fid] = nm
        elif d is not None and d[0] == "rec":
            out.update(_channel_ids(bm, d[1]))
    return out


def _member_access(tu, m):
    """how the object a member expression names is used: 'read' | 'write' | 'both' | None (unevaluated)"""
    child, p = m, tu.parent.get(id(m))
    decayed = False
    while p is not None:
        k = kind(p)
        if k == "ParenExpr" or (k == "MemberExpr" and not p.get("isArrow")) or \
                (k == "ImplicitCastExpr" and p.get("castKind") in ("NoOp", "BitCast")) or (k == "CStyleCastExpr" and decayed):
            pass
        elif k == "ImplicitCastExpr" and p.get("castKind") == "ArrayToPointerDecay":
            decayed = True
        elif k == "ArraySubscriptExpr" and kids(p)[0] is child:
            decayed = False
        elif k == "UnaryOperator" and p.get("opcode") == "&":
            decayed = True
        else:
            break
        child, p = p, tu.parent.get(id(p))
    if p is None:
        return "both"
    k = kind(p)
    if k == "UnaryExprOrTypeTraitExpr":
        return None
    if not decayed:
        if k == "ImplicitCastExpr" and p.get("castKind") == "LValueToRValue":
            return "read"
        if k == "BinaryOperator" and p.get("opcode") == "=" and kids(p)[0] is child:
            return "write"
        return "both"
    if k == "CallExpr" and kids(p)[0] is not child:
        i = [j for j, a in enumerate(kids(p)) if a is child][0] - 1
        if ctext(kids(p)[0]) in COPY_FUNCS:
            return "write" if i == 0 else "read"
    return "both"


def _takeover_scenarios(bm, flat, live, pend, flag, pflag, h0, ph0):
    """(label, {offset: byte}, old hopping?, pending hopping?, pending n) for every mode transition, every pending n of the
    domain 1..64 and live allocation lengths on both sides of it; every byte of the live description differs from the byte
    of the pending one at the same position, so that a byte not taken over is seen"""
    lo, po = flat[live][0], flat[pend][0]
    d = flat[live][1]
    sub = bm.flat_fields(d[1])
    size = bm.sizeof(d)[0]
    el = bm.sizeof(sub["ma"][1][1])[0]
    ext = sub["ma"][1][2]
    h0f = bm.flat_fields(flat[h0][1][1])
    nd = sub["n"][1]
    nbits = 64 if nd is None or nd[0] != "int" else nd[3] if len(nd) > 3 else 8 * nd[1]
    for old_h in (0, 1):
        for new_h in (0, 1):
            for pn in (range(1, ext + 1) if new_h else (0,)):
                if pn >> nbits:
                    continue                                   # not a value the member holds (R16 decides its width)
                for on in ((0, 1, ext) if old_h or new_h else (0,)):
                    if on >> nbits:
                        continue
                    mem = {}
                    for name, (o, fd) in flat.items():
                        if fd is not None and fd[0] == "int":
                            mem[o] = 1                         # a dedicated channel is established (every other scalar: 1)
                            for i in range(1, fd[1]):
                                mem[o + i] = 0
                    for i in range(size):
                        mem[po + i] = (0x40 + 5 * i) & 0xFF    # pending union: whatever an earlier description left ...
                        mem[lo + i] = mem[po + i] ^ 0xA5       # ... and the live one differs in every byte
                    mem[flat[flag][0]], mem[flat[pflag][0]] = old_h, new_h
                    if new_h:
                        mem[po + sub["n"][0]] = pn
                    if old_h or new_h:
                        mem[lo + sub["n"][0]] = on if on != pn else (pn % ext) + 1
                    yield ("%shopping -> %shopping%s" % ("" if old_h else "non-", "" if new_h else "non-",
                                                        ", pending n = %d, previous n = %d" % (pn, mem[lo + sub["n"][0]]) if new_h else ""),
                           mem, old_h, new_h, pn)


def _channel_roles(L):
    """which members of the channel description are what, decided by who reads them: (live descriptor, pending
    descriptor, live flag, pending flag, live non-hopping alternative, pending one, pending names, live names)"""
    head = _layer1_tu(L, "rfch.c")
    L.unit(F_SYNC_H)
    hb = _ByteMachine(head)
    rec, flat, descs = _channel_record(head, hb)
    fids = _channel_ids(hb, rec)
    # what the observation point reads: members of the channel description named in rfch.c (the file of rfch_get_params())
    reads, conds = set(), set()
    for f in head.functions.values():
        if not any(kind(c) == "CompoundStmt" for c in kids(f)):
            continue
        for n in walk(head.body(f)):
            if kind(n) == "MemberExpr" and n.get("referencedMemberDecl") in fids:
                reads.add(fids[n["referencedMemberDecl"]])
                c, p = n, head.parent.get(id(n))
                while p is not None and kind(p) in SKIP:
                    c, p = p, head.parent.get(id(p))
                # the member's truth value decides a branch: `if (m)`, `m ? :`, `!m`, `m && ..`, `m != 0`
                if p is not None and ((kind(p) in ("IfStmt", "ConditionalOperator") and kids(p)[0] is c) or
                                      (kind(p) == "UnaryOperator" and p.get("opcode") == "!") or
                                      (kind(p) == "BinaryOperator" and p.get("opcode") in ("&&", "||", "==", "!="))):
                    conds.add(fids[n["referencedMemberDecl"]])
    live = [d for d in descs if d in reads]
    pend = [d for d in descs if d not in reads]
    if len(live) != 1 or len(pend) != 1 or not pend[0].endswith(live[0]):
        raise AnalysisError("channel description: live hopping descriptor %s / pending %s; unclassifiable" % (live, pend))
    live, pend = live[0], pend[0]
    prefix = pend[:len(pend) - len(live)]
    flags = sorted(c for c in conds if prefix + c in flat and flat[c][1] is not None and flat[c][1][0] == "int" and c in reads)
    if len(flags) != 1:
        raise AnalysisError("channel description: the hopping flag tested in rfch.c is one of %s; unclassifiable" % flags)
    flag, pflag = flags[0], prefix + flags[0]
    h0 = sorted(n for n, (o, d) in flat.items() if o == flat[live][0] and n != live and d is not None and d[0] == "rec")
    if len(h0) != 1 or prefix + h0[0] not in flat or flat[prefix + h0[0]][0] != flat[pend][0]:
        raise AnalysisError("channel description: the non-hopping alternative of `%s` is one of %s; unclassifiable" % (live, h0))
    h0, ph0 = h0[0], prefix + h0[0]
    pending_names = {n for n in flat if n.startswith(prefix) and n[len(prefix):] in flat}
    live_names = {flag, live, h0}
    return live, pend, flag, pflag, h0, ph0, pending_names, live_names


def r11_takeover(L, tier):
    """C07.R11 decides a necessary condition of the firmware clause "the selected channel is MA[MAI] for the configured
    HSN, MAIO, mobile allocation" across a starting time: rfch_get_params() reads the hopping flag, and either
    h1.hsn / maio / n / ma[0..n-1] or h0.arfcn, from the live channel description; the pending description (the `st_`
    members L1CTL_DM_FREQ_REQ fills) is the configured one from the starting time on.  So every function that takes the
    pending description over -- it reads a pending member and writes a live one; found by who-reads / who-writes over the
    member declarations, not by name -- must leave, for each of the four mode transitions (previous channel hopping or
    not x pending channel hopping or not), every pending allocation length 1..64 and previous lengths on both sides of it:
    the live flag equal (as a truth value) to the pending flag and, pending hopping, hsn, maio, n and ma[0..n-1] equal to
    the pending descriptor's, pending non-hopping, every member of h0 equal to the pending h0's.  Decided by constant
    folding: the function is evaluated on a byte memory (_ByteMachine: h0 / h1 share the bytes of their union, memcpy and
    struct assignment move bytes, sizes are sizeof of the natural-alignment layout) for each scenario, every live byte
    differing from the pending byte at its position; a scenario of the domain that leaves a parameter rfch_get_params()
    reads different from the pending one is the violation, reported with the transition and the member.  A function the
    machine cannot evaluate is ANALYSIS-ERROR."""
    live, pend, flag, pflag, h0, ph0, pending_names, live_names = _channel_roles(L)
    d = os.path.join(L.repo, FW_LAYER1)
    try:
        names = sorted(x for x in os.listdir(d) if x.endswith(".c"))
    except OSError as e:
        raise AnalysisError("firmware layer1 directory unreadable: %s" % e)
    pat = re.compile(r"\b(%s)\b" % "|".join(re.escape(m) for m in sorted(pending_names & {pend, ph0, pflag})))
    nfun, seen = 0, set()
    for name in names:
        try:
            with open(os.path.join(d, name), errors="replace") as fh:
                src = fh.read()
        except OSError as e:
            raise AnalysisError("%s unreadable: %s" % (name, e))
        if not pat.search(strip_comments(src)):
            continue                                # a pending member can only be read where it is named
        tu = _layer1_tu(L, name)
        file = "%s/%s" % (FW_LAYER1, name)
        bm0 = _ByteMachine(tu)
        rec, flat, _ = _channel_record(tu, bm0)
        fids = _channel_ids(bm0, rec)
        for fn, fd in sorted(tu.functions.items()):
            if not any(kind(c) == "CompoundStmt" for c in kids(fd)) or ((fd.get("_file") or "", fn) in seen):
                continue
            rd, wr = set(), set()
            for n in walk(tu.body(fd)):
                if kind(n) == "MemberExpr" and n.get("referencedMemberDecl") in fids:
                    nm = fids[n["referencedMemberDecl"]]
                    acc = _member_access(tu, n)
                    if acc in ("read", "both") and nm in (pend, ph0, pflag):
                        rd.add(nm)
                    if acc in ("write", "both") and nm in live_names:
                        wr.add(nm)
            if not (rd and wr):
                continue
            seen.add((fd.get("_file") or "", fn))
            L.fn(file, fn)
            nfun += 1
            _INSTALLERS.setdefault(id(L), {}).setdefault("takeovers", []).append((tu, file, fd, rec, flat))
            _takeover_function(L, tu, file, fd, rec, flat, live, pend, flag, pflag, h0, ph0)
    L.floor("C07.R11", "functions that take the pending channel description over (read st_ members, write live ones)", nfun, 1)


def _takeover_function(L, tu, file, fd, rec, flat, live, pend, flag, pflag, h0, ph0):
    fname = fd.get("name")
    line = tu.line(fd)
    probe = _ByteMachine(tu)
    sub = probe.flat_fields(flat[live][1][1])
    if not {"hsn", "maio", "n", "ma"} <= set(sub) or sub["ma"][1][0] != "arr":
        raise AnalysisError("struct %s lost one of hsn / maio / n / ma[]; unclassifiable" % DESC)
    h0f = probe.flat_fields(flat[h0][1][1])
    el = probe.sizeof(sub["ma"][1][1])[0]
    if fd.get("variadic") or any("*" in (p.get("type", {}).get("qualType") or "") for p in tu.fparams(fd)):
        raise AnalysisError("%s() takes the pending channel description over and has pointer parameters; unclassifiable" % fname)
    key = "%s() takes the pending channel description over (`%s`, `%s` / `%s` -> `%s`, `%s` / `%s`): afterwards the hopping flag and " \
          "the parameters rfch_get_params() reads are the pending ones, for every mode transition and allocation length" % (
              fname, pflag, pend, ph0, flag, live, h0)
    want = "flag == pending flag; hopping: hsn, maio, n, ma[0..n-1] == pending; non-hopping: %s == pending" % "/".join(
        "%s.%s" % (h0, k) for k in sorted(h0f))
    total, bad = 0, None
    for label, mem, old_h, new_h, pn in _takeover_scenarios(probe, flat, live, pend, flag, pflag, h0, ph0):
        bm = _ByteMachine(tu)
        bm.layouts = probe.layouts

        def background(region, off, bm=bm, mem=mem):
            bases = bm.member_bases.get(id(rec), set())
            if len(bases) != 1:
                return None
            (breg, boff), = bases
            return mem.get(off - boff) if region == breg else None
        bm.background = background
        bm.run(fd, [1] * len(tu.fparams(fd)))
        bases = bm.member_bases.get(id(rec), set())
        if len(bases) != 1:
            raise AnalysisError("%s(): %d objects of the channel description's type are accessed; unclassifiable" % (fname, len(bases)))
        (breg, boff), = bases
        rd = lambda o, n=1: sum(bm._byte(breg, boff + o + i) << (8 * i) for i in range(n))
        before = lambda o, n=1: sum(mem[o + i] << (8 * i) for i in range(n))
        total += 1
        lo, po = flat[live][0], flat[pend][0]
        diffs = []
        if bool(rd(flat[flag][0], flat[flag][1][1])) != bool(new_h):
            diffs.append("`%s` is %d, the pending `%s` is %d" % (flag, rd(flat[flag][0], flat[flag][1][1]), pflag, new_h))
        elif new_h:
            for k in ("hsn", "maio", "n"):
                o, dd = sub[k]
                if rd(lo + o, dd[1]) != before(po + o, dd[1]):
                    diffs.append("`%s.%s` is %s (%d), the pending `%s.%s` is %d" % (
                        live, k, "still the previous value" if rd(lo + o, dd[1]) == before(lo + o, dd[1]) else "now", rd(lo + o, dd[1]),
                        pend, k, before(po + o, dd[1])))
            stale = [i for i in range(pn) if rd(lo + sub["ma"][0] + i * el, el) != before(po + sub["ma"][0] + i * el, el)]
            if stale:
                diffs.append("`%s.ma[%d%s]` %s not the pending allocation's" % (
                    live, stale[0], "..%d" % stale[-1] if len(stale) > 1 else "", "are" if len(stale) > 1 else "is"))
        else:
            for k, (o, dd) in sorted(h0f.items()):
                if dd is not None and dd[0] == "int" and rd(lo + o, dd[1]) != before(po + o, dd[1]):
                    diffs.append("`%s.%s` is %d, the pending `%s.%s` is %d" % (h0, k, rd(lo + o, dd[1]), ph0, k, before(po + o, dd[1])))
        if diffs and bad is None:
            bad = "%s: after %s() %s" % (label, fname, "; ".join(diffs[:3]))
    L.ob("C07.R11", file, fname, key, want,
         "folded for %d scenarios (4 mode transitions x pending n 1..64 x previous n): all as required" % total if bad is None
         else bad + " -- rfch_get_params() selects the channel from a description that was never configured", bad is None, line)


# ------------------------------------------------------------------------------
# R14: the byte order of the channel description an L1CTL message installs

L1CTL_N = (1, 2, 64)                    # allocation lengths of the witness messages
L1CTL_HSN, L1CTL_MAIO = 21, 42
L1CTL_ARFCN_PCS = 0x8000 | 600          # the same numbers in the PCS 1900 band (ARFCN_PCS, osmocom/gsm/gsm_utils.h): other channels
L1CTL_ARFCN0 = 600                      # 0x0258 .. 0x0297: both octets differ for each of the 64 entries


def _l1ctl_payload(tu, bm, flag):
    """the record of the message the handler read that carries a hopping flag (same member name as the channel
    description's), a hopping descriptor (hsn, maio, n, ma[]) and its non-hopping alternative at the same offset:
    (frame offset, flat fields, descriptor member, its fields, alternative member, its 16-bit member)"""
    recs = {id(r): r for r in walk(tu.ast) if kind(r) == "RecordDecl"}
    found = []
    for rid, bases in bm.member_bases.items():
        r = recs.get(rid)
        if r is None:
            continue
        for (region, off) in bases:
            if region != "frame":
                continue
            pf = bm.flat_fields(r)
            h1 = [m for m, (o, d) in pf.items() if d is not None and d[0] == "rec" and
                  {"hsn", "maio", "n", "ma"} <= set(bm.flat_fields(d[1]))]
            if len(h1) != 1 or flag not in pf or pf[flag][1] is None or pf[flag][1][0] != "int":
                continue
            sub = bm.flat_fields(pf[h1[0]][1][1])
            if sub["ma"][1] is None or sub["ma"][1][0] != "arr" or sub["ma"][1][1] != ("int", 2, False):
                continue
            alt = []
            for m, (o, d) in pf.items():
                if m != h1[0] and o == pf[h1[0]][0] and d is not None and d[0] == "rec":
                    ints = [(k, v) for k, v in bm.flat_fields(d[1]).items() if v[1] is not None and v[1][0] == "int"]
                    if len(ints) == 1 and ints[0][1][1][1] == 2:
                        alt.append((m, ints[0][1][0]))
            if len(alt) == 1:
                found.append((off, pf, h1[0], sub, alt[0][0], alt[0][1]))
    if len(found) != 1:
        raise AnalysisError("%d records read from the message carry a hopping flag `%s`, a descriptor (hsn, maio, n, ma[]) and a "
                            "non-hopping alternative; unclassifiable" % (len(found), flag))
    return found[0]


def _l1ctl_run(tu, fd, rec, frame, before=None, extern=None):
    """the handler evaluated on the byte machine for the message bytes `frame` (offset -> byte; 1 elsewhere); every byte
    of the channel description is 0xEE before (`before`: offset in the description -> the byte it holds instead)"""
    bm = _ByteMachine(tu)
    bm.poison = True
    bm.extern = extern
    prm = tu.fparams(fd)[0]
    pd = bm._pointee(prm)
    if pd is None or pd[0] != "rec":
        raise AnalysisError("%s(): the message parameter's record type is not known; unclassifiable" % fd.get("name"))
    mf = bm.flat_fields(pd[1])
    ptrs = {o: nm for nm, (o, d) in mf.items() if d is not None and d[0] == "ptr" and d[1] in ("unsigned char", "uint8_t", "char")}
    byte = ("int", 1, False)

    def background(region, off):
        if region == "frame":
            return frame.get(off, 1) if 0 <= off < 4096 else None
        if region == "msg":
            if off in ptrs:
                return ("p", "frame", 1024 if ptrs[off] == "tail" else 0, byte)
            if any(o < off < o + 4 for o in ptrs):
                return ("cont",)
            nm = [n for n, (o, d) in mf.items() if d is not None and d[0] == "int" and o <= off < o + d[1] and n in ("len", "data_len")]
            if nm:
                return (1024 >> (8 * (off - mf[nm[0]][0]))) & 0xFF
            return None
        bases = bm.member_bases.get(id(rec), set())
        if len(bases) == 1 and region == next(iter(bases))[0]:
            return 0xEE if before is None else before.get(off - next(iter(bases))[1])
        return None
    bm.background = background
    bm.run(fd, [("p", "msg", 0, pd)])
    return bm


DESC_DOMAIN = {"hsn": (63, "HSN 0..63"), "maio": (63, "MAIO 0..63"), "n": (64, "N 1..64 (the number of channels of the allocation)"),
               "ma": (0xFFFF, "the 16-bit channel numbers L1CTL carries (ARFCN 0..1023 with the band flags ARFCN_PCS = 0x8000, "
                              "ARFCN_UPLINK = 0x4000)")}


def r16_descriptor_widths(L):
    """C07.R16 decides a necessary condition of the clause "for every hopping sequence number 0..63, MAIO, mobile allocation of
    1..64 channels ... the selected channel is MA[MAI]" on the firmware side: rfch_get_params() computes MAI from the members
    of the hopping descriptor (struct l1s_h1: hsn, maio, n, ma[]) and nothing else, so every member must be able to HOLD every
    value of its domain -- HSN 0..63 and MAIO 0..63 (6 value bits), N 1..64 (7 value bits: 64 itself is in the domain),
    the entries of MA (16 bits).  The number of value bits is taken from the declaration by value: the folded width of a
    bit-field (clang: isBitfield, the width is the declaration's constant expression), otherwise 8 * sizeof of the declared
    integer type; one bit less for a signed member.  A member narrower than its domain stores some configured value as
    another one (n:6 keeps 64 as 0), so rfch_get_params() cannot select MA[MAI] for that configuration whatever the generator
    does; wider members, other integer types and bit-fields that are wide enough are silent.  A member that is not an integer
    (or an array of integers) is ANALYSIS-ERROR."""
    rule = "C07.R16"
    head = _layer1_tu(L, "rfch.c")
    L.unit(F_SYNC_H)
    rec = head.records.get(DESC)
    if rec is None or not kids(rec):
        raise AnalysisError("struct %s is not defined in the translation unit of rfch.c; unclassifiable" % DESC)
    bm = _ByteMachine(head)
    seen = 0
    for i, c in enumerate(kids(rec)):
        if kind(c) != "FieldDecl" or c.get("name") not in DESC_DOMAIN:
            continue
        name = c.get("name")
        hi, what = DESC_DOMAIN[name]
        d = bm.tdesc(c.get("type"), (rec, i))
        while d is not None and d[0] == "arr":
            d = d[1]
        if d is None or d[0] != "int":
            raise AnalysisError("struct %s: member `%s` of type %s is not an integer; unclassifiable" % (
                DESC, name, c.get("type", {}).get("qualType")))
        bits = 8 * d[1]
        if c.get("isBitfield"):
            bits = bitfield_width(head, c)
            if bits is None:
                raise AnalysisError("struct %s: the width of the bit-field `%s` does not fold; unclassifiable" % (DESC, name))
        bits -= 1 if d[2] else 0
        need = hi.bit_length()
        seen += 1
        L.ob(rule, F_SYNC_H, "struct %s" % DESC, "member `%s` of the hopping descriptor holds every value of its domain, %s "
             "(value bits of the declaration: bit-field width or 8 * sizeof, less the sign bit)" % (name, what),
             ">= %d value bits" % need, ">= %d value bits" % need if bits >= need else
             "%d value bits (%s%s): %d is stored as %d" % (bits, c.get("type", {}).get("qualType"),
                                                           ":%d" % bitfield_width(head, c) if c.get("isBitfield") else "",
                                                           hi, hi & ((1 << max(bits, 0)) - 1)),
             bits >= need, head.line(c))
    L.floor(rule, "members of struct %s with a domain (hsn, maio, n, ma)" % DESC, seen, len(DESC_DOMAIN))


def r14_l1ctl_byte_order(L, tier):
    """C07.R14 decides a necessary condition of the firmware clause "rfch_get_params() returns MA[MAI] for the configured
    mobile allocation" at the place the allocation is configured: the L1CTL handlers (functions of firmware layer1 that
    take a message buffer and write the live or the pending channel description; found by who-writes over the member
    declarations, not by name).  L1CTL carries 16-bit fields in network byte order; rfch_get_params() returns the stored
    ma[] entry / h0 ARFCN as a host integer.  Each handler is evaluated on the byte machine of R11 (little-endian
    host, as the target; ntohs() evaluated from its own source) on witness messages -- hopping with N = 1, 2, 64
    channels whose ARFCNs have two different octets, and non-hopping -- and the description it leaves must hold: the
    flag as a truth value, hsn, maio, n and, for i < n, ma[i] equal to the ARFCN whose big-endian octets the message
    carries at entry i (non-hopping: the single ARFCN).  A handler that moves the octets without conversion (memcpy,
    struct copy) stores byte-swapped ARFCNs: from the take-over on the firmware tunes to channels that are not in the
    configured MA.  Every handler is held to the same requirement, so siblings (DM_EST_REQ / DM_FREQ_REQ) agree.  A
    handler the machine cannot evaluate is ANALYSIS-ERROR."""
    live, pend, flag, pflag, h0, ph0, pending_names, live_names = _channel_roles(L)
    groups = (("live", flag, live, h0), ("pending", pflag, pend, ph0))
    d = os.path.join(L.repo, FW_LAYER1)
    try:
        names = sorted(x for x in os.listdir(d) if x.endswith(".c"))
    except OSError as e:
        raise AnalysisError("firmware layer1 directory unreadable: %s" % e)
    pat = re.compile(r"\b(%s)\b" % "|".join(re.escape(m) for m in sorted({live, pend, h0, ph0})))
    nfun, seen = 0, set()
    for name in names:
        try:
            with open(os.path.join(d, name), errors="replace") as fh:
                src = fh.read()
        except OSError as e:
            raise AnalysisError("%s unreadable: %s" % (name, e))
        if not pat.search(strip_comments(src)):
            continue
        tu = _layer1_tu(L, name)
        file = "%s/%s" % (FW_LAYER1, name)
        bm0 = _ByteMachine(tu)
        rec, flat, _ = _channel_record(tu, bm0)
        fids = _channel_ids(bm0, rec)
        for fn, fd in sorted(tu.functions.items()):
            if not any(kind(c) == "CompoundStmt" for c in kids(fd)) or ((fd.get("_file") or "", fn) in seen):
                continue
            ps = tu.fparams(fd)
            if len(ps) != 1 or fd.get("variadic") or not re.fullmatch(r"(const )?struct msgb \*( const)?", ps[0].get("type", {}).get("qualType") or ""):
                continue
            wr = set()
            for n in walk(tu.body(fd)):
                if kind(n) == "MemberExpr" and n.get("referencedMemberDecl") in fids:
                    nm = fids[n["referencedMemberDecl"]]
                    if _member_access(tu, n) in ("write", "both") and nm in (live, pend, h0, ph0):
                        wr.add(nm)
            if not wr:
                continue
            seen.add((fd.get("_file") or "", fn))
            L.fn(file, fn)
            nfun += 1
            _INSTALLERS.setdefault(id(L), {}).setdefault("handlers", []).append((tu, file, fd, rec, flat, wr))
            _l1ctl_handler(L, tu, file, fd, rec, flat, [g for g in groups if {g[2], g[3]} & wr], flag)
    L.floor("C07.R14", "L1CTL handlers that write the live / pending channel description (DM_EST_REQ, DM_FREQ_REQ)", nfun, 2)


def _l1ctl_witness(tu, fd, rec, flag):
    """(probe run, message(n, hsn, maio, first ARFCN) -> message bytes) of one L1CTL handler: a hopping channel description
    of n channels with consecutive ARFCNs in network byte order (n = 0: the non-hopping alternative)"""
    probe = _l1ctl_run(tu, fd, rec, {})                 # every octet 1: hopping, one channel -- shows which records are read
    po, pf, mh1, sub, mh0, o16 = _l1ctl_payload(tu, probe, flag)
    fo = po + pf[flag][0]
    b1 = po + pf[mh1][0]

    def message(n, hsn=L1CTL_HSN, maio=L1CTL_MAIO, arfcn0=L1CTL_ARFCN0):
        fr = {fo: 1 if n else 0}
        for i in range(1, pf[flag][1][1]):
            fr[fo + i] = 0
        if n:
            fr.update({b1 + sub["hsn"][0]: hsn, b1 + sub["maio"][0]: maio, b1 + sub["n"][0]: n})
            for i in range(sub["ma"][1][2]):
                v = arfcn0 + i if i < n else 0
                fr[b1 + sub["ma"][0] + 2 * i], fr[b1 + sub["ma"][0] + 2 * i + 1] = v >> 8, v & 0xFF
        else:
            fr[po + pf[mh0][0] + o16], fr[po + pf[mh0][0] + o16 + 1] = arfcn0 >> 8, arfcn0 & 0xFF
        return fr
    return probe, message


def _l1ctl_handler(L, tu, file, fd, rec, flat, groups, flag):
    fname = fd.get("name")
    line = tu.line(fd)
    probe, message = _l1ctl_witness(tu, fd, rec, flag)
    for (what, gflag, gdesc, gh0) in groups:
        dsub = probe.flat_fields(flat[gdesc][1][1])
        if not {"hsn", "maio", "n", "ma"} <= set(dsub) or dsub["ma"][1][0] != "arr":
            raise AnalysisError("struct %s lost one of hsn / maio / n / ma[]; unclassifiable" % DESC)
        el = probe.sizeof(dsub["ma"][1][1])[0]
        h0i = [(k, v) for k, v in probe.flat_fields(flat[gh0][1][1]).items() if v[1] is not None and v[1][0] == "int"]
        if len(h0i) != 1:
            raise AnalysisError("`%s` has %d integer members; unclassifiable" % (gh0, len(h0i)))
        bad, total = None, 0
        # a band_arfcn with the PCS 1900 flag names another channel than the same number without it: a hopping and a
        # non-hopping witness in that band too
        for n, a0 in [(n, L1CTL_ARFCN0) for n in L1CTL_N + (0,)] + [(2, L1CTL_ARFCN_PCS), (0, L1CTL_ARFCN_PCS)]:
            arf = lambda i, a0=a0: a0 + i
            bm = _l1ctl_run(tu, fd, rec, message(n, arfcn0=a0))
            bases = bm.member_bases.get(id(rec), set())
            if len(bases) != 1:
                raise AnalysisError("%s(): %d objects of the channel description's type are accessed; unclassifiable" % (fname, len(bases)))
            (breg, boff), = bases

            def rd(o, size, bm=bm, breg=breg, boff=boff):
                bs = [bm._byte(breg, boff + o + i) for i in range(size)]
                if not all(isinstance(b, int) for b in bs):
                    raise AnalysisError("%s(): the channel description holds bytes that are not determined; unclassifiable" % fname)
                return sum(b << (8 * i) for i, b in enumerate(bs))
            total += 1
            diffs = []
            lo = flat[gdesc][0]
            label = "hopping, %d channel%s (%s%s)" % (n, "" if n == 1 else "s", _arfcn_txt(arf(0)), ".." + _arfcn_txt(arf(n - 1)) if n > 1 else "") \
                if n else "non-hopping (%s)" % _arfcn_txt(arf(0))
            if bool(rd(flat[gflag][0], flat[gflag][1][1])) != bool(n):
                diffs.append("`%s` is %d" % (gflag, rd(flat[gflag][0], flat[gflag][1][1])))
            elif n:
                for k, w in (("hsn", L1CTL_HSN), ("maio", L1CTL_MAIO), ("n", n)):
                    o, dd = dsub[k]
                    if rd(lo + o, dd[1]) != w:
                        diffs.append("`%s.%s` is %d, the message carries %d" % (gdesc, k, rd(lo + o, dd[1]), w))
                wrong = [i for i in range(n) if rd(lo + dsub["ma"][0] + i * el, el) != arf(i)]
                if wrong:
                    i = wrong[0]
                    g = rd(lo + dsub["ma"][0] + i * el, el)
                    diffs.append("`%s.ma[%d]` is %d (0x%04x), the message carries ARFCN %d (octets %02x %02x)%s%s" % (
                        gdesc, i, g, g, arf(i), arf(i) >> 8, arf(i) & 0xFF,
                        ": the octets were stored without ntohs()" if g == ((arf(i) & 0xFF) << 8 | arf(i) >> 8) else "",
                        "; %d of %d entries differ" % (len(wrong), n) if n > 1 else ""))
            else:
                k, (o, dd) = h0i[0]
                g = rd(flat[gh0][0] + o, dd[1])
                if g != arf(0):
                    diffs.append("`%s.%s` is %d (0x%04x), the message carries ARFCN %d (octets %02x %02x)" % (
                        gh0, k, g, g, arf(0), arf(0) >> 8, arf(0) & 0xFF))
            if diffs and bad is None:
                bad = "%s: after %s() %s" % (label, fname, "; ".join(diffs[:3]))
        L.ob("C07.R14", file, fname,
             "%s() installs the %s channel description from an L1CTL message (network byte order): the flag, hsn, maio, n and every "
             "ma[i], i < n (non-hopping: the ARFCN) are stored as host integers equal to what the message carries" % (fname, what),
             "`%s` as a truth value, `%s`.hsn / maio / n / ma[0..n-1], `%s` equal to the message's values" % (gflag, gdesc, gh0),
             "folded for %d witness messages (hopping N = %s; non-hopping; DCS 1800 and PCS 1900 ARFCNs): all as required" % (
                 total, ", ".join(map(str, L1CTL_N)))
             if bad is None else bad + " -- rfch_get_params() returns ARFCNs that are not in the configured mobile allocation",
             bad is None, line)


# ------------------------------------------------------------------------------
# R15: the channel rfch_get_params() selects from the description the L1CTL handlers (and the take-over) leave

R15_N = (1, 2, 3, 5, 33, 64)            # allocation lengths: 2^NBIN - 1 = 1, 3, 3, 7, 63, 127
R15_PREV = (7, 5, 3, 100)               # (n, HSN, MAIO, first ARFCN) of the channel established before a frequency redefinition
R15_FRAMES = 8                          # witness frames per scenario (one per value of S, both sides of M' < N, T1 >= 64, the last)


def _extern_values(L):
    """(name, integer arguments) -> the value of a function that another file of firmware layer1 defines (non-static),
    folded on a byte machine of that file that has no memory but tables nobody writes; None when there is no such
    definition or the fold leaves the vocabulary (the value stays undetermined -- never guessed)"""
    d = os.path.join(L.repo, FW_LAYER1)
    srcs, cache = {}, {}

    def extern(name, args):
        key = (name, tuple(args))
        if key in cache:
            return cache[key]
        if not srcs:
            for x in sorted(os.listdir(d)):
                if x.endswith(".c"):
                    with open(os.path.join(d, x), errors="replace") as fh:
                        srcs[x] = strip_comments(fh.read())
        v = None
        pat = re.compile(r"^[A-Za-z_][\w \t\*]*\b%s\s*\([^;{}]*\)\s*\{" % re.escape(name), re.M)
        for x, src in srcs.items():
            if not pat.search(src):
                continue                    # selects the file to parse; what the function is, its AST decides
            try:
                tu = _layer1_tu(L, x)
                f = tu.functions.get(name)
                if f is None or f.get("storageClass") == "static" or not any(kind(c) == "CompoundStmt" for c in kids(f)):
                    continue
                bm = _ByteMachine(tu)
                bm.background = lambda region, off, tu=tu, bm=bm: _const_table_byte(tu, bm, region, off)
                v = bm.run(f, list(args))
            except AnalysisError:
                v = None
            break
        cache[key] = v if isinstance(v, int) else None
        return cache[key]
    return extern


def _const_table_byte(tu, bm, region, off, cache={}):
    """byte `off` of the file-level integer array `region` as its initialiser leaves it -- only for an array no function of
    the translation unit writes, takes the address of or hands on (G.maybe_written); None otherwise"""
    key = (id(tu), region)
    if key not in cache:
        cache[key] = None
        d = tu.vars.get(region)
        desc = bm.tdesc(d.get("type")) if d is not None else None
        init = [c for c in kids(d) if kind(c) not in ("", None) and not kind(c).endswith("Attr")] if d is not None else []
        if init and desc is not None and desc[0] == "arr" and desc[1] is not None and desc[1][0] == "int" and \
                d.get("id") not in G.maybe_written(tu, {d.get("id")}):
            vals = tu.init_value(init[-1])
            if isinstance(vals, list) and all(v is None or isinstance(v, int) for v in vals):
                bs = []
                for i in range(desc[2]):
                    v = vals[i] if i < len(vals) and vals[i] is not None else 0
                    bs += [(v >> (8 * j)) & 0xFF for j in range(desc[1][1])]
                cache[key] = (tu, bs)       # the TU is kept alive: its id stays its own
    t = cache[key]
    return t[1][off] if t is not None and 0 <= off < len(t[1]) else None


def _desc_bytes(bm, rec, what):
    """offset -> byte (None: not determined) of the one channel description the machine accessed"""
    bases = bm.member_bases.get(id(rec), set())
    if len(bases) != 1:
        raise AnalysisError("%s: %d objects of the channel description's type are accessed; unclassifiable" % (what, len(bases)))
    (breg, boff), = bases
    out = {}
    for o in range(bm.sizeof(("rec", rec))[0]):
        v = bm.mem.get((breg, boff + o))
        out[o] = v if v is not None or bm.background is None else bm.background(breg, boff + o)
    return out


def _rec_background(bm, rec, state, other=None):
    def background(region, off):
        bases = bm.member_bases.get(id(rec), set())
        if len(bases) == 1 and region == next(iter(bases))[0]:
            return state.get(off - next(iter(bases))[1])
        return other(region, off) if other is not None else None
    return background


def r15_installed_description(L, spec, tier):
    """C07.R15 decides, end to end on the firmware side, a necessary condition of the clause "the selected channel is MA[MAI]
    with MAI computed by the standard algorithm (M, M' = M mod 2^NBIN, T' = T3 mod 2^NBIN, S)" for the channel description AS
    INSTALLED: whatever members struct l1s_h1 has and whoever derives them (a mask kept next to n, a precomputed table),
    rfch_get_params() -- the function every Rx/Tx frequency comes from -- must return MA[MAI] of TS 45.002 6.2.3 for the
    parameters the last L1CTL message configured, on both installation paths:
      (a) an L1CTL handler that writes the live description (DM_EST_REQ), starting from zeroed static storage;
      (b) that handler for another channel, then a handler that writes the pending description (DM_FREQ_REQ) and a function
          that takes the pending description over (l1s_freq_cmd at the starting time).
    Handlers and take-over functions are the ones R14 / R11 found by who-writes / who-reads over the member declarations.
    Everything is constant folding on the byte machine (no repository code runs): the handlers on witness messages (N = 1, 2,
    3, 5, 33, 64; value-only functions of other layer1 files folded from their own source), the bytes of the channel
    description carried from machine to machine, then rfch_get_params() itself -- generator, tables and all, whatever its
    signature -- for witness frames (one per value of S, both sides of M' < N, T1 >= 64, the last frame), its result compared
    with MA[MAI] computed by the checker from spec/hopping.json.  A differing (path, N, FN) is a legal history inside the
    property's domain on which the phone tunes to another channel than the standard (and the simulator, R3/R7); the members
    of the live descriptor in which path (b) differs from path (a) for the same parameters are named.  Because only the
    observable result is compared, a member that is derived correctly on both paths, or not kept at all, is silent.  A step
    the machine cannot evaluate is ANALYSIS-ERROR."""
    rule = "C07.R15"
    live, pend, flag, pflag, h0, ph0, pending_names, live_names = _channel_roles(L)
    found = _INSTALLERS.get(id(L), {})
    hl = [h for h in found.get("handlers", []) if live in h[5]]
    hp = [h for h in found.get("handlers", []) if pend in h[5]]
    tk = found.get("takeovers", [])
    if not hl or not hp or not tk:
        raise AnalysisError("installation paths of the channel description: %d handlers of the live description, %d of the pending "
                            "one, %d take-over functions found by R14 / R11; unclassifiable" % (len(hl), len(hp), len(tk)))
    rntable = spec["RNTABLE"]
    head = _layer1_tu(L, "rfch.c")
    obs = head.func("rfch_get_params")
    L.fn(F_RFCH, "rfch_get_params")
    hb = _ByteMachine(head)
    hrec, hflat, _ = _channel_record(head, hb)
    ps = head.fparams(obs)
    pds = [hb._pointee(p) for p in ps]
    tix = [i for i, d in enumerate(pds) if d is not None and d[0] == "rec" and {"fn", "t1", "t2", "t3"} <= set(hb.flat_fields(d[1]))]
    aix = [i for i, d in enumerate(pds) if d == ("int", 2, False)]
    if len(tix) != 1 or not aix or any(d is None for d in pds):
        raise AnalysisError("rfch_get_params(): expected a GSM time and pointers to the results, found (%s); unclassifiable" % ", ".join(
            p.get("type", {}).get("qualType", "?") for p in ps))
    tf = hb.flat_fields(pds[tix[0]][1])
    extern = _extern_values(L)
    hsn, maio = L1CTL_HSN, L1CTL_MAIO
    size = hb.sizeof(("rec", hrec))[0]

    def observe(state, fn):
        """the ARFCN rfch_get_params() stores for frame `fn`.  A constant table read beyond its extent yields an
        indeterminate value: folded with 0 and with 255 there; a result that depends on it is reported as such (it is
        never MA[MAI]), one that does not (N = 1) counts like any other."""
        oob = []
        a = observe1(state, fn, 0, oob)
        if not oob:
            return a
        b = observe1(state, fn, 255, oob)
        if a == b:
            return a
        return "%s (the values there being 0 / 255: %s / %s)" % (oob[0], _r15_got(a, 0), _r15_got(b, 0))

    def observe1(state, fn, fill, oob):
        tm = {"fn": fn, "t1": fn // 1326, "t2": fn % 26, "t3": fn % 51, "tc": (fn // 51) % 8}
        tb = {}
        for k, (o, d) in tf.items():
            if k not in tm:
                continue                # a member TS 45.002 does not define: undefined bytes (a read of them ends the fold)
            if d is None or d[0] != "int":
                raise AnalysisError("struct gsm_time member `%s` is not an integer; unclassifiable" % k)
            for j in range(d[1]):
                tb[o + j] = (tm[k] >> (8 * j)) & 0xFF
        bm = _ByteMachine(head)
        bm.layouts = hb.layouts
        bm.boot = True
        bm.max_depth = 12               # the generator may be split into helpers (no recursion: the step limit bounds it)

        def other(region, off):
            if region == "<time>":
                return tb.get(off)
            if region == "<arfcn>":
                return 0
            v = _const_table_byte(head, bm, region, off)
            if v is None and region in head.vars and region not in rec_regions(bm) and _const_table_byte(head, bm, region, 0) is not None:
                # a table the file defines and only reads, addressed outside its extent
                oob.append("reads `%s` at byte offset %d, beyond its extent of %s bytes" % (
                    region, off, bm.sizeof(bm.tdesc(head.vars[region].get("type")))[0]))
                return fill
            if v is None and region in head.vars and region not in rec_regions(bm):
                # an object of static storage the file writes (a remembered result): first call after start-up, so it holds
                # its initialiser -- zero without one
                d = head.vars[region]
                init = [c for c in kids(d) if kind(c) not in ("", None) and not kind(c).endswith("Attr")]
                size = bm.sizeof(bm.tdesc(d.get("type")))[0]
                if d.get("storageClass") != "extern" and size is not None and 0 <= off < size:
                    if not init:
                        return 0
                    f = head.fold(init[-1])
                    desc = bm.tdesc(d.get("type"))
                    if f is not None and desc is not None and desc[0] == "int":
                        return (f >> (8 * off)) & 0xFF
            return v
        rec_regions = lambda m: {b[0] for b in m.member_bases.get(id(hrec), set())}
        bm.background = _rec_background(bm, hrec, state, other)
        try:
            bm.run(obs, [("p", "<time>", 0, pds[i]) if i == tix[0] else ("p", "<arfcn>", 0, pds[i]) if i == aix[0] else 0
                         for i in range(len(ps))])
            return bm.load(("<arfcn>", 0, ("int", 2, False)))
        except _DivisionByZero as e:
            # folded on a description of the domain with every operand determined: no channel is selected at all
            return "divides by zero in `%s` (undefined behaviour, no MA[MAI])" % e.expr
        except AnalysisError as e:
            raise _ObservationSkipped(str(e))

    def members(flat, bmx):
        sub = bmx.flat_fields(flat[live][1][1])
        return flat[live][0], {k: (o, d) for k, (o, d) in sub.items() if d is not None}

    try:
        total = _r15_paths(L, rule, hl, hp, tk, flag, live, size, hb, hflat, observe, members, extern, rntable)
    except _ObservationSkipped as e:
        # like R7: no verdict is derived from a fold of rfch_get_params() that leaves the byte machine's vocabulary (or reads
        # bytes nobody defined); the formula rules (R3, R10) and the installer rules (R11, R14) decide alone
        L.extra["installed_description_fold"] = {"status": "skipped, rfch_get_params() is outside the byte machine's vocabulary: %s" % e}
        return
    L.extra["installed_description_fold"] = {"status": "complete", "results_folded": total}
    L.floor(rule, "rfch_get_params() results folded on installed channel descriptions (path, N, FN)", total, 2 * len(R15_N) * 4)


class _ObservationSkipped(Exception):
    pass


R15_T1 = (0, 63, 64, 255, 256, 1000, 2047)      # T1R = T1 mod 64: around 64, around the width of an octet, the last superframe
R15_T1_FRAMES = (7, 1325)                       # frames of the superframe (T2, T3) = (7, 7), (25, 50)


def _r15_got(got, n):
    if not isinstance(got, int):
        return got
    return "returns %d%s" % (got, " = MA[%d]" % (got - L1CTL_ARFCN0) if 0 <= got - L1CTL_ARFCN0 < n else "")


def _r15_paths(L, rule, hl, hp, tk, flag, live, size, hb, hflat, observe, members, extern, rntable):
    hsn, maio = L1CTL_HSN, L1CTL_MAIO
    total = 0
    for (tuA, fileA, fdA, recA, flatA, _w) in hl:
        nameA = fdA.get("name")
        _pA, msgA = _l1ctl_witness(tuA, fdA, recA, flag)
        if bm_size(tuA, recA) != size:
            raise AnalysisError("the channel description has %d bytes in %s and %d in rfch.c; unclassifiable" % (bm_size(tuA, recA), fileA, size))
        zero = {o: 0 for o in range(size)}
        direct = {}
        bad, k = None, 0
        for n in R15_N:
            bm = _l1ctl_run(tuA, fdA, recA, msgA(n, hsn, maio), before=zero, extern=extern)
            direct[n] = _desc_bytes(bm, recA, nameA)
            for fn in witness_fns(rntable, hsn, n, False)[:R15_FRAMES - 1] + [FN_LAST]:
                got = observe(direct[n], fn)
                mai, s, _ = ref_select(rntable, hsn, maio, n, fn)
                k += 1
                if got != L1CTL_ARFCN0 + mai and bad is None:
                    bad = "N = %d (ARFCN %d..%d), HSN = %d, MAIO = %d: rfch_get_params(FN = %d) %s, TS 45.002 6.2.3 selects " \
                        "MA[%d] = %d (S = %d)" % (n, L1CTL_ARFCN0, L1CTL_ARFCN0 + n - 1, hsn, maio, fn, _r15_got(got, n), mai, L1CTL_ARFCN0 + mai, s)
        total += k
        L.ob(rule, fileA, nameA, "%s() installs a hopping channel description (zeroed static storage before): rfch_get_params() then "
             "returns MA[MAI] of TS 45.002 6.2.3 for the configured HSN, MAIO, mobile allocation (handler and rfch_get_params() "
             "folded on the byte machine)" % nameA, "MA[MAI] for each of %d witnesses (N, FN)" % k,
             "MA[MAI] for each of %d witnesses (N, FN)" % k if bad is None else bad, bad is None, tuA.line(fdA))
        if fdA is hl[0][2]:
            # T1R = T1 mod 64 end to end (caller, argument passing with the declared widths, generator): frames of the
            # superframes T1 = 0, 63, 64, 255, 256, 1000, 2047 on the description the first handler installed
            bad, k = None, 0
            for n in R15_N:
                for fn in [t1 * 1326 + r for t1 in R15_T1 for r in R15_T1_FRAMES]:
                    got = observe(direct[n], fn)
                    mai, s, _ = ref_select(rntable, hsn, maio, n, fn)
                    k += 1
                    if got != L1CTL_ARFCN0 + mai and bad is None:
                        bad = "N = %d (ARFCN %d..%d), HSN = %d, MAIO = %d: rfch_get_params(FN = %d: T1 = %d, T2 = %d, T3 = %d) %s, TS 45.002 " \
                            "6.2.3 selects MA[%d] = %d (T1R = %d, S = %d)" % (n, L1CTL_ARFCN0, L1CTL_ARFCN0 + n - 1, hsn, maio, fn, fn // 1326,
                                                                        fn % 26, fn % 51, _r15_got(got, n), mai, L1CTL_ARFCN0 + mai,
                                                                        (fn // 1326) % 64, s)
            total += k
            L.ob(rule, F_RFCH, "rfch_get_params", "rfch_get_params() returns MA[MAI] of TS 45.002 6.2.3 (T1R = T1 mod 64) in the superframes "
                 "T1 = %s (description installed by %s(); caller, argument conversions and generator folded end to end on the byte "
                 "machine; a table read beyond its extent is an indeterminate value)" % (", ".join(map(str, R15_T1)), nameA),
                 "MA[MAI] for each of %d witnesses (N, FN)" % k, "MA[MAI] for each of %d witnesses (N, FN)" % k if bad is None else bad,
                 bad is None, hb.tu.line(hb.tu.func("rfch_get_params")))
        for (tuB, fileB, fdB, recB, flatB, _w2) in hp:
            nameB = fdB.get("name")
            _pB, msgB = _l1ctl_witness(tuB, fdB, recB, flag)
            for (tuT, fileT, fdT, recT, flatT) in tk:
                nameT = fdT.get("name")
                if fdT.get("variadic") or any("*" in (p.get("type", {}).get("qualType") or "") for p in tuT.fparams(fdT)):
                    raise AnalysisError("%s() takes the pending channel description over and has pointer parameters; unclassifiable" % nameT)
                bad, k = None, 0
                pn, ph, pm, pa = R15_PREV
                for n in R15_N:
                    bm = _l1ctl_run(tuA, fdA, recA, msgA(pn, ph, pm, pa), before=zero, extern=extern)
                    st = _desc_bytes(bm, recA, nameA)
                    bm = _l1ctl_run(tuB, fdB, recB, msgB(n, hsn, maio), before=st, extern=extern)
                    st = _desc_bytes(bm, recB, nameB)
                    bm = _ByteMachine(tuT)
                    bm.extern = extern
                    bm.background = _rec_background(bm, recT, st)
                    bm.run(fdT, [1] * len(tuT.fparams(fdT)))
                    st = _desc_bytes(bm, recT, nameT)
                    for fn in witness_fns(rntable, hsn, n, False)[:R15_FRAMES - 1] + [FN_LAST]:
                        got = observe(st, fn)
                        mai, s, _ = ref_select(rntable, hsn, maio, n, fn)
                        k += 1
                        if got != L1CTL_ARFCN0 + mai and bad is None:
                            lo, sub = members(hflat, hb)
                            el = hb.sizeof(sub["ma"][1][1])[0] if "ma" in sub and sub["ma"][1][0] == "arr" else None
                            diff = []
                            for m, (o, d) in sorted(sub.items()):
                                span = range(d[1]) if d[0] == "int" else range(n * el) if m == "ma" and el else range(hb.sizeof(d)[0] or 0)
                                a = [direct[n].get(lo + o + i) for i in span]
                                b = [st.get(lo + o + i) for i in span]
                                if a != b:
                                    val = lambda bs: sum(x << (8 * i) for i, x in enumerate(bs)) if all(isinstance(x, int) for x in bs) else None
                                    diff.append("`%s.%s` is %s, %s() leaves %s" % (live, m, val(b), nameA, val(a)) if d[0] == "int"
                                                else "`%s.%s[]` differs" % (live, m))
                            bad = "%sN = %d (ARFCN %d..), HSN = %d, MAIO = %d: rfch_get_params(FN = %d) %s, TS 45.002 6.2.3 " \
                                "selects MA[%d] = %d (S = %d); previous channel N = %d" % (
                                    "%s for the same parameters; " % "; ".join(diff[:3]) if diff else "",
                                    n, L1CTL_ARFCN0, hsn, maio, fn, _r15_got(got, n), mai, L1CTL_ARFCN0 + mai, s, pn)
                total += k
                L.ob(rule, fileB, nameB, "%s() -> %s() -> %s() install a hopping channel description (frequency redefinition of an "
                     "established hopping channel): rfch_get_params() then returns MA[MAI] of TS 45.002 6.2.3 for the HSN, MAIO, "
                     "mobile allocation of the last message (handlers, take-over and rfch_get_params() folded on the byte machine)" % (
                         nameA, nameB, nameT), "MA[MAI] for each of %d witnesses (N, FN)" % k,
                     "MA[MAI] for each of %d witnesses (N, FN)" % k if bad is None else bad, bad is None, tuB.line(fdB))
    return total


def bm_size(tu, rec):
    return _ByteMachine(tu).sizeof(("rec", rec))[0]


# ------------------------------------------------------------------------------
# R7: the simulator's channel selection, folded for witnesses

class ObjEv(Ev):
    """consteval.Ev plus calls of the object's own methods: `self.m(...)` is folded through the method body -- a static
    method with the folded arguments, an instance method with the facts about `self` (the attributes the folded
    constructor stored) visible.  Anything else stays Unknown."""

    def ev_Call(self, n):
        f = n.func
        if isinstance(f, ast.Attribute) and isinstance(f.value, ast.Name) and f.value.id == "self" and "self" not in self.env \
                and self.self_cls is not None and ast.unparse(f) not in self.hooks:
            c, m = self.repo.find_method(self.self_cls, f.attr)
            if m is not None:
                deco = {d.id for d in m.decorator_list if isinstance(d, ast.Name)}
                if len(deco) != len(m.decorator_list) or deco - {"staticmethod"} or any(isinstance(a, ast.Starred) for a in n.args):
                    raise Unknown("call %s" % ast.unparse(f))
                args = [self.ev(a) for a in n.args]
                kw = {k.arg: self.ev(k.value) for k in n.keywords if k.arg is not None}
                if len(kw) != len(n.keywords):
                    raise Unknown("**kw")
                if "staticmethod" in deco:
                    return self.call_func(m, c.mod, self._bindargs(m, args, kw), self_cls=self.self_cls)
                if self.depth > 12:
                    raise Unknown("depth")
                env = dict(self._bindargs(m, ["<self>"] + args, kw))
                if env.pop(m.args.args[0].arg if m.args.args else None, None) != "<self>":
                    raise Unknown("call %s" % ast.unparse(f))
                facts = {k: v for k, v in self.env.items() if isinstance(k, str) and k.startswith("self.")}
                for k, v in facts.items():
                    env.setdefault(k, v)
                sub = self._mk(c.mod, env, self.self_cls, self.depth + 1)
                r = sub.run_block(m.body)
                if {k: v for k, v in sub.env.items() if isinstance(k, str) and k.startswith("self.")} != facts:
                    raise Unknown("%s stores attributes of self" % ast.unparse(f))      # effects of a callee are not modelled
                return None if r is _FALL else r[1]
        return Ev.ev_Call(self, n)


WITNESS_FULL_N = (1, 2, 3, 4, 5)                    # every MAIO of the domain
WITNESS_EDGE_N = (6, 7, 8, 15, 16, 31, 32, 33, 63, 64)  # MAIO around the multiples of N and at the domain's ends
WITNESS_HSN = (1, 63)
FN_LAST = G.HYPERFRAME - 1
FN_T1_64 = 64 * 1326 + 7                            # T1 = 64: T1R = 0


def ref_select(rntable, hsn, maio, n, fn):
    """TS 45.002 6.2.3 computed by the checker: (MAI, S, M' >= N)"""
    if hsn == 0:
        return (fn + maio) % n, fn % n, None
    t1, t2, t3 = fn // 1326, fn % 26, fn % 51
    p = nbin_mask(n) + 1
    mp = (t2 + rntable[(hsn ^ (t1 % 64)) + t3]) % p
    s = mp if mp < n else (mp + t3 % p) % n
    return (s + maio) % n, s, mp >= n


def witness_maio(n, full):
    if full:
        return list(range(64))
    return sorted({m for m in (0, 1, n - 1, n, n + 1, 2 * n - 1, 2 * n, 2 * n + 1, 62, 63) if 0 <= m <= 63})


def witness_fns(rntable, hsn, n, full):
    """frame numbers: cyclic -- every residue of FN mod N (N <= 5), else the ends; pseudo-random -- one frame per value
    of S (up to 5 values), one on each side of M' < N, one with T1 >= 64, the last frame of the hyperframe"""
    if hsn == 0:
        fns = list(range(n)) if full else [0, 1, n - 1, n]
        return sorted(set(fns + [FN_LAST]))
    out, seen_s, seen_b = [], set(), set()
    for fn in range(0, 26 * 51):
        _, s, b = ref_select(rntable, hsn, 0, n, fn)
        if (s < 5 and s not in seen_s) or b not in seen_b:
            out.append(fn)
        seen_s.add(s)
        seen_b.add(b)
        if len(seen_b) == 2 and len(seen_s) >= min(n, 5):
            break
    return sorted(set(out + [FN_T1_64, FN_LAST]))


ALIAS_KEYS = (("(HSN xor T1R) + T3 and T2", lambda x, t1r, t2, t3, mp: (x, t2)), ("T2 and T3", lambda x, t1r, t2, t3, mp: (t2, t3)),
              ("T1R and T3", lambda x, t1r, t2, t3, mp: (t1r, t3)), ("T1R and T2", lambda x, t1r, t2, t3, mp: (t1r, t2)),
              ("(HSN xor T1R) + T3", lambda x, t1r, t2, t3, mp: (x,)), ("M'", lambda x, t1r, t2, t3, mp: (mp,)),
              ("T3", lambda x, t1r, t2, t3, mp: (t3,)), ("T2", lambda x, t1r, t2, t3, mp: (t2,)), ("T1R", lambda x, t1r, t2, t3, mp: (t1r,)))
ALIAS_SUPERFRAMES = 4               # T1R 0..3: frames of different superframes meet in (HSN xor T1R) + T3
_ALIAS = {}


def alias_pairs(rntable, hsn, n):
    """pairs of frames (A, B) of pseudo-random hopping that agree in a proper part of what S depends on
    ((HSN xor T1R) + T3, T2, T3, T1R, M') but have different S: whatever an object remembers from resolve(A) under a key
    that is coarser than the dependence of the value is wrong for B.  One pair per part (the first in frame order)."""
    k = (id(rntable), hsn, n)
    if k not in _ALIAS:
        p = nbin_mask(n) + 1
        first, out = [{} for _ in ALIAS_KEYS], {}
        for fn in range(ALIAS_SUPERFRAMES * 1326):
            t1r, t2, t3 = (fn // 1326) % 64, fn % 26, fn % 51
            x = (hsn ^ t1r) + t3
            mp = (t2 + rntable[x]) % p
            sv = mp if mp < n else (mp + t3 % p) % n
            for i, (name, key) in enumerate(ALIAS_KEYS):
                if name not in out:
                    a = first[i].setdefault(key(x, t1r, t2, t3, mp), (fn, sv))
                    if a[1] != sv:
                        out[name] = (a[0], fn)
        _ALIAS[k] = [out[name] for name, _ in ALIAS_KEYS if name in out]
    return _ALIAS[k]


def warm_sequence(fns, pairs=()):
    """frames resolved one after the other on one object: the first two and the last two witnesses, each pair as
    a, a, b, a (a repeated frame, another frame, the first one again); then the aliasing pairs a, b"""
    seq = []
    for a, b in ((fns[0], fns[1 % len(fns)]), (fns[-1], fns[0])):
        seq += [a, a, b, a]
    for a, b in pairs:
        seq += [a, b]
    return seq


def r7_witnesses(L, repo, spec):
    """C07.R7 decides, on the simulator side, the clause "the selected channel is MA[MAI], MAI = (S + MAIO) mod N
    (cyclic: (FN + MAIO) mod N)" for the *object as constructed*: HoppingParams.__init__ and then resolve() are folded by
    the whitelisted evaluator (consteval; no repository code runs) for concrete witnesses (HSN, MAIO, MA of N distinct
    channels, FN) and the value returned is compared with MA[MAI] of TS 45.002 6.2.3 computed by the checker from
    spec/hopping.json.  N = 1..5 with every MAIO in 0..63 (MAIO < N, MAIO >= N, multiples of N) and frames covering every
    value of S; larger N at the edges.  A differing witness is a concrete input of the property's domain on which the
    simulator selects another channel than the standard (and the firmware, R3) -- a necessary condition, however the code
    is written.  It complements R3, which compares resolve() alone under the assumption that the constructor stores
    (hsn, maio, ma) unchanged.  No verdict is derived from a fold that leaves the evaluator's vocabulary: the group is
    then skipped (noted in the evidence) and the formula rules decide alone."""
    mod = repo.mod("gsm_shared")
    L.unit(F_GSM)
    ci, init = repo.need_method("gsm_shared", "HoppingParams", "__init__")
    _, resolve = repo.need_method("gsm_shared", "HoppingParams", "resolve")
    L.fn(F_GSM, "HoppingParams.__init__")
    L.fn(F_GSM, "HoppingParams.resolve")
    rps = [a.arg for a in resolve.args.args]
    if len(rps) != 2:
        raise AnalysisError("HoppingParams.resolve: expected (self, fn), found %r" % rps)
    rntable = spec["RNTABLE"]
    skip = (Unknown, TypeError, ValueError, ArithmeticError, LookupError, AttributeError, RecursionError)
    folded = 0
    status = "complete"

    class Skip(Exception):
        pass

    # class-level constants (the table) folded once; `self.X` reads them unless the constructor stores an attribute X
    consts = {}
    for name, node in ci.attrs.items():
        try:
            consts["self." + name] = Ev(repo, mod, self_cls=ci).ev(node)
        except (Unknown, Raised):
            pass

    def construct(hsn, maio, ma):
        ev = ObjEv(repo, mod, self_cls=ci)
        try:
            ev.env = dict(ev._bindargs(init, ["<self>", hsn, maio, list(ma)], {}))
            del ev.env["self"]
            r = ev.run_block(init.body)
        except Raised as e:
            raise AnalysisError("HoppingParams.__init__ raises %s for HSN = %d, MAIO = %d and a mobile allocation of %d channels "
                                "(inside the property's domain); the channel selection cannot be folded" % (e.cls, hsn, maio, len(ma)))
        except skip as e:
            raise Skip("HoppingParams.__init__: %s" % e)
        obj = dict(consts)
        obj.update({k: v for k, v in ev.env.items() if isinstance(k, str) and k.startswith("self.")})
        return obj

    stateful = []

    def select(obj, fn, carry=False):
        # the call works on a private copy of the object's state: a container updated in place (a memo dict) neither
        # leaks into the next "fresh object" witness nor hides that resolve() keeps state
        try:
            work = copy.deepcopy({k: v for k, v in obj.items() if consts.get(k) is not v})
            work.update({k: v for k, v in obj.items() if k not in work})
        except Exception as e:
            raise Skip("HoppingParams object state cannot be copied: %s" % e)
        ev = ObjEv(repo, mod, env=dict(work, **{rps[1]: fn}), self_cls=ci)
        try:
            r = ev.run_block(resolve.body)
            after = {k: v for k, v in ev.env.items() if isinstance(k, str) and k.startswith("self.")}
            if not stateful and any(k not in obj or obj[k] != v for k, v in after.items()):
                stateful.append(fn)         # resolve() stores attributes of the object: its result may depend on earlier calls
            if carry:
                obj.update(after)
        except Raised as e:
            if isinstance(e.node, (ast.Raise, ast.Assert)):
                # an explicit raise / failed assertion reached with a frame number of the property's domain: no channel
                # is selected for it (compared below like any other result)
                return "<raises %s>" % e.cls
            raise AnalysisError("HoppingParams.resolve raises %s for FN = %d; the channel selection cannot be folded" % (e.cls, fn))
        except skip as e:
            raise Skip("HoppingParams.resolve: %s" % e)
        v = r[1] if isinstance(r, tuple) and len(r) == 2 and r[0] == "ret" else None
        return tuple(v) if isinstance(v, list) else v

    try:
        for n in WITNESS_FULL_N + WITNESS_EDGE_N:
            full = n in WITNESS_FULL_N
            # distinct channels in an order that is neither ascending nor descending: an allocation that the
            # constructor sorts, reverses or rotates selects another channel on some witness
            ma = [(1805200 + 200 * c, 1710200 + 200 * c) for c in ((i * 37 + 11) % 101 for i in range(n))]
            for mode, hsns in (("cyclic hopping (HSN 0): MA[(FN + MAIO) mod N]", (0,)),
                               ("pseudo-random hopping (HSN %s): MA[(S + MAIO) mod N]" % ", ".join(map(str, WITNESS_HSN)),
                                WITNESS_HSN)):
                bad, k = [], 0
                wbad, wk = [], 0
                for hsn in hsns:
                    fns = witness_fns(rntable, hsn, n, full)
                    for maio in witness_maio(n, full):
                        obj = construct(hsn, maio, ma)
                        for fn in fns:
                            got = select(obj, fn)
                            mai, s, _ = ref_select(rntable, hsn, maio, n, fn)
                            k += 1
                            if got != ma[mai]:
                                bad.append((hsn, maio, fn, s, mai, "MA[%d]" % ma.index(got) if got in ma else repr(got)[:40]))
                        if stateful:
                            # the object keeps state between calls: the same frames resolved one after the other on ONE object
                            # (a frame repeated, another frame, the first one again), the state carried from call to call
                            live, prev = dict(obj), None
                            for fn in warm_sequence(fns, alias_pairs(rntable, hsn, n) if hsn else ()):
                                got = select(live, fn, carry=True)
                                mai, s, _ = ref_select(rntable, hsn, maio, n, fn)
                                wk += 1
                                if got != ma[mai]:
                                    wbad.append((hsn, maio, fn, s, mai, "MA[%d]" % ma.index(got) if got in ma else repr(got)[:40], prev))
                                prev = fn
                folded += k + wk
                if wk:
                    wfound = "equal for all %d calls" % wk
                    if wbad:
                        h, m, fn, s, mai, got, prev = wbad[0]
                        wfound = "N = %d, MAIO = %d, HSN = %d: resolve(%d) after resolve(%s) on the same object: MA[%d] expected, %s " \
                            "selected; differs for %d of %d calls" % (n, m, h, fn, prev, mai, got, len(wbad), wk)
                    L.ob("C07.R7", F_GSM, "HoppingParams.resolve",
                         "N = %d channels, %s is what resolve(FN) selects whatever was resolved on the same object before (resolve() "
                         "stores attributes of the object; call sequences folded with the state carried)" % (n, mode),
                         "equal for all %d calls" % wk, wfound, not wbad, resolve.lineno)
                found = "equal for all %d witnesses" % k
                if bad:
                    h, m, fn, s, mai, got = bad[0]
                    found = "N = %d, MAIO = %d, HSN = %d, FN = %d (S = %d): MA[%d] expected, %s selected; differs for %d of %d " \
                        "witnesses" % (n, m, h, fn, s, mai, got, len(bad), k)
                    if all(b[1] >= n for b in bad):
                        found += "; every differing witness has MAIO >= N (MAIO = %s)" % ", ".join(
                            str(x) for x in sorted({b[1] for b in bad})[:6])
                L.ob("C07.R7", F_GSM, "HoppingParams.resolve",
                     "N = %d channels, %s is what HoppingParams(HSN, MAIO, MA).resolve(FN) selects (constructor + resolve folded) "
                     "for %s" % (n, mode, "every MAIO in 0..63" if full else "MAIO in %s" % witness_maio(n, full)),
                     "equal for all %d witnesses" % k, found, not bad, resolve.lineno)
    except Skip as e:
        status = "skipped after %d witnesses, outside the evaluator's vocabulary: %s" % (folded, e)
    L.extra["channel_selection_witnesses"] = {"folded": folded, "status": status}
    if status == "complete":
        L.floor("C07.R7", "channel-selection witnesses folded (N, HSN, MAIO, FN)", folded, 5000)


# ------------------------------------------------------------------------------
# R13 (simulator): the Mobile Allocation a TRXC SETFH command installs

SETFH_N = (1, 2, 32, 33, 63, 64)        # channels: the ends of the domain, around half of it (a limit applied to the flat Rx/Tx list)
SETFH_MAIO = 1


def r13_setfh_allocation(L, repo, spec):
    """C07.R13 decides the clause "for every ... mobile allocation of 1..64 channels ... the selected channel is
    MA[MAI]" for the allocation as the simulator receives it: the TRXC handler of `CMD SETFH <HSN> <MAIO> <RXF1> <TXF1>
    ... <RXFN> <TXFN>` (CTRLInterfaceTRX.parse_cmd) is folded by the whitelisted evaluator for N = 1, 2, 32, 33, 63 and
    64 channels (cmdfold; enable_fh recorded).  Required: enable_fh receives HSN, MAIO and exactly the N (Rx, Tx) pairs
    of the command, in Hz, in order; then HoppingParams.__init__ / resolve folded on what was handed over select, for
    cyclic hopping and every FN in 0..N-1, channel (FN + MAIO) mod N of the COMMANDED list.  An allocation that is
    clipped, reordered or paired differently on its way makes the transceiver hop over other channels (other N, other
    2^NBIN mask) than TS 45.002 6.2.3 gives for the configured MA and than the firmware, which gets the N channels
    through L1CTL.  The reply text is C05's business, which parameters replace which C02's."""
    from cmdfold import fold_parse_cmd
    F0 = rel("ctrl_if_trx")
    q = "CTRLInterfaceTRX.parse_cmd"
    L.unit(F0)
    L.fn(F0, q)
    ci, init = repo.need_method("gsm_shared", "HoppingParams", "__init__")
    _, resolve = repo.need_method("gsm_shared", "HoppingParams", "resolve")
    _, pc = repo.need_method("ctrl_if_trx", "CTRLInterfaceTRX", "parse_cmd")
    rps = [a.arg for a in resolve.args.args]
    mod = ci.mod
    skip = (Unknown, Raised, TypeError, ValueError, ArithmeticError, LookupError, AttributeError, RecursionError)
    consts = {}
    for name, node in ci.attrs.items():
        try:
            consts["self." + name] = Ev(repo, mod, self_cls=ci).ev(node)
        except (Unknown, Raised):
            pass

    def selected(args, n):
        """channels resolve(0..n-1) selects on the object built from what enable_fh received; None: not folded"""
        try:
            ev = ObjEv(repo, mod, self_cls=ci)
            ev.env = dict(ev._bindargs(init, ["<self>"] + list(args), {}))
            del ev.env[init.args.args[0].arg]
            ev.run_block(init.body)
            obj = dict(consts)
            obj.update({k: v for k, v in ev.env.items() if isinstance(k, str) and k.startswith("self.")})
            out = []
            for fn in range(n):
                r = ObjEv(repo, mod, env=dict(obj, **{rps[1]: fn}), self_cls=ci).run_block(resolve.body)
                v = r[1] if isinstance(r, tuple) and len(r) == 2 and r[0] == "ret" else None
                out.append(tuple(v) if isinstance(v, list) else v)
            return out
        except skip as e:
            L.extra.setdefault("setfh_selection", []).append("N = %d: not folded (%s)" % (n, str(e)[:80]))
            return None
    k = 0
    for n in SETFH_N:
        khz = [(935200 + 200 * c, 890200 + 200 * c) for c in range(n)]          # ascending, as the command expects
        want = [(r * 1000, t * 1000) for r, t in khz]
        req = ["SETFH", "0", str(SETFH_MAIO)] + [str(x) for pr in khz for x in pr]
        f = fold_parse_cmd(repo, req)
        calls = [c for c in f.calls if c[0] == "enable_fh"]
        key = "CMD SETFH with %d channels hands HSN, MAIO and all %d (Rx, Tx) pairs of the command, in order, to enable_fh" % (n, n)
        req_txt = "enable_fh(0, %d, [%d pairs: %s])" % (SETFH_MAIO, n, ", ".join(map(str, want[:1] + want[-1:] if n > 1 else want)))
        k += 1
        if len(calls) != 1 or calls[0][2]:
            L.ob("C07.R13", F0, q, key, req_txt, "%d calls of enable_fh (status %r%s)" % (
                len(calls), f.ret, ", raises %s" % f.raised if f.raised else ""), False, pc.lineno)
            continue
        a = list(calls[0][1])
        if len(a) == 1 and isinstance(a[0], (list, tuple)) and len(a[0]) == 3:
            a = list(a[0])
        ma = [tuple(x) if isinstance(x, (list, tuple)) else x for x in a[2]] if len(a) == 3 and isinstance(a[2], (list, tuple)) else None
        ok = ma is not None and a[0] == 0 and a[1] == SETFH_MAIO and ma == want
        if ok:
            found = req_txt
        elif ma is None:
            found = "enable_fh%r" % (tuple(a),)
        else:
            d = next((i for i in range(min(len(ma), n)) if ma[i] != want[i]), min(len(ma), n))
            found = "enable_fh(%r, %r, [%d pairs%s])" % (a[0], a[1], len(ma), "" if d >= len(ma) and d >= n else
                                                        "; entry %d is %r, commanded %r" % (d, ma[d] if d < len(ma) else None, want[d] if d < n else None))
        L.ob("C07.R13", F0, q, key, req_txt, found[:300], ok, pc.lineno)
        if ma is None:
            continue
        sel = selected(a, n)
        if sel is None:
            continue
        k += 1
        wsel = [want[(fn + SETFH_MAIO) % n] for fn in range(n)]
        bad = [fn for fn in range(n) if sel[fn] != wsel[fn]]
        L.ob("C07.R13", F_GSM, "HoppingParams.resolve",
             "after CMD SETFH with %d channels (HSN 0, MAIO %d) resolve(FN) selects channel (FN + MAIO) mod %d of the commanded list for FN = 0..%d" % (
                 n, SETFH_MAIO, n, n - 1), "equal for all %d frame numbers" % n,
             "equal for all %d frame numbers" % n if not bad else "FN = %d: %r selected, commanded MA[%d] = %r; differs for %d of %d" % (
                 bad[0], sel[bad[0]], (bad[0] + SETFH_MAIO) % n, wsel[bad[0]], len(bad), n), not bad, resolve.lineno)
    L.floor("C07.R13", "SETFH commands folded", k, len(SETFH_N))


# ------------------------------------------------------------------------------
# R10 (firmware): a generator that keeps state between calls, folded for call sequences

SEQ_DELTAS = (("the next frame number", 1), ("a frame number with the same T2 (FN + 26)", 26),
              ("a frame number with the same T3 (FN + 51)", 51), ("a frame number with the same T2 and T3 (FN + 1326)", 1326),
              ("a frame number with the same T1 mod 64, T2 and T3 (FN + 64 * 1326)", 64 * 1326))


def _seq_ma(n, k=0):
    return tuple(1000 + 2000 * k + 3 * i + k * (i % 3) for i in range(n))


def sequence_pairs(rntable):
    """(what is varied, call a, call b) with a call = (HSN, MAIO, N, FN): b differs from a in one argument (for the frame
    number: by a step that keeps some of T1 mod 64, T2, T3) and TS 45.002 6.2.3 selects another MAI for it"""
    seen = set()
    for hsn in (0, 1, 42, 63):
        for n in (1, 2, 3, 5, 8, 17, 64):
            for maio in sorted({0, 1, n - 1, 63}):
                for fn in (0, 7, 1325, 51 * 26 * 3 + 60, FN_T1_64, 1326 * 700 + 611, FN_LAST - 90000):
                    a = (hsn, maio, n, fn)
                    ra = ref_select(rntable, *a)[0]
                    cands = [("another HSN", (h, maio, n, fn)) for h in (hsn + 1, hsn - 1, 0 if hsn else 1, 63 - hsn) if 0 <= h <= 63]
                    cands += [("another MAIO", (hsn, m % 64, n, fn)) for m in (maio + 1, maio + n // 2 + 1, maio + 63)]
                    cands += [("another N", (hsn, maio, m, fn)) for m in (n + 1, n - 1, n + 2, 64 - n) if 1 <= m <= 64]
                    for what, d in SEQ_DELTAS:
                        cands += [(what, (hsn, maio, n, (fn + k * d) % G.HYPERFRAME)) for k in (1, 2, 3, 5)]
                    done = set()
                    for what, b in cands:
                        if what in done or b == a or (what, a, b) in seen:
                            continue
                        if ref_select(rntable, *b)[0] != ra:
                            done.add(what)
                            seen.add((what, a, b))
                            yield what, a, b


def r10_c_sequences(L, gen, spec):
    """C07.R10, firmware, refutation only: when rfch_hop_seq_gen() keeps objects of static storage between calls, the value
    it returns and the contents it leaves (forward-substituted terms over the inputs and the previous contents) are folded
    by the checker's own arithmetic for call sequences that start from the static initialiser: a, a, b, b, a for pairs of
    calls that differ in one argument of the property's domain and for which TS 45.002 6.2.3 selects different channels
    (another HSN / MAIO / N; frame numbers that keep T2, T3 or T1 mod 64), the same call with another Mobile Allocation of
    the same length and with a NULL table.  Every member is stored with the conversion to its integer type.  A call that
    returns another channel than MA[MAI] for its own inputs -- a stale remembered result: a key that omits an input, a value
    remembered before it is computed -- is a counterexample inside the property's domain, reported with the pair of calls."""
    if not gen.state:
        return
    rntable = spec["RNTABLE"]
    tu = gen.tu
    note = L.extra.setdefault("generator_call_sequences", {})
    if gen.state_error:
        note["status"] = "skipped: %s" % gen.state_error[:200]
        return
    types = {}
    for k in gen.state:
        ty = _c_int_type(gen.state_types[k])
        if ty is None:
            note["status"] = "skipped: `%s` of type `%s` is not an integer of known width" % (k, gen.state_types[k])
            return
        types[k] = ty
    t, hsn, maio, n, tbl = gen.params
    names = {gen.time["fn"]: "FN", gen.time["t1"]: "T1", gen.time["t2"]: "T2", gen.time["t3"]: "T3",
             V(hsn): "HSN", V(maio): "MAIO", V(n): "N", V(tbl): "MA", V("%s->tc" % t): "TC"}
    params = ["FN", "T1", "T2", "T3", "HSN", "MAIO", "N", "MA", "TC"]
    for i, k in enumerate(gen.state):
        names[V(k)] = "S%d" % i
        params.append("S%d" % i)
    finals = ("tuple",) + tuple(gen.final(k) for k in gen.state)
    tables = []
    for x in sorted(variables(gen.raw) | variables(finals), key=repr):
        if x in names:
            continue
        d = tu.vars.get(x[1])
        init = tu.init_value(kids(d)[-1]) if d is not None and kids(d) else None
        if not isinstance(init, list) or not all(isinstance(v, int) for v in init):
            note["status"] = "skipped: `%s` is neither an input, a remembered member nor a table of integer constants" % x[1]
            return
        names[x] = "TAB%d" % len(tables)
        params.append("TAB%d" % len(tables))
        tables.append(tuple(init))
    try:
        rf = G.term_fn(gen.raw, names, params)
        sf = G.term_fn(finals, names, params)
    except AnalysisError as e:
        note["status"] = "skipped, outside the checker's arithmetic: %s" % str(e)[:160]
        return
    cold = tuple(_c_convert(gen.state_init[k], *types[k]) for k in gen.state)

    class Skip(Exception):
        pass

    def call(state, c, ma):
        h, m, nn, fn = c
        args = (fn, fn // 1326, fn % 26, fn % 51, h, m, nn, ma, (fn // 51) % 8) + tuple(state) + tuple(tables)
        try:
            got = rf(*args)
        except G._Outside as e:
            got = str(e)
        except (ArithmeticError, TypeError, ValueError) as e:
            raise Skip("%s for %s" % (e, ctxt(c)))
        try:
            new = sf(*args)
        except (G._Outside, ArithmeticError, TypeError, ValueError) as e:
            raise Skip("%s for %s" % (e, ctxt(c)))
        if any(isinstance(v, bool) or not isinstance(v, int) for v in new):
            raise Skip("a remembered member does not fold to an integer for %s" % ctxt(c))
        return got, tuple(_c_convert(v, *types[k]) for v, k in zip(new, gen.state))

    def ctxt(c):
        return "%s(HSN = %d, MAIO = %d, N = %d, FN = %d: T1 = %d, T2 = %d, T3 = %d)" % (
            gen.HOP, c[0], c[1], c[2], c[3], c[3] // 1326, c[3] % 26, c[3] % 51)

    def sel(got, ma):
        return "MA[%d]" % ma.index(got) if isinstance(ma, tuple) and got in ma else repr(got)[:50]
    results = {}         # what -> [calls, [(text)]]
    total = 0
    try:
        for what, a, b in sequence_pairs(rntable):
            rec = results.setdefault(what, [0, []])
            state, prev = cold, None
            for c in (a, a, b, b, a):
                ma = _seq_ma(c[2])
                got, state = call(state, c, ma)
                mai = ref_select(rntable, *c)[0]
                rec[0] += 1
                if got != ma[mai] and len(rec[1]) < 50:
                    rec[1].append("%s%s: MA[%d] expected, %s selected" % (
                        ctxt(c), " after %s" % ctxt(prev) if prev else " as the first call", mai, sel(got, ma)))
                prev = c
        what = "another Mobile Allocation of the same length / a NULL table"
        rec = results.setdefault(what, [0, []])
        for hsn_ in (0, 1, 63):
            for nn in (1, 2, 5, 8, 64):
                for fn in (0, 7, 1326 * 700 + 611, FN_LAST):
                    c = (hsn_, 3 % nn if nn > 1 else 0, nn, fn)
                    mai = ref_select(rntable, *c)[0]
                    state, prev = cold, None
                    for ma in (_seq_ma(nn), _seq_ma(nn, 1), 0, _seq_ma(nn), _seq_ma(nn, 2)):
                        got, state = call(state, c, ma)
                        want = ma[mai] if ma != 0 else mai
                        rec[0] += 1
                        if got != want and len(rec[1]) < 50:
                            rec[1].append("%s with %s after the same call with %s: %s expected, %s selected" % (
                                ctxt(c), "a NULL table" if ma == 0 else "the allocation %s..." % (ma[:3],),
                                "no call before" if prev is None else "a NULL table" if prev == 0 else "the allocation %s..." % (prev[:3],),
                                "MA[%d] = %d" % (mai, want) if ma != 0 else "MAI %d" % mai, sel(got, ma)))
                        prev = ma
    except Skip as e:
        note["status"] = "skipped, outside the checker's arithmetic: %s" % str(e)[:160]
        # (a counterexample found before the fold left the arithmetic is still a counterexample)
    kept = ", ".join(sorted({gen.root(k) for k in gen.state}))
    for what in sorted(results):
        k, bad = results[what]
        total += k
        if not k:
            continue
        L.ob("C07.R10", F_RFCH, gen.HOP,
             "%s() keeps `%s` between calls: called again with %s it selects MA[MAI] of TS 45.002 6.2.3 for the inputs of each call "
             "(call sequences a, a, b, b, a from the static initialiser folded on the forward-substituted terms, the state "
             "carried from call to call)" % (gen.HOP, kept, what),
             "MA[MAI] of each call's own inputs", "equal for all %d calls" % k if not bad else
             "%s; differs for %s%d of %d calls" % (bad[0], "at least " if len(bad) >= 50 else "", len(bad), k), not bad, tu.line(gen.f))
    note.setdefault("status", "complete")
    note["calls_folded"] = total
    note["state"] = list(gen.state)
    if note["status"] == "complete":
        L.floor("C07.R10", "calls of the generator folded in sequences with the state carried", total, 2000)


class _UseStructSym(_StructSym):
    """_StructSym that keeps a call of the hopping generator as an opaque term (see _UseSym)"""

    def __init__(self, tu, keep):
        _StructSym.__init__(self, tu)
        self.keep = keep

    def call(self, m, lw):
        ks = kids(m)
        if ctext(ks[0]) == self.keep:
            return ("call", self.keep) + tuple(lw.lower(a) for a in ks[1:])
        return _StructSym.call(self, m, lw)


def _static_objects(tu, funcs):
    """declaration id -> (name, VarDecl) of the objects of static storage duration private to the translation unit: file-level
    `static` variables and `static` locals of the given functions"""
    out = {}
    for name, d in tu.vars.items():
        if kind(d) == "VarDecl" and d.get("storageClass") == "static":
            out[d.get("id")] = (name, d)
    for fn in funcs:
        fd = tu.functions.get(fn)
        if fd is None or not any(kind(c) == "CompoundStmt" for c in kids(fd)):
            continue
        for d in walk(tu.body(fd)):
            if kind(d) == "VarDecl" and d.get("storageClass") == "static":
                out[d.get("id")] = (d.get("name"), d)
    return out


# (the who-writes scan of objects of static storage lives in rules/c19.py: shared with C19.R4)
_maybe_written = G.maybe_written


def r10_c_getter_state(L, gen, spec):
    """C07.R10 at the observation point: what rfch_get_params() stores through its ARFCN output parameter must not depend on
    objects rfch.c keeps between calls (a remembered ARFCN, a remembered frame number) -- the generator's own memo is judged
    inside the generator (CSide._unmemo, r10_c_sequences).  Decided on the forward-substituted value (the generator's call
    kept as the entry it selects): a value that reads no object of static storage some function writes is a function of the
    current inputs.  One that does is folded for call sequences a, a, b, b, a from the static initialisers, with the
    configuration under which the generator's value is returned found by folding: a call that returns another channel
    than the generator selects for its own inputs is reported with the pair of calls; otherwise there is no verdict."""
    tu = gen.tu
    g = tu.func("rfch_get_params")
    gp = [p.get("name") for p in tu.fparams(g)]
    if len(gp) < 2:
        raise AnalysisError("rfch_get_params(): expected (t, arfcn_p, ...)")
    sym = _UseStructSym(tu, gen.HOP)
    try:
        out = sym.run(g)
        val = sym.final(out, "*%s" % gp[1])
    except AnalysisError as e:
        # the function leaves the vocabulary of the forward substitution: coarse scan of what it can reach
        reach = {"rfch_get_params"} | (_reach_callees(tu, g) - gen.allowed_functions())
        objs = _static_objects(tu, reach)
        dirty = _maybe_written(tu, set(objs))
        for fn in sorted(reach):
            for x in walk(tu.body(tu.functions[fn])):
                if kind(x) == "DeclRefExpr" and x.get("referencedDecl", {}).get("id") in dirty:
                    raise AnalysisError("%s() uses `%s`, an object rfch.c keeps between calls, and rfch_get_params() cannot be "
                                        "forward-substituted (%s); unclassifiable" % (fn, objs[x["referencedDecl"]["id"]][0], str(e)[:100]))
        return
    objs = _static_objects(tu, {"rfch_get_params"} | {n for n in sym.substituted if n in tu.functions})
    dirty = {objs[i][0]: objs[i][1] for i in _maybe_written(tu, set(objs))}
    val = G.renorm(val, lambda x: GEN_RESULT if x[0] == "call" and x[1] == gen.HOP else None)
    reads = sorted(x[1] for x in variables(val) if CGen.root(x[1]) in dirty and CGen.root(x[1]) not in gp)
    if not reads:
        return
    what = "rfch_get_params(): the ARFCN stored through *%s depends on %s, kept between calls" % (gp[1], ", ".join("`%s`" % r for r in reads[:4]))
    note = L.extra.setdefault("getter_call_sequences", {})
    rntable = spec["RNTABLE"]
    # members of the state with their types and initial values
    state, types, init = [], {}, {}
    try:
        for r in sorted({CGen.root(x) for x in reads}):
            d = dirty[r]
            rec = _node_record(d)
            ini = [c for c in kids(d) if kind(c) not in ("", None) and not kind(c).endswith("Attr")]
            if rec is not None:
                vals = _StructCL(sym, {}).struct_value(ini[-1], rec) if ini else None
                members = [(r + "." + ".".join(pth), ty, vals[pth] if vals is not None else C(0)) for pth, ty in record_leaves(tu, rec)]
            else:
                v = tu.fold(ini[-1]) if ini else 0
                members = [(r, d.get("type", {}).get("qualType", ""), C(v) if v is not None else None)]
            for k, ty, v in members:
                if v is None or v[0] != "c" or _c_int_type(ty) is None:
                    raise AnalysisError("`%s` of type `%s` has no constant integer initial value" % (k, ty))
                state.append(k)
                types[k], init[k] = _c_int_type(ty), v[1]
    except AnalysisError as e:
        raise AnalysisError("%s; %s; unclassifiable" % (what, e))
    finals = {k: G.renorm(sym.final(out, k), lambda x: GEN_RESULT if x[0] == "call" and x[1] == gen.HOP else None) for k in state}
    allv = set(variables(val))
    for f in finals.values():
        allv |= variables(f)
    t = gp[0]
    timev = {V("%s->fn" % t): lambda fn: fn, V("%s->t1" % t): lambda fn: fn // 1326, V("%s->t2" % t): lambda fn: fn % 26,
             V("%s->t3" % t): lambda fn: fn % 51, V("%s->tc" % t): lambda fn: (fn // 51) % 8}
    fixed = {V("*%s" % gp[1]): 0}
    config = sorted((v for v in allv if v[1] not in state and v not in timev and v not in fixed and v != GEN_RESULT
                     and _field_role(v[1]) is None), key=repr)
    if len(config) > 7:
        raise AnalysisError("%s and on %d other objects; unclassifiable" % (what, len(config)))
    cold = {V(k): _c_convert(init[k], *types[k]) for k in state}
    SENT = 54321
    conf = None
    for combo in itertools.product((1, 0, 2), repeat=len(config)):
        env = dict(zip(config, combo))
        env.update(fixed)
        env.update(cold)
        env.update({v: f(7) for v, f in timev.items()})
        env.update({v: {"hsn": 1, "maio": 0, "n": 5}[_field_role(v[1])] for v in allv if _field_role(v[1])})
        env[GEN_RESULT] = SENT
        if eval_term(val, env) == SENT:
            conf = dict(zip(config, combo))
            break
    if conf is None:
        raise AnalysisError("%s; no configuration was found under which the first call returns the generator's value; unclassifiable" % what)

    def call(st, c, ma):
        h, m, nn, fn = c
        env = dict(conf)
        env.update(fixed)
        env.update(st)
        env.update({v: f(fn) for v, f in timev.items()})
        env.update({v: {"hsn": h, "maio": m, "n": nn}[_field_role(v[1])] for v in allv if _field_role(v[1])})
        env[GEN_RESULT] = ma[ref_select(rntable, h, m, nn, fn)[0]]
        got = eval_term(val, env)
        new = {V(k): eval_term(finals[k], env) for k in state}
        if got is None or any(v is None for v in new.values()):
            return None, None
        return got, {V(k): _c_convert(new[V(k)], *types[k]) for k in state}
    results, total, skipped = {}, 0, None
    pairs = [(w, a, b, _seq_ma(a[2]), _seq_ma(b[2])) for w, a, b in sequence_pairs(rntable)]
    pairs += [("another Mobile Allocation of the same length", (h, 3 % nn, nn, fn), (h, 3 % nn, nn, fn), _seq_ma(nn), _seq_ma(nn, 1))
              for h in (0, 1, 63) for nn in (2, 5, 8, 64) for fn in (0, 7, 1326 * 700 + 611, FN_LAST)]
    for w, a, b, ma_a, ma_b in pairs:
        rec = results.setdefault(w, [0, []])
        st, prev = dict(cold), None
        for c, ma in ((a, ma_a), (a, ma_a), (b, ma_b), (b, ma_b), (a, ma_a)):
            got, st2 = call(st, c, ma)
            if got is None:
                skipped = "the stored value cannot be folded for HSN = %d, MAIO = %d, N = %d, FN = %d" % c
                break
            st = st2
            want = ma[ref_select(rntable, *c)[0]]
            rec[0] += 1
            if got != want and len(rec[1]) < 50:
                rec[1].append("rfch_get_params(FN = %d) with the descriptor (HSN = %d, MAIO = %d, N = %d)%s: the generator selects ARFCN %d, "
                              "%d is stored" % (c[3], c[0], c[1], c[2], " after the call for FN = %d with (HSN = %d, MAIO = %d, N = %d)%s" % (
                                  prev[3], prev[0], prev[1], prev[2], " and another allocation" if w.startswith("another Mobile") and prev == c else "")
                                  if prev else " as the first call", want, got))
            prev = c
        if skipped:
            break
    violated = False
    for w in sorted(results):
        k, bad = results[w]
        total += k
        if bad:
            violated = True
            L.ob("C07.R10", F_RFCH, "rfch_get_params",
                 "rfch_get_params() keeps %s between calls: called again with %s it stores the channel the generator selects for the "
                 "inputs of each call (call sequences a, a, b, b, a from the static initialisers folded on the forward-substituted "
                 "value, the state carried from call to call)" % (", ".join("`%s`" % r for r in sorted({CGen.root(x) for x in reads})), w),
                 "the generator's value of each call", "%s; differs for %s%d of %d calls" % (
                     bad[0], "at least " if len(bad) >= 50 else "", len(bad), k), False, tu.line(g))
    note.update({"state": state, "configuration": {v[1]: c for v, c in conf.items()}, "calls_folded": total,
                 "status": "skipped: %s" % skipped if skipped else "complete"})
    if not violated:
        raise AnalysisError("%s; %d calls in sequences do not refute it%s, and no proof that it is the generator's value for the current "
                            "inputs is attempted; unclassifiable" % (what, total, " (%s)" % skipped if skipped else ""))


def run(L, tier):
    spec = load_spec()
    repo = Repo(L.repo)
    # every rule group is a stage: an AnalysisError in one group is deferred, the groups that do not depend on
    # its result still run and a violation recognised by any of them is reported
    L.stage(r7_witnesses, L, repo, spec)
    py = L.stage(PySide, L, repo)
    gen = L.stage(CGen, L)
    cs = L.stage(CSide, L, gen)
    ptab = L.stage(r1_py_table, L, repo, py, spec)
    ctab = L.stage(r1_c_table, L, cs, spec)
    L.stage(r1_same_table, L, py, ptab, ctab)
    L.stage(r2_py_mask, L, repo, py)
    L.stage(r2_c_mask, L, cs)
    # conditional subtractions settled first (their own obligations) and the vocabulary checked; the formula, T1R, index
    # and return-path rules read the result
    py_s = L.stage(settle_py, L, py, spec["RNTABLE"])
    cs_s = L.stage(settle_c, L, cs, spec["RNTABLE"])
    L.stage(r3_py_formula, L, py_s)
    L.stage(r3_c_formula, L, cs_s)
    L.stage(r4_decomposition, L, repo)
    L.stage(r4_py_t1r, L, py_s)
    L.stage(r4_c_t1r, L, cs_s)
    L.stage(r5_py_bound, L, py_s, ptab)
    L.stage(r5_c_bound, L, cs_s, ctab)
    L.stage(r6_py_returns, L, py_s)
    L.stage(r6_getter_fold, L, repo)
    L.stage(r13_setfh_allocation, L, repo, spec)
    L.stage(r6_getters, L, repo)
    L.stage(r6_c_use, L, cs, spec["RNTABLE"])
    L.stage(r6_c_split, L, cs, spec["RNTABLE"])
    L.stage(r9_c_carriage, L, cs)
    L.stage(r10_c_sequences, L, gen, spec)
    L.stage(r10_c_getter_state, L, gen, spec)
    L.stage(r8_descriptor_writers, L, tier)
    L.stage(r16_descriptor_widths, L)
    L.stage(r11_takeover, L, tier)
    L.stage(r14_l1ctl_byte_order, L, tier)
    L.stage(r15_installed_description, L, spec, tier)
    _LAYER1_TUS.pop(id(L), None)
    _INSTALLERS.pop(id(L), None)
